"""C49 Python introspection metadata matches the C headers.

Forward direction (metadata -> compiler): from python/mujoco/introspect/{structs,enums,functions}.py a C11 probe
translation unit is generated, compiled with clang against the real headers and EXECUTED; it prints, per struct,
sizeof/_Alignof of the header struct and of a twin struct declared from the metadata, per field offsetof/sizeof in both
and __builtin_types_compatible_p of the header field type with the metadata type, per enumerator its value, per
function the compatibility of __typeof__(&fn) with the prototype built from the metadata, per parameter the
compatibility of the declared (undecayed) header parameter type with the metadata type.  The printed table is compared
with the metadata in Python.

Reverse direction (headers -> metadata): `clang -Xclang -ast-dump=json -fsyntax-only -fparse-all-comments mujoco.h`
lists every record/enum/typedef/function declared in include/mujoco; each one that the code generator's documented
rules export (python/mujoco/introspect/codegen/{generate,ast_processor}.py) must be present in the metadata with the
same member list and order.

parse_type round trip: every type string printed from the metadata, every type string the compiler reports for a
header field/parameter/return, every declared parameter text, and hypothesis-generated declarators are parsed with
type_parsing.parse_type; the parse tree is re-emitted by an independent typedef-chain emitter and the compiler decides
(at run time of the probe) whether string, tree and the tree's decl() print-back denote the same type.

The C types that the metadata tree denotes are emitted by an emitter that does not use ast_nodes.decl():
ValueType -> `typedef [const] [volatile] __typeof__(name) T;`, PointerType -> `typedef Inner *quals T;`,
ArrayType -> `typedef Inner T[e0][e1];` so declarator precedence can not be got wrong twice in the same way.
All comparisons are made on pointer-to-T because the builtin ignores top-level qualifiers.
"""
import ast as pyast
import importlib.util
import json
import os
import re
import shutil
import subprocess
import sys
import types
from pathlib import Path

from .. import build, core

LEVEL = "other"
RULE = ("exhaustive: one probe item per struct, struct field (nested anonymous members included), enum, enumerator, "
        "function and function parameter of the introspect metadata, one reverse item per record/enum/typedef/function "
        "declared under include/mujoco as reached from mujoco.h, one round-trip item per distinct type string "
        "(metadata decl() strings, compiler-reported qualTypes, declared parameter texts) plus hypothesis-generated "
        "declarators (const/volatile/restrict, pointer and array nesting, shuffled multi-word integer types); "
        "distinct = item identity (kind:name); every item is non-trivial (it is decided by an executed compiler probe)")
ASSUMPTIONS = [
    "clang's (and, thorough tier, gcc's) evaluation of offsetof/sizeof/_Alignof/__builtin_types_compatible_p on the "
    "x86-64 host is the reference for 'as the C compiler sees them'",
    "the metadata is generated from mujoco.h only (codegen/generate.py docstring): headers not reachable from mujoco.h "
    "(mjrfilament.h, mjxmacro.h, mjspecmacro.h, experimental/) are out of scope and counted",
    "documented exclusions are honoured: generate.py _EXCLUDED (mjpPlugin, mjpDecoder, mjpEncoder, "
    "mjpResourceProvider, mjResource and mjs_setUserValueWithCleanup); ast_processor.py exports only typedef'd "
    "'struct mj*'/'enum mj*' and functions named mj*; plain typedef aliases, untagged enums, records without typedef "
    "and global variables have no metadata category",
    "doc strings, `nullable` flags and parameter names are not compared (parameter-name differences are counted only); "
    "StructFieldDecl.array_extent is compared with the '(a x b)' suffix of the header comment, which is how "
    "ast_processor.py documents it is derived",
    "variadic functions (mju_error, mju_warning, mju_info): FunctionDecl has no way to express the ellipsis ('Skip "
    "variadic functions as Introspect currently doesn't support them', python/mujoco/codegen/"
    "generate_function_traits.py); the named parameters and the return type are still compared, the ellipsis is taken "
    "from the header and the functions are counted",
    "array extents of function parameters are invisible to the compiler after decay; they are compared through the "
    "declared parameter text sliced from the header at the source range clang reports",
]

EXPLANATION = ("The artefact is static and finite: the whole metadata (all structs, fields, enums, enumerators, "
               "functions, parameters) and every declaration clang reports for mujoco.h are enumerated completely. "
               "The verdict for each item is produced by running a compiled probe program (offsetof/sizeof/"
               "type-compatibility evaluated by the compiler and printed at run time), not by reading the headers; "
               "the hypothesis-generated declarators are an additional sampled part and are not covered by the "
               "exhaustive claim.")

CLANG = shutil.which("clang") or "clang"
_INTRO_PKG = "_c49_introspect"


# ------------------------------------------------------------------------------------------------------------------
# loading the artefacts under test (by file path, from the repo working tree - never from the installed wheel)
# ------------------------------------------------------------------------------------------------------------------
def load_meta(repo=None):
    repo = Path(repo or build.REPO)
    d = repo / "python" / "mujoco" / "introspect"
    for k in [k for k in sys.modules if k == _INTRO_PKG or k.startswith(_INTRO_PKG + ".")]:
        del sys.modules[k]
    pkg = types.ModuleType(_INTRO_PKG)
    pkg.__path__ = [str(d)]
    sys.modules[_INTRO_PKG] = pkg
    out = {}
    for n in ("ast_nodes", "type_parsing", "enums", "structs", "functions"):
        spec = importlib.util.spec_from_file_location(_INTRO_PKG + "." + n, d / (n + ".py"))
        m = importlib.util.module_from_spec(spec)
        sys.modules[spec.name] = m
        spec.loader.exec_module(m)
        out[n] = m
    return out


def load_excluded(repo=None):
    """_EXCLUDED list of codegen/generate.py, read from the source (absl is not needed)."""
    p = Path(repo or build.REPO) / "python" / "mujoco" / "introspect" / "codegen" / "generate.py"
    tree = pyast.parse(p.read_text())
    for node in tree.body:
        if isinstance(node, pyast.Assign) and any(getattr(t, "id", None) == "_EXCLUDED" for t in node.targets):
            return set(pyast.literal_eval(node.value))
    raise core.Inconclusive("codegen/generate.py has no _EXCLUDED list")


# ------------------------------------------------------------------------------------------------------------------
# reverse direction: clang JSON AST of mujoco.h
# ------------------------------------------------------------------------------------------------------------------
_ARRAY_COMMENT = re.compile(r'(.+?)\s+\(([^\(\)]+) x ([^\(\)]+)\)\Z')


def ast_dump(repo, workdir):
    inc = Path(repo) / "include"
    cmd = [CLANG, "-Xclang", "-ast-dump=json", "-fsyntax-only", "-fparse-all-comments", "-std=c11", "-x", "c",
           "-I" + str(inc), str(inc / "mujoco" / "mujoco.h")]
    out = Path(workdir) / "ast.json"
    with open(out, "wb") as f:
        r = subprocess.run(cmd, stdout=f, stderr=subprocess.PIPE, timeout=300)
    if r.returncode != 0:
        raise core.Inconclusive("clang could not parse mujoco.h: " + r.stderr.decode(errors="replace")[-1500:])
    with open(out) as f:
        return json.load(f)


def _comment_text(node):
    if node.get("kind") == "TextComment":
        return node.get("text", "")
    return "".join(_comment_text(c) for c in node.get("inner", ()))


class HeaderIndex:
    """What the compiler front end reports as declared under include/mujoco (reached from mujoco.h)."""

    def __init__(self, root, incdir):
        self.incdir = str(Path(incdir).resolve()) + os.sep
        self.records = {}      # 'struct mjModel_' -> {"complete": bool, "fields": [...], "file":..}
        self.enums = {}        # 'enum mjtX_' -> [(name, ...)]
        self.anon_enums = []   # untagged enums: list of enumerator-name lists
        self.typedefs = {}     # name -> qualType
        self.functions = {}    # name -> {"type": qualType, "params": [{"name","type","slice"}], "file":...}
        self.vars = []
        self.other = {}
        self._cur = None
        self._src = {}
        self.files_seen = set()
        for d in root.get("inner", ()):
            self._top(d)

    # clang prints "file" only when it differs from the previously printed location: replay that state machine
    def _locs(self, o):
        if isinstance(o, dict):
            if isinstance(o.get("file"), str):
                self._cur = o["file"]
                self.files_seen.add(o["file"])
            for k, v in o.items():
                if k != "includedFrom":
                    self._locs(v)

    def _enter(self, n):
        if "loc" in n:
            self._locs(n["loc"])
        f = self._cur
        if "range" in n:
            self._locs(n["range"])
        return f

    def _walk_locs(self, n):
        """Advance the file state over a subtree that is not otherwise interpreted."""
        self._enter(n)
        for c in n.get("inner", ()):
            self._walk_locs(c)

    def _mine(self, f):
        return bool(f) and str(Path(f).resolve()).startswith(self.incdir)

    def _text(self, f):
        if f not in self._src:
            self._src[f] = Path(f).read_bytes()
        return self._src[f]

    def _top(self, n):
        f = self._enter(n)
        kind = n.get("kind")
        mine = self._mine(f)
        if kind == "RecordDecl":
            rec = self._record(n, f)
            if mine and "name" in n:
                key = "%s %s" % (n.get("tagUsed", "struct"), n["name"])
                if rec["complete"] or key not in self.records:
                    self.records[key] = rec
            return
        if kind == "EnumDecl":
            names = []
            for c in n.get("inner", ()):
                self._walk_locs(c)
                if c.get("kind") == "EnumConstantDecl":
                    names.append(c["name"])
            if mine:
                if "name" in n:
                    self.enums["enum " + n["name"]] = names
                else:
                    self.anon_enums.append(names)
            return
        if kind == "FunctionDecl":
            params = []
            for c in n.get("inner", ()):
                cf = self._enter(c)
                if c.get("kind") == "ParmVarDecl":
                    params.append({"name": c.get("name", ""), "type": c["type"]["qualType"],
                                   "slice": self._param_slice(c, cf)})
                for cc in c.get("inner", ()):
                    self._walk_locs(cc)
            if mine:
                self.functions[n["name"]] = {"type": n["type"]["qualType"], "params": params, "file": f,
                                             "line": n.get("loc", {}).get("line"),
                                             "variadic": bool(n.get("variadic"))}
            return
        for c in n.get("inner", ()):
            self._walk_locs(c)
        if not mine:
            return
        if kind == "TypedefDecl":
            self.typedefs[n["name"]] = n["type"]["qualType"]
        elif kind == "VarDecl":
            self.vars.append(n.get("name"))
        else:
            self.other[kind] = self.other.get(kind, 0) + 1

    def _param_slice(self, c, f):
        """Declared text of a parameter with its name removed (keeps array extents lost to decay)."""
        try:
            b, e, l = c["range"]["begin"], c["range"]["end"], c["loc"]
            if "offset" not in b or "offset" not in e or "offset" not in l or not c.get("name"):
                return None
            src = self._text(f)
            text = src[b["offset"]: e["offset"] + e["tokLen"]]
            nb = l["offset"] - b["offset"]
            ne = nb + l["tokLen"]
            if text[nb:ne].decode() != c["name"]:
                return None
            return (text[:nb] + b" " + text[ne:]).decode()
        except (KeyError, OSError, UnicodeDecodeError):
            return None

    def _record(self, n, f):
        """Field tree of a RecordDecl: list of dicts {name|None, type, doc, sub: nested record or None}."""
        fields = []
        pending = None
        for c in n.get("inner", ()):
            k = c.get("kind")
            if k == "RecordDecl":
                cf = self._enter(c)
                pending = self._record(c, cf)
                pending["tag"] = c.get("tagUsed", "struct")
                pending["named"] = "name" in c
                continue
            self._enter(c)
            if k == "FieldDecl":
                qt = c["type"]["qualType"]
                doc = ""
                for cc in c.get("inner", ()):
                    self._walk_locs(cc)
                    if cc.get("kind") == "FullComment":
                        doc = _comment_text(cc).strip()
                sub = None
                if "(unnamed " in qt or "(anonymous " in qt:
                    sub, pending = pending, None
                fields.append({"name": c.get("name"), "type": qt, "doc": doc, "sub": sub,
                               "bitfield": bool(c.get("isBitfield"))})
            else:
                for cc in c.get("inner", ()):
                    self._walk_locs(cc)
        return {"complete": bool(n.get("completeDefinition")), "fields": fields, "file": f}


def header_field_names(fields):
    """Nested name list, e.g. ['a', ('b', '{', [...]), (None, 'union{', [...])] flattened to comparable strings."""
    out = []
    for fd in fields:
        if fd["sub"] is not None:
            out.append("%s:%s{%s}" % (fd["name"] or "", fd["sub"].get("tag", "struct"),
                                      ",".join(header_field_names(fd["sub"]["fields"]))))
        else:
            out.append(fd["name"] or "")
    return out


def meta_field_names(an, fields):
    out = []
    for fd in fields:
        if isinstance(fd, an.StructFieldDecl):
            if isinstance(fd.type, an.AnonymousStructDecl):
                tag = "union" if isinstance(fd.type, an.AnonymousUnionDecl) else "struct"
                out.append("%s:%s{%s}" % (fd.name, tag, ",".join(meta_field_names(an, fd.type.fields))))
            else:
                out.append(fd.name)
        else:
            tag = "union" if isinstance(fd, an.AnonymousUnionDecl) else "struct"
            out.append(":%s{%s}" % (tag, ",".join(meta_field_names(an, fd.fields))))
    return out


# ------------------------------------------------------------------------------------------------------------------
# probe translation unit
# ------------------------------------------------------------------------------------------------------------------
class Probe:
    """Accumulates probe items; each source line belongs to one item (so compiler errors can be attributed).

    An item may live in the block scope of another item (`scope_of`): struct-field items use the twin struct that is
    declared in the block of their struct item."""

    def __init__(self, an, header="<mujoco/mujoco.h>"):
        self.an = an
        self.header = header
        self.items = []     # dict(id, kind, name, meta, lines [(role, text)], scope_of)
        self._n = 0

    def new_item(self, kind, name, scope_of=None, **meta):
        it = {"id": len(self.items), "kind": kind, "name": name, "lines": [], "meta": meta, "scope_of": scope_of}
        self.items.append(it)
        return it

    def tname(self):
        self._n += 1
        return "c49_t%d" % self._n

    # independent emitter: metadata type tree -> typedef chain; returns the typedef name
    def chain(self, t, it, role="chain"):
        an = self.an
        if isinstance(t, an.ValueType):
            name = self.tname()
            q = ("const " if t.is_const else "") + ("volatile " if t.is_volatile else "")
            it["lines"].append((role, "typedef %s__typeof__(%s) %s;" % (q, t.name, name)))
        elif isinstance(t, an.PointerType):
            inner = self.chain(t.inner_type, it, role)
            name = self.tname()
            q = (" const" if t.is_const else "") + (" volatile" if t.is_volatile else "") + \
                (" restrict" if t.is_restrict else "")
            it["lines"].append((role, "typedef %s *%s %s;" % (inner, q, name)))
        elif isinstance(t, an.ArrayType):
            inner = self.chain(t.inner_type, it, role)
            name = self.tname()
            it["lines"].append((role, "typedef %s %s%s;" % (inner, name, "".join("[%d]" % int(e) for e in t.extents))))
        else:
            raise TypeError("not a type node: %r" % (t,))
        return name

    def typeof(self, s, it, role):
        name = self.tname()
        it["lines"].append((role, "typedef __typeof__(%s) %s;" % (s, name)))
        return name

    def emit(self, it, vals):
        vals = list(vals) + ["0"] * (8 - len(vals))
        it["lines"].append(("print", "R(%d, %s);" % (it["id"], ", ".join("(long long)(%s)" % v for v in vals))))

    def source(self, skip=()):
        """Returns (text, {line -> (item id, role)}, [ids of the items that are in the text])."""
        lines = ["#include <stdio.h>", "#include <stddef.h>", "#include <stdint.h>", "#include %s" % self.header,
                 "#define R(id,a,b,c,d,e,f,g,h) printf(\"%d|%lld|%lld|%lld|%lld|%lld|%lld|%lld|%lld\\n\",id,a,b,c,d,e,f,g,h)",
                 "#define COMPAT(A,B) __builtin_types_compatible_p(A*, B*)"]
        owner = {}
        live = []
        kids = {}
        for it in self.items:
            if it["scope_of"] is not None:
                kids.setdefault(it["scope_of"], []).append(it)

        def put(it):
            for role, text in it["lines"]:
                for sub in text.split("\n"):
                    lines.append(sub)
                    owner[len(lines)] = (it["id"], role)
            live.append(it["id"])

        nfun, budget, open_fun = 0, 0, False
        for it in self.items:
            if it["scope_of"] is not None or it["id"] in skip or not it["lines"]:
                continue
            if not open_fun or budget > 300:
                if open_fun:
                    lines.append("}")
                lines.append("static void c49_probe_%d(void) {" % nfun)
                nfun, budget, open_fun = nfun + 1, 0, True
            lines.append("{")
            put(it)
            budget += 1
            for k in kids.get(it["id"], ()):
                if k["id"] in skip:
                    continue
                lines.append("{")
                put(k)
                lines.append("}")
                budget += 1
            lines.append("}")
        if open_fun:
            lines.append("}")
        lines.append("int main(void) {")
        for k in range(nfun):
            lines.append("  c49_probe_%d();" % k)
        lines.append("  printf(\"END|%d\\n\", " + str(len(live)) + ");")
        lines.append("  return 0;")
        lines.append("}")
        return "\n".join(lines) + "\n", owner, live


_ERR = re.compile(r"^(?P<file>[^:\n]+):(?P<line>\d+):(?:(?P<col>\d+):)? (?:fatal )?error: (?P<msg>.*)$", re.M)


def _err_category(msg):
    m = msg.lower()
    for pat, cat in (("no member named", "no-such-member"), ("has no member", "no-such-member"),
                     ("undeclared", "undeclared-identifier"), ("unknown type name", "unknown-type"),
                     ("incomplete", "incomplete-type"), ("redefinition", "redefinition"),
                     ("expected", "syntax"), ("restrict", "bad-restrict"), ("array", "bad-array")):
        if pat in m:
            return cat
    return "other"


def compile_and_run(probe, workdir, repo, tag, compiler=None, max_rounds=8):
    """Compile the probe with the real headers and RUN it.

    Returns (rows {item id -> [6 ints]}, failed {item id -> (role, message)}, unprobed [ids]).  Items whose lines do
    not compile are dropped (the caller reports them) and the rest is recompiled, so one bad item can not hide others.
    """
    compiler = compiler or CLANG
    workdir = Path(workdir)
    src = workdir / ("probe_%s.c" % tag)
    exe = workdir / ("probe_%s" % tag)
    failed = {}
    live = []
    for _ in range(max_rounds):
        text, owner, live = probe.source(skip=set(failed))
        src.write_text(text)
        cmd = [compiler, "-std=c11", "-O0", "-w", "-I" + str(Path(repo) / "include"), str(src), "-o", str(exe)]
        cmd.insert(1, "-ferror-limit=0" if "clang" in os.path.basename(compiler) else "-fmax-errors=0")
        r = subprocess.run(cmd, stdout=subprocess.PIPE, stderr=subprocess.PIPE, timeout=600)
        if r.returncode == 0:
            break
        err = r.stderr.decode(errors="replace")
        new = 0
        for m in _ERR.finditer(err):
            if os.path.basename(m.group("file")) != src.name:
                continue
            own = owner.get(int(m.group("line")))
            if own is None:
                raise core.Inconclusive("probe scaffold does not compile (%s): %s" % (tag, m.group(0)[:300]))
            if own[0] not in failed:
                failed[own[0]] = (own[1], m.group("msg"))
                new += 1
        if new == 0:
            raise core.Inconclusive("probe does not compile and no error could be attributed (%s): %s"
                                    % (tag, err[-1500:]))
    else:
        raise core.Inconclusive("probe still not compilable after %d rounds (%s)" % (max_rounds, tag))
    r = subprocess.run([str(exe)], stdout=subprocess.PIPE, stderr=subprocess.PIPE, timeout=300)
    if r.returncode != 0:
        raise core.Inconclusive("probe executable failed rc=%s (%s): %s" % (r.returncode, tag, r.stderr[-500:]))
    rows, end = {}, None
    for line in r.stdout.decode().splitlines():
        parts = line.split("|")
        if parts[0] == "END":
            end = int(parts[1])
        else:
            rows[int(parts[0])] = [int(x) for x in parts[1:]]
    if end != len(live) or set(rows) != set(live):
        raise core.Inconclusive("probe output incomplete (%s): %d rows, expected %d" % (tag, len(rows), len(live)))
    unprobed = [it["id"] for it in probe.items if it["lines"] and it["id"] not in rows and it["id"] not in failed]
    return rows, failed, unprobed


# ------------------------------------------------------------------------------------------------------------------
# forward direction: build the probe from the metadata
# ------------------------------------------------------------------------------------------------------------------
def _flatten(an, fields, prefix="", in_union=False):
    """Yield (path, StructFieldDecl, type node or None for an anonymous struct/union typed field, in_union)."""
    for fd in fields:
        if isinstance(fd, an.StructFieldDecl):
            path = prefix + fd.name
            if isinstance(fd.type, an.AnonymousStructDecl):
                yield path, fd, None, in_union
                yield from _flatten(an, fd.type.fields, path + ".", isinstance(fd.type, an.AnonymousUnionDecl))
            else:
                yield path, fd, fd.type, in_union
        else:  # anonymous member: its fields are addressed directly
            yield from _flatten(an, fd.fields, prefix, isinstance(fd, an.AnonymousUnionDecl))


def _twin_body(probe, an, fields, pre, out, ind="  "):
    for fd in fields:
        if isinstance(fd, an.StructFieldDecl):
            if isinstance(fd.type, an.AnonymousStructDecl):
                out.append(ind + ("union {" if isinstance(fd.type, an.AnonymousUnionDecl) else "struct {"))
                _twin_body(probe, an, fd.type.fields, pre, out, ind + "  ")
                out.append(ind + "} %s;" % fd.name)
            else:
                tmp = {"lines": []}
                tn = probe.chain(fd.type, tmp, "twin")
                pre.extend(tmp["lines"])
                out.append(ind + "%s %s;" % (tn, fd.name))
        else:
            out.append(ind + ("union {" if isinstance(fd, an.AnonymousUnionDecl) else "struct {"))
            _twin_body(probe, an, fd.fields, pre, out, ind + "  ")
            out.append(ind + "};")


def _hdr_paths(fields, prefix=""):
    out = set()
    for fd in fields:
        if fd["sub"] is not None:
            if fd["name"]:
                out.add(prefix + fd["name"])
                out |= _hdr_paths(fd["sub"]["fields"], prefix + fd["name"] + ".")
            else:
                out |= _hdr_paths(fd["sub"]["fields"], prefix)
        elif fd["name"]:
            out.add(prefix + fd["name"])
    return out


def build_forward(meta, hdr):
    an = meta["ast_nodes"]
    S, E, F = meta["structs"].STRUCTS, meta["enums"].ENUMS, meta["functions"].FUNCTIONS
    probe = Probe(an)
    pre = []   # violations decided before compiling (name absent from what the compiler front end reports)

    for key, s in S.items():
        if key != s.name:
            pre.append(("struct:key-differs-from-name", {"item": "struct:" + key, "key": key, "name": s.name}))
        if s.name not in hdr.typedefs:
            pre.append(("struct:not-declared-in-headers", {"item": "struct:" + s.name, "declname": s.declname}))
            continue
        rec = hdr.records.get(hdr.typedefs[s.name])
        if not s.fields:
            it = probe.new_item("opaque-struct", s.name, declname=s.declname)
            a = probe.typeof(s.name, it, "typedef")
            b = probe.typeof(s.declname, it, "declname")
            probe.emit(it, ["COMPAT(%s, %s)" % (a, b)])
            continue
        flat = list(_flatten(an, s.fields))
        hdr_paths = _hdr_paths(rec["fields"]) if rec is not None else None
        missing = set(p for p, _, _, _ in flat if hdr_paths is not None and p not in hdr_paths)
        for p in sorted(missing):
            pre.append(("struct-field:not-declared-in-header", {"item": "field:%s.%s" % (s.name, p)}))
        twin = "c49_twin_%s" % re.sub(r"\W", "_", s.name)
        it = probe.new_item("struct", s.name, declname=s.declname, nfields=len(flat))
        tpre, body = [], []
        _twin_body(probe, an, s.fields, tpre, body)
        it["lines"].extend(tpre)
        it["lines"].append(("twin", "struct %s {\n%s\n};" % (twin, "\n".join(body))))
        # second twin, built from the metadata's OWN print-back (str(field) / decl()) of every member: what a consumer gets when it
        # prints a struct description must denote the same layout as the header (anonymous unions/structs, arrays, pointers)
        ptwin = "c49_ptwin_%s" % re.sub(r"\W", "_", s.name)
        it["lines"].append(("printed-twin", "struct %s {\n%s\n};" % (ptwin, "\n".join("  %s;" % str(fd) for fd in s.fields))))
        a = probe.typeof(s.name, it, "typedef")
        b = probe.typeof(s.declname, it, "declname")
        probe.emit(it, ["sizeof(%s)" % s.name, "_Alignof(%s)" % s.name, "COMPAT(%s, %s)" % (a, b),
                        "sizeof(struct %s)" % twin, "_Alignof(struct %s)" % twin, "sizeof(struct %s)" % ptwin, "_Alignof(struct %s)" % ptwin])
        for path, fd, t, in_union in flat:
            if path in missing:
                continue
            fi = probe.new_item("field", "%s.%s" % (s.name, path), scope_of=it["id"], struct=s.name, path=path,
                                in_union=in_union, decl=(str(fd) if t is not None else fd.type.decl(fd.name)))
            vals = ["offsetof(%s, %s)" % (s.name, path), "sizeof(((%s*)0)->%s)" % (s.name, path),
                    "offsetof(struct %s, %s)" % (twin, path), "sizeof(((struct %s*)0)->%s)" % (twin, path)]
            if t is not None:
                tn = probe.chain(t, fi)
                hn = probe.typeof("((%s*)0)->%s" % (s.name, path), fi, "header-field")
                vals.append("COMPAT(%s, %s)" % (hn, tn))
            else:
                vals.append("-1")
            vals += ["offsetof(struct %s, %s)" % (ptwin, path), "sizeof(((struct %s*)0)->%s)" % (ptwin, path)]
            probe.emit(fi, vals)

    known_consts = set(n for names in list(hdr.enums.values()) + hdr.anon_enums for n in names)
    for key, e in E.items():
        if key != e.name:
            pre.append(("enum:key-differs-from-name", {"item": "enum:" + key, "key": key, "name": e.name}))
        if e.name not in hdr.typedefs:
            pre.append(("enum:not-declared-in-headers", {"item": "enum:" + e.name, "declname": e.declname}))
            continue
        it = probe.new_item("enum", e.name, declname=e.declname)
        a = probe.typeof(e.name, it, "typedef")
        b = probe.typeof(e.declname, it, "declname")
        probe.emit(it, ["sizeof(%s)" % e.name, "COMPAT(%s, %s)" % (a, b)])
        for cname, val in e.values.items():
            if cname not in known_consts:
                pre.append(("enumerator:not-declared-in-headers", {"item": "enumerator:%s.%s" % (e.name, cname)}))
                continue
            ci = probe.new_item("enumerator", "%s.%s" % (e.name, cname), value=int(val))
            probe.emit(ci, [cname, "__builtin_types_compatible_p(__typeof__(%s), int)" % cname])

    for key, f in F.items():
        if key != f.name:
            pre.append(("function:key-differs-from-name", {"item": "function:" + key, "key": key, "name": f.name}))
        hf = hdr.functions.get(f.name)
        if hf is None:
            pre.append(("function:not-declared-in-headers", {"item": "function:" + f.name, "decl": str(f)}))
            continue
        it = probe.new_item("function", f.name, decl=str(f), header_type=hf["type"])
        rn = probe.chain(f.return_type, it)
        pn = [probe.chain(p.type, it) for p in f.parameters]
        proto = probe.tname()
        # "Skip variadic functions as Introspect currently doesn't support them" (python/mujoco/codegen/
        # generate_function_traits.py): FunctionDecl can not express the ellipsis, so it is taken from the header
        ell = ", ..." if (hf["variadic"] and pn) else ""
        it["meta"]["variadic_in_header"] = hf["variadic"]
        it["lines"].append(("proto", "typedef %s (*%s)(%s%s);" % (rn, proto, ", ".join(pn) if pn else "void", ell)))
        probe.emit(it, ["__builtin_types_compatible_p(__typeof__(&%s), %s)" % (f.name, proto), str(len(pn))])
        for i, p in enumerate(f.parameters):
            hp = hf["params"][i] if i < len(hf["params"]) else None
            if hp is None or hp["slice"] is None:
                it["meta"].setdefault("params_without_slice", []).append(p.name)
                continue
            pi = probe.new_item("param", "%s(%d:%s)" % (f.name, i, p.name), decl=str(p),
                                header_decl=" ".join(hp["slice"].split()), header_name=hp["name"], meta_name=p.name)
            hn = probe.typeof(hp["slice"], pi, "header-param")
            mn = probe.chain(p.type, pi)
            probe.emit(pi, ["COMPAT(%s, %s)" % (hn, mn)])
    return probe, pre


def judge_forward(sink, probe, rows, failed, unprobed, compiler):
    """Compare the table printed by the executed probe with the metadata."""
    by_id = {it["id"]: it for it in probe.items}
    for iid, (role, msg) in failed.items():
        it = by_id[iid]
        if role == "header-param":
            sink.count("param_header_text_not_compilable")
            continue
        sink.violation("%s:probe-not-compilable:%s" % (it["kind"], _err_category(msg)),
                       {"item": "%s:%s" % (it["kind"], it["name"]), "role": role, "compiler_message": msg,
                        "metadata": it["meta"], "compiler": compiler})
    if unprobed:
        sink.count("items_unprobed_because_container_failed", len(unprobed))
    for iid, v in rows.items():
        it = by_id[iid]
        kind, name, meta = it["kind"], it["name"], it["meta"]
        ident = "%s:%s" % (kind, name)
        d = {"item": ident, "metadata": meta, "compiler": compiler}
        sample = None
        if kind == "struct":
            sample = dict(d, sizeof=v[0], alignof=v[1], twin_sizeof=v[3], twin_alignof=v[4])
            if v[2] != 1:
                sink.violation("struct:typedef-is-not-declname", sample)
            if v[0] != v[3] or v[1] != v[4]:
                sink.violation("struct:size-or-alignment-differs-from-metadata-twin", sample)
            if v[0] != v[5] or v[1] != v[6]:
                sink.violation("struct:size-or-alignment-differs-from-the-metadata's-printed-declaration", dict(sample, printed_sizeof=v[5], printed_alignof=v[6]))
        elif kind == "opaque-struct":
            if v[0] != 1:
                sink.violation("struct:typedef-is-not-declname", d)
        elif kind == "field":
            sample = dict(d, offsetof=v[0], sizeof=v[1], twin_offsetof=v[2], twin_sizeof=v[3], type_compatible=v[4])
            if v[4] == 0:
                sink.violation("struct-field:type-mismatch", sample)
            if v[1] != v[3]:
                sink.violation("struct-field:size-mismatch", sample)
            if v[0] != v[2]:
                sink.violation("struct-field:offset-differs-from-metadata-order", sample)
            if v[0] != v[5] or v[1] != v[6]:
                sink.violation("struct-field:offset-or-size-differs-in-the-metadata's-printed-declaration", dict(sample, printed_offsetof=v[5], printed_sizeof=v[6]))
        elif kind == "enum":
            if v[1] != 1:
                sink.violation("enum:typedef-is-not-declname", dict(d, sizeof=v[0]))
        elif kind == "enumerator":
            sample = dict(d, compiled_value=v[0], is_int=v[1])
            if v[0] != meta["value"]:
                sink.violation("enumerator:value-mismatch", sample)
        elif kind == "function":
            sample = dict(d, prototype_compatible=v[0])
            if v[0] != 1:
                sink.violation("function:prototype-mismatch", sample)
            if meta.get("variadic_in_header"):
                sink.count("variadic_functions_ellipsis_not_representable_in_metadata")
        elif kind == "param":
            sample = dict(d, declared_type_compatible=v[0])
            if v[0] != 1:
                sink.violation("function-param:declared-type-mismatch", sample)
            if meta["header_name"] != meta["meta_name"]:
                sink.count("param_name_differences")
        sink.case(ident, sample=sample if (sample and iid % 997 == 3) else None)
        sink.count("probed_" + kind.replace("-", "_"))


# ------------------------------------------------------------------------------------------------------------------
# reverse direction: everything the headers declare must be described
# ------------------------------------------------------------------------------------------------------------------
def _meta_leaf_fields(an, fields, prefix=""):
    for fd in fields:
        if isinstance(fd, an.StructFieldDecl):
            if isinstance(fd.type, an.AnonymousStructDecl):
                yield from _meta_leaf_fields(an, fd.type.fields, prefix + fd.name + ".")
            else:
                yield prefix + fd.name, fd
        else:
            yield from _meta_leaf_fields(an, fd.fields, prefix)


def _hdr_leaf_fields(fields, prefix=""):
    for fd in fields:
        if fd["sub"] is not None:
            yield from _hdr_leaf_fields(fd["sub"]["fields"], prefix + (fd["name"] + "." if fd["name"] else ""))
        elif fd["name"]:
            yield prefix + fd["name"], fd


def _extent_from_comment(doc):
    m = _ARRAY_COMMENT.match(doc.replace("\N{NO-BREAK SPACE}", "&nbsp;"))
    if m is None:
        return None
    e0, e1 = m.group(2), m.group(3)
    try:
        e1 = int(e1)
    except ValueError:
        pass
    return (e0,) if e1 == 1 else (e0, e1)


def judge_reverse(sink, meta, hdr, excluded):
    an = meta["ast_nodes"]
    S, E, F = meta["structs"].STRUCTS, meta["enums"].ENUMS, meta["functions"].FUNCTIONS
    typedef_targets = set(hdr.typedefs.values())
    for name, qt in hdr.typedefs.items():
        if qt.startswith("struct mj"):
            ident = "header-struct:" + name
            if name in excluded:
                sink.count("reverse_excluded_by_generate_py")
                continue
            sink.case(ident)
            sink.count("reverse_structs")
            s = S.get(name)
            if s is None:
                sink.violation("reverse:struct-missing-from-metadata", {"item": ident, "header_type": qt})
                continue
            if s.declname != qt:
                sink.violation("reverse:struct-declname-differs", {"item": ident, "header": qt, "metadata": s.declname})
            rec = hdr.records.get(qt)
            hnames = header_field_names(rec["fields"]) if rec is not None and rec["complete"] else []
            mnames = meta_field_names(an, s.fields)
            if hnames != mnames:
                first = next((i for i, (a, b) in enumerate(zip(hnames, mnames)) if a != b), min(len(hnames), len(mnames)))
                sink.violation("reverse:struct-field-list-differs",
                               {"item": ident, "only_in_header": [x for x in hnames if x not in mnames],
                                "only_in_metadata": [x for x in mnames if x not in hnames],
                                "first_difference_index": first,
                                "header_at": hnames[first:first + 2], "metadata_at": mnames[first:first + 2]})
            if rec is not None:
                if any(fd["bitfield"] for _, fd in _hdr_leaf_fields(rec["fields"])):
                    sink.count("bitfields_seen")
                mleaf = dict(_meta_leaf_fields(an, s.fields))
                for path, hf in _hdr_leaf_fields(rec["fields"]):
                    mf = mleaf.get(path)
                    if mf is None:
                        continue
                    sink.count("reverse_fields")
                    want = _extent_from_comment(hf["doc"])
                    have = tuple(mf.array_extent) if mf.array_extent is not None else None
                    if want != have:
                        sink.violation("reverse:field-array-extent-differs-from-header-comment",
                                       {"item": "field:%s.%s" % (name, path), "header_comment": hf["doc"],
                                        "metadata_array_extent": have, "expected": want})
                    elif want is not None:
                        sink.count("reverse_fields_with_symbolic_extent")
        elif qt.startswith("enum mj"):
            ident = "header-enum:" + name
            sink.case(ident)
            sink.count("reverse_enums")
            e = E.get(name)
            if e is None:
                sink.violation("reverse:enum-missing-from-metadata", {"item": ident, "header_type": qt})
                continue
            if e.declname != qt:
                sink.violation("reverse:enum-declname-differs", {"item": ident, "header": qt, "metadata": e.declname})
            hn = hdr.enums.get(qt, [])
            mn = list(e.values.keys())
            sink.count("reverse_enumerators", len(hn))
            if hn != mn:
                sink.violation("reverse:enumerator-list-differs",
                               {"item": ident, "only_in_header": [x for x in hn if x not in mn],
                                "only_in_metadata": [x for x in mn if x not in hn],
                                "header_order": hn[:40], "metadata_order": mn[:40]})
        else:
            sink.count("reverse_plain_typedef_aliases_no_metadata_category")
    for key in hdr.records:
        if key not in typedef_targets:
            sink.count("reverse_records_without_typedef_no_metadata_category")
    for key in hdr.enums:
        if key not in typedef_targets:
            sink.count("reverse_enums_without_typedef_no_metadata_category")
    sink.count("reverse_untagged_enums_no_metadata_category", len(hdr.anon_enums))
    sink.count("reverse_global_variables_no_metadata_category", len(hdr.vars))
    for name, hf in hdr.functions.items():
        ident = "header-function:" + name
        if not name.startswith("mj"):
            sink.count("reverse_functions_not_named_mj")
            continue
        if name in excluded:
            sink.count("reverse_excluded_by_generate_py")
            continue
        sink.case(ident)
        sink.count("reverse_functions")
        f = F.get(name)
        if f is None:
            sink.violation("reverse:function-missing-from-metadata",
                           {"item": ident, "header_type": hf["type"], "line": hf["line"]})
            continue
        if len(f.parameters) != len(hf["params"]):
            sink.violation("reverse:function-parameter-count-differs",
                           {"item": ident, "header": [p["name"] for p in hf["params"]],
                            "metadata": [p.name for p in f.parameters]})
    for name in excluded:
        if name not in hdr.typedefs and name not in hdr.functions and ("struct " + name) not in hdr.records:
            sink.count("excluded_names_not_present_in_headers")


# ------------------------------------------------------------------------------------------------------------------
# parse_type round trip
# ------------------------------------------------------------------------------------------------------------------
def collect_type_strings(meta, hdr, excluded):
    """{string -> (source tag, original node or None)} for every type string of the metadata and of the headers."""
    an = meta["ast_nodes"]
    out = {}

    def add(s, src, node=None):
        s = s.strip()
        if s and s not in out and "(unnamed " not in s and "(anonymous " not in s:
            out[s] = (src, node)
    for s in meta["structs"].STRUCTS.values():
        for _, fd, t, _ in _flatten(an, s.fields):
            if t is not None:
                add(t.decl(), "metadata-field", t)
    for f in meta["functions"].FUNCTIONS.values():
        add(f.return_type.decl(), "metadata-return", f.return_type)
        for p in f.parameters:
            add(p.type.decl(), "metadata-param", p.type)
    for name, qt in hdr.typedefs.items():
        if qt.startswith("struct mj") and name not in excluded and qt in hdr.records:
            for _, fd in _hdr_leaf_fields(hdr.records[qt]["fields"]):
                add(fd["type"], "header-field")
    for key, rec in hdr.records.items():
        if key.split(" ", 1)[1] not in excluded and key.split(" ", 1)[1].rstrip("_") not in excluded:
            for _, fd in _hdr_leaf_fields(rec["fields"]):
                if "(*)" not in fd["type"]:
                    add(fd["type"], "header-field")
    for name, hf in hdr.functions.items():
        if not name.startswith("mj") or name in excluded:
            continue
        add(hf["type"][:hf["type"].find("(")], "header-return")
        for p in hf["params"]:
            add(p["type"], "header-param")
            if p["slice"]:
                add(" ".join(p["slice"].split()), "header-param-text")
    return out


def build_roundtrip(meta, strings, sink):
    """strings: {s -> (source, node|None)}.  Python-level checks are made here, compiler-level ones in the probe."""
    an, tp = meta["ast_nodes"], meta["type_parsing"]
    probe = Probe(an)
    for s, (src, node) in strings.items():
        ident = "type:" + s
        try:
            t = tp.parse_type(s)
        except Exception as ex:  # noqa: BLE001 - any exception is a refusal to parse a declared type
            sink.case(ident)
            sink.count("roundtrip_" + src.replace("-", "_"))
            sink.violation("parse_type:raises-on-declared-type:" + type(ex).__name__,
                           {"item": ident, "type_string": s, "source": src, "exception": repr(ex)})
            continue
        d = {"item": ident, "type_string": s, "source": src, "parsed": repr(t)}
        if node is not None and t != node:
            sink.violation("parse_type:tree-differs-from-metadata-node", dict(d, node=repr(node)))
        try:
            back = t.decl()
            named = t.decl("C49NAME")
            t2 = tp.parse_type(back)
        except Exception as ex:  # noqa: BLE001
            sink.case(ident)
            sink.violation("parse_type:print-back-raises:" + type(ex).__name__, dict(d, exception=repr(ex)))
            continue
        if t2 != t:
            sink.violation("parse_type:reparse-of-print-back-differs", dict(d, printed=back, reparsed=repr(t2)))
        it = probe.new_item("type", s, source=src, printed=back, parsed=repr(t))
        o = probe.typeof(s, it, "original")
        c = probe.chain(t, it)
        p = probe.typeof(back, it, "printed")
        nn = probe.tname()
        it["lines"].append(("printed-named", "typedef %s;" % named.replace("C49NAME", nn)))
        probe.emit(it, ["COMPAT(%s, %s)" % (o, c), "COMPAT(%s, %s)" % (o, p), "COMPAT(%s, %s)" % (o, nn)])
    return probe


def judge_roundtrip(sink, probe, rows, failed, compiler):
    by_id = {it["id"]: it for it in probe.items}
    for iid, (role, msg) in failed.items():
        it = by_id[iid]
        d = {"item": "type:" + it["name"], "type_string": it["name"], "role": role, "compiler_message": msg,
             "metadata": it["meta"], "compiler": compiler}
        if role == "original":
            if it["meta"]["source"] == "hypothesis":
                raise core.Inconclusive("generated declarator is not valid C (harness bug): %r: %s" % (it["name"], msg))
            if it["meta"]["source"] == "header-param-text":
                sink.count("param_header_text_not_compilable")
                continue
            sink.violation("type-string:not-valid-C", d)
        else:
            sink.violation("parse_type:%s-not-valid-C" % role, d)
    for iid, v in rows.items():
        it = by_id[iid]
        src = it["meta"]["source"]
        ident = "type:" + it["name"]
        d = {"item": ident, "type_string": it["name"], "source": src, "parsed": it["meta"]["parsed"],
             "printed": it["meta"]["printed"], "tree_compatible": v[0], "printed_compatible": v[1],
             "named_decl_compatible": v[2], "compiler": compiler}
        if v[0] != 1:
            sink.violation("parse_type:tree-not-equivalent-to-string", d)
        if v[1] != 1:
            sink.violation("parse_type:print-back-not-equivalent", d)
        if v[2] != 1:
            sink.violation("parse_type:named-declaration-not-equivalent", d)
        sink.case(ident, sample=d if iid % 499 == 7 else None)
        sink.count("roundtrip_" + src.replace("-", "_"))


# ---- hypothesis-generated declarators -------------------------------------------------------------------------------
_INT_WORDS = [["int"], ["unsigned", "int"], ["unsigned"], ["char"], ["unsigned", "char"], ["signed", "char"],
              ["short"], ["short", "int"], ["unsigned", "short"], ["long"], ["long", "int"], ["long", "long"],
              ["unsigned", "long", "long", "int"], ["long", "unsigned"], ["signed"], ["signed", "long", "long"]]
_NAMES = ["double", "float", "size_t", "uint64_t", "uintptr_t", "mjtNum", "mjtByte", "mjtSize", "mjModel", "mjData",
          "mjvScene", "mjContact", "mjtObj", "mjsElement", "struct mjModel_", "struct mjuiItemSingle_",
          "_Bool", "long double"]


def gen_declarators(n, seed):
    """n distinct C abstract declarators, printed by a generator that shares no code with ast_nodes/type_parsing."""
    from hypothesis import HealthCheck, given, seed as hseed, settings
    from hypothesis import strategies as st

    @st.composite
    def spec(draw, allow_void):
        choices = ["int", "name"] + (["void"] if allow_void else [])
        k = draw(st.sampled_from(choices))
        if k == "int":
            words = list(draw(st.permutations(draw(st.sampled_from(_INT_WORDS)))))
        elif k == "void":
            words = ["void"]
        else:
            words = [draw(st.sampled_from(_NAMES))]
        quals = draw(st.lists(st.sampled_from(["const", "volatile"]), unique=True, max_size=2))
        for q in quals:
            words.insert(draw(st.integers(0, len(words))), q)
        return (" " * draw(st.integers(1, 2))).join(words)

    @st.composite
    def declarator(draw):
        depth = draw(st.integers(0, 5))
        # build from the outside in: list of derivations applied to the base type, innermost (closest to base) first
        derivs = []
        last = None
        for _ in range(depth):
            k = draw(st.sampled_from(["p", "p", "a"] if last != "a" else ["p"]))
            if k == "p":
                derivs.append(("p", tuple(draw(st.lists(st.sampled_from(["const", "volatile", "restrict"]),
                                                        unique=True, max_size=3)))))
            else:
                derivs.append(("a", tuple(draw(st.lists(st.integers(1, 40), min_size=1, max_size=3)))))
            last = k
        base_is_pointee = bool(derivs) and derivs[0][0] == "p"
        s = draw(spec(allow_void=base_is_pointee))
        # standard declarator construction, from the outermost derivation inwards
        d = ""
        for i in range(len(derivs) - 1, -1, -1):
            k, arg = derivs[i]
            if k == "p":
                sp = " " * draw(st.integers(0, 1))
                d = "*" + sp + " ".join(arg) + (" " if arg and d and (d[0].isalnum() or d[0] == "_") else "") + d
                if i > 0 and derivs[i - 1][0] == "a":
                    d = "(" + d + ")"
                elif draw(st.integers(0, 9)) == 0:
                    d = "(" + d + ")"           # redundant parentheses
            else:
                d = d + "".join("[%d]" % e for e in arg)
        sep = " " * draw(st.integers(0 if d[:1] in ("*", "(", "[") else 1, 2))
        return s + (sep + d if d else "")

    out = {}

    @hseed(seed)
    @settings(max_examples=n, database=None, deadline=None, derandomize=False,
              suppress_health_check=list(HealthCheck))
    @given(declarator())
    def collect(s):
        out.setdefault(s, None)

    collect()
    return list(out)


# ------------------------------------------------------------------------------------------------------------------
# driver
# ------------------------------------------------------------------------------------------------------------------
def _workdir():
    d = core.OUT / ("c49-%d" % os.getpid())
    d.mkdir(parents=True, exist_ok=True)
    return d


def _other_headers(repo, hdr_files):
    inc = Path(repo) / "include" / "mujoco"
    return sorted(str(p.relative_to(inc)) for p in inc.rglob("*.h") if str(p.resolve()) not in hdr_files)


def _full(ctx, only_strings=None):
    repo = build.REPO
    work = _workdir()
    try:
        meta = load_meta(repo)
        excluded = load_excluded(repo)
        root = ast_dump(repo, work)
        hdr = HeaderIndex(root, Path(repo) / "include" / "mujoco")
        del root
        compilers = [("clang", CLANG)]
        if not ctx.quick and shutil.which("gcc"):
            compilers.append(("gcc", shutil.which("gcc")))
        if only_strings is None:
            S, E, F = meta["structs"].STRUCTS, meta["enums"].ENUMS, meta["functions"].FUNCTIONS
            ctx.count("metadata_structs", len(S))
            ctx.count("metadata_enums", len(E))
            ctx.count("metadata_enumerators", sum(len(e.values) for e in E.values()))
            ctx.count("metadata_functions", len(F))
            ctx.count("metadata_parameters", sum(len(f.parameters) for f in F.values()))
            ctx.count("header_functions", len(hdr.functions))
            ctx.count("header_records", len(hdr.records))
            ctx.count("header_enums", len(hdr.enums))
            ctx.count("header_typedefs", len(hdr.typedefs))
            # forward
            probe, pre = build_forward(meta, hdr)
            for sig, det in pre:
                ctx.case(det["item"])
                ctx.violation(sig, det)
            for cname, cc in compilers:
                rows, failed, unprobed = compile_and_run(probe, work, repo, "fwd_" + cname, compiler=cc)
                judge_forward(ctx, probe, rows, failed, unprobed, cname)
            # reverse
            judge_reverse(ctx, meta, hdr, excluded)
            seen_files = set(str(Path(f).resolve()) for f in hdr.files_seen)
            ctx.extra["headers_not_reachable_from_mujoco_h"] = sorted(set(
                (h.split("/")[0] + "/*") if "/" in h else h for h in _other_headers(repo, seen_files)))
            strings = collect_type_strings(meta, hdr, excluded)
            nhyp = ctx.pick(1500, 20000)
            hyp = gen_declarators(nhyp, ctx.seed)
            ctx.count("hypothesis_declarators", len(hyp))
            for s in hyp:
                strings.setdefault(s, ("hypothesis", None))
        else:
            strings = {s: ("replay", None) for s in only_strings}
        rprobe = build_roundtrip(meta, strings, ctx)
        for cname, cc in compilers:
            rows, failed, _ = compile_and_run(rprobe, work, repo, "rt_" + cname, compiler=cc)
            judge_roundtrip(ctx, rprobe, rows, failed, cname)
        ctx.extra["compilers"] = [c for c, _ in compilers]
        ctx.extra["excluded_by_generate_py"] = sorted(excluded)
    finally:
        shutil.rmtree(work, ignore_errors=True)


def run(ctx):
    ctx.explanation = EXPLANATION
    ctx.exhaustive = True
    ctx.max_samples = 8
    _full(ctx)
    ctx.min_nontrivial = 3000


def replay(ctx, path):
    rec = json.load(open(path))
    det = rec["detail"]
    ctx.explanation = EXPLANATION
    if "type_string" in det:
        _full(ctx, only_strings=[det["type_string"]])
        ctx.case("replay:type:" + det["type_string"], sample={"type_string": det["type_string"]})
        ctx.min_nontrivial = 1
        return

    class Filter:
        """Re-run everything, keep only the recorded item."""

        def __init__(self, ctx):
            self.ctx = ctx

        def case(self, key=None, nontrivial=True, sample=None, n=1):
            if key == det.get("item"):
                self.ctx.case(key, sample=sample)

        def count(self, *a, **k):
            pass

        def violation(self, sig, d):
            if d.get("item") == det.get("item"):
                print("replayed:", sig, json.dumps(core._jsonable(d))[:600])
                self.ctx.violation(sig, d)

        def __getattr__(self, k):
            return getattr(self.ctx, k)

    f = Filter(ctx)
    _full(f)
    ctx.case("replay:" + str(det.get("item")), sample={"item": det.get("item")})
    ctx.min_nontrivial = 1
