"""C48 System-identification signal transforms are pure (python/mujoco/sysid/_src/signal_modifier.py, timeseries.py)."""
import copy
import json

import numpy as np

from .. import core, par

LEVEL = "exploration"
RULE = ("hypothesis-generated TimeSeries (1..200 samples x 1..6 columns, non-uniform strictly increasing times, data "
        "patterns {random, constant column, huge/tiny magnitudes, steps}), signal mappings splitting the columns into 1..4 "
        "sensors, then every public modifier is called on the SAME input object: apply_bias / apply_gain (scalar and "
        "per-column vector values incl. 0), apply_delay (0, +-, beyond the time range), apply_time_window, "
        "apply_resample_and_delay (target times {the series' own array, shifted, random, beyond range}, default delay and "
        "per-sensor delays drawn from a small pool so that groups of equal delay span non-adjacent columns, "
        "predicted_data both ways), TimeSeries.interpolate / resample (linear and zero-order hold; the original timestamps, "
        "knots, points outside the range). icontract snapshot (deep copies + object identities) / ensure on each of "
        "them. distinct = (function, samples class, columns, mapping shape, value/delay class); non-trivial = the call "
        "returned and the input had >= 2 samples")
ASSUMPTIONS = [
    "purity = (a) the function returns a TimeSeries object different from its input and (b) every array reachable from "
    "the arguments (times, data, mapping index arrays, target times, delay dict, Parameter.value) is bitwise unchanged "
    "after the call. Memory shared between output and input (all modifiers share `times`; apply_time_window returns "
    "slices) is COUNTED, not flagged: the statement forbids modifying the input, not sharing it",
    "column-by-column reference for grouped resampling = TimeSeries.resample on single-column series with the delay the "
    "harness derives from the mapping itself, compared bit for bit, plus numpy.interp with end clamping within 8 ulps",
    "resample(original times) and the neighbour-range clause tolerate 8 ulps of the larger neighbouring sample: "
    "slope*(t - t_lo) + y_lo is not exact in floating point; outside the time range the end sample must be returned exactly",
    "only 'linear' and zero-order-hold interpolation are in scope of the range clause (statement: linear interpolation)",
    "a ValueError raised by the documented input validation (empty window, non-increasing target times) is counted as a "
    "skipped call, not a violation",
]

EPS = float(np.finfo(float).eps)


class ContractViolation(AssertionError):
    signature = "contract"


class InputMutated(ContractViolation):
    signature = "input-mutated"


class ReturnedSameObject(ContractViolation):
    signature = "returned-input-object"


class TransformDiffers(ContractViolation):
    signature = "signal-transform-differs-from-composed-modifiers"


class GroupedResampleDiffers(ContractViolation):
    signature = "grouped-resample-differs-from-columnwise"


class ResampleAtOriginalTimesDiffers(ContractViolation):
    signature = "resample-at-original-times-differs"


class InterpolationOutsideNeighbours(ContractViolation):
    signature = "interpolation-outside-neighbour-range"


class Monitor:
    def __init__(self):
        self.evals = {}
        self.why = None
        self.notes = {}
        self.alias = {}

    def hit(self, n):
        self.evals[n] = self.evals.get(n, 0) + 1

    def fail(self, why, **kw):
        self.why = why
        self.notes.update(kw)
        return False


MON = Monitor()


# ---- snapshots ------------------------------------------------------------------------------------------------------
def _arr_snap(a):
    if a is None:
        return None
    a = np.asarray(a)
    return {"id": id(a), "bytes": a.tobytes(), "shape": a.shape, "dtype": str(a.dtype), "copy": a.copy()}


def _arr_same(s, a):
    if s is None:
        return a is None
    a = np.asarray(a)
    return a.shape == s["shape"] and str(a.dtype) == s["dtype"] and a.tobytes() == s["bytes"]


def snapshot_series(ts):
    m = ts.signal_mapping
    return {"obj": id(ts), "times": _arr_snap(ts.times), "data": _arr_snap(ts.data), "times_obj": ts.times, "data_obj": ts.data,
            "mapping_obj": m, "mapping": None if m is None else {k: (v[0], _arr_snap(v[1])) for k, v in m.items()}}


def _series_diff(ts, snap):
    if ts.times is not snap["times_obj"] or ts.data is not snap["data_obj"] or ts.signal_mapping is not snap["mapping_obj"]:
        return "fields-rebound"
    if not _arr_same(snap["times"], ts.times):
        return "times"
    if not _arr_same(snap["data"], ts.data):
        return "data"
    if snap["mapping"] is not None:
        if list(ts.signal_mapping.keys()) != list(snap["mapping"].keys()):
            return "mapping-keys"
        for k, (t, idx) in snap["mapping"].items():
            if ts.signal_mapping[k][0] is not t or not _arr_same(idx, ts.signal_mapping[k][1]):
                return "mapping-indices"
    return None


def snapshot_value(p):
    return _arr_snap(p.value) if hasattr(p, "value") else copy.deepcopy(p)


def _count_alias(fn, ts, result):
    try:
        if result.times is ts.times or (np.shares_memory(result.times, ts.times) and result.times.flags.writeable):
            MON.alias[fn + ":times"] = MON.alias.get(fn + ":times", 0) + 1
        if np.shares_memory(result.data, ts.data) and result.data.flags.writeable:
            MON.alias[fn + ":data"] = MON.alias.get(fn + ":data", 0) + 1
    except Exception:
        pass


# ---- named conditions (one set per monitored function, built by small factories so that the function name ends up in
# the mechanism-level signature) -------------------------------------------------------------------------------------
def make_series_unchanged(fn):
    def input_series_unchanged(ts, OLD):
        MON.hit("input_series_unchanged:" + fn)
        d = _series_diff(ts, OLD.ts)
        if d is not None:
            return MON.fail("%s:%s" % (fn, d))
        return True
    return input_series_unchanged


def make_returns_new(fn):
    def returns_new_series(ts, result):
        MON.hit("returns_new_series:" + fn)
        if result is ts:
            return MON.fail(fn)
        if type(result).__name__ != "TimeSeries":
            return MON.fail(fn + ":not-a-TimeSeries")
        _count_alias(fn, ts, result)
        return True
    return returns_new_series


def bias_parameter_unchanged(bias, OLD):
    MON.hit("parameter_unchanged:apply_bias")
    return _arr_same(OLD.param, bias.value) or MON.fail("apply_bias:parameter-value")


def gain_parameter_unchanged(gain, OLD):
    MON.hit("parameter_unchanged:apply_gain")
    return _arr_same(OLD.param, gain.value) or MON.fail("apply_gain:parameter-value")


def delay_parameter_unchanged(delay, OLD):
    MON.hit("parameter_unchanged:apply_delay")
    return _arr_same(OLD.param, delay.value) or MON.fail("apply_delay:parameter-value")


def resample_arguments_unchanged(times, sensor_delays, OLD):
    MON.hit("arguments_unchanged:apply_resample_and_delay")
    if not _arr_same(OLD.times_arg, times):
        return MON.fail("apply_resample_and_delay:target-times")
    if sensor_delays != OLD.delays_arg:
        return MON.fail("apply_resample_and_delay:sensor-delays")
    return True


def _column_delays(ts, default_delay, sensor_delays, predicted_data):
    """Per-column delay as the docstring defines it: default for every column, overridden per sensor, negated for
    predicted data.  Derived from the mapping by the harness, not by the module."""
    d = [default_delay] * ts.data.shape[1]
    for name, val in (sensor_delays or {}).items():
        for i in np.asarray(ts.signal_mapping[name][1]).ravel():
            d[int(i)] = val
    return [-v for v in d] if predicted_data else d


def _interp_ref(times, col, q):
    return np.interp(q, times, col)          # clamps to the end samples outside the range


def grouped_equals_columnwise(ts, times, default_delay, sensor_delays, predicted_data, result):
    MON.hit("grouped_equals_columnwise")
    TS = type(ts)
    delays = _column_delays(ts, default_delay, sensor_delays, predicted_data)
    MON.notes["n_groups"] = len(set(delays))
    if result.data.shape != (len(times), ts.data.shape[1]):
        return MON.fail("shape", got=list(result.data.shape))
    if not np.array_equal(result.times, times):
        return MON.fail("times")
    for i, d in enumerate(delays):
        if len(ts.times) >= 2:
            one = TS(ts.times.copy(), ts.data[:, i:i + 1].copy(), None).resample(np.asarray(times, float) + d)
            if not np.array_equal(one.data[:, 0], result.data[:, i], equal_nan=True):
                k = int(np.argmax(one.data[:, 0] != result.data[:, i]))
                return MON.fail("column", column=i, delay=d, row=k, got=float(result.data[k, i]), want=float(one.data[k, 0]))
        want = _interp_ref(ts.times, ts.data[:, i], np.asarray(times, float) + d)
        tol = 8 * EPS * np.max(np.abs(ts.data[:, i])) if ts.data.size else 0.0
        if np.any(np.abs(want - result.data[:, i]) > tol):
            k = int(np.argmax(np.abs(want - result.data[:, i])))
            return MON.fail("column-vs-numpy-interp", column=i, delay=d, row=k, got=float(result.data[k, i]), want=float(want[k]))
    return True


def _neighbour_check(times, data, q, out):
    """out[j] must lie between the samples bracketing q[j] (8 ulps); exactly the end sample outside the range."""
    n = len(times)
    q = np.atleast_1d(np.asarray(q, float))
    out = np.asarray(out, float)
    d2 = data.reshape(n, -1)
    o2 = out.reshape(len(q), -1)
    k = np.clip(np.searchsorted(times, q, side="right") - 1, 0, n - 1)       # times[k] <= q
    k1 = np.clip(k + 1, 0, n - 1)
    k0 = np.where((q == times[k]) & (k > 0), k - 1, k)                       # q on a knot: either side is fine
    lo = np.minimum(np.minimum(d2[k0], d2[k]), d2[k1])
    hi = np.maximum(np.maximum(d2[k0], d2[k]), d2[k1])
    tol = 8 * EPS * np.maximum(np.abs(lo), np.abs(hi))
    below = q <= times[0]
    above = q >= times[-1]
    tol = np.where((below | above)[:, None], 0.0, tol)
    lo = np.where(below[:, None], d2[0][None, :], np.where(above[:, None], d2[-1][None, :], lo))
    hi = np.where(below[:, None], d2[0][None, :], np.where(above[:, None], d2[-1][None, :], hi))
    bad = ~((o2 >= lo - tol) & (o2 <= hi + tol))
    if np.any(bad):
        j, c = np.argwhere(bad)[0]
        where = "outside-time-range" if (below[j] or above[j]) else "inside"
        return where, {"query": float(q[j]), "column": int(c), "got": float(o2[j, c]), "lo": float(lo[j, c]), "hi": float(hi[j, c])}
    return None, None


def interpolation_within_neighbours(self, t, method, result):
    MON.hit("interpolation_within_neighbours")
    if method not in ("linear", "zero_order_hold", "zoh"):
        return True
    where, det = _neighbour_check(self.times, self.data, t, result)
    if where is not None:
        if len(self.times) == 1:
            where = "single-sample-series"
        return MON.fail("interpolate:%s:%s" % ("zoh" if method != "linear" else "linear", where), **det)
    return True


def interpolate_inputs_unchanged(self, t, OLD):
    MON.hit("input_series_unchanged:interpolate")
    d = _series_diff(self, OLD.ts)
    if d is not None:
        return MON.fail("interpolate:" + d)
    if isinstance(t, np.ndarray) and not _arr_same(OLD.t_arg, t):
        return MON.fail("interpolate:query-times")
    return True


def resample_inputs_unchanged(self, new_times, OLD):
    MON.hit("input_series_unchanged:resample")
    d = _series_diff(self, OLD.ts)
    if d is not None:
        return MON.fail("resample:" + d)
    if new_times is not None and not _arr_same(OLD.t_arg, new_times):
        return MON.fail("resample:new-times")
    return True


def resample_returns_new_series(self, result):
    MON.hit("returns_new_series:resample")
    if result is self:
        return MON.fail("resample")
    _count_alias("resample", self, result)
    return True


def resample_at_original_times_is_identity(self, new_times, method, result):
    MON.hit("resample_at_original_times_is_identity")
    if new_times is None or method not in ("linear", "zero_order_hold", "zoh"):
        return True
    if not (new_times.shape == self.times.shape and np.array_equal(new_times, self.times)):
        return True
    MON.notes["identity_checked"] = True
    n = len(self.times)
    d2 = self.data.reshape(n, -1)
    o2 = np.asarray(result.data, float).reshape(n, -1)
    if method != "linear":
        ok = np.array_equal(o2, d2)
        return ok or MON.fail("zoh")
    nb = np.maximum(np.abs(d2), np.maximum(np.abs(np.roll(d2, 1, axis=0)), np.abs(np.roll(d2, -1, axis=0))))
    err = np.abs(o2 - d2)
    if not np.all(err <= 8 * EPS * nb):
        j, c = np.argwhere(~(err <= 8 * EPS * nb))[0]
        return MON.fail("linear" if n > 1 else "linear:single-sample-series", row=int(j), column=int(c), got=float(o2[j, c]), want=float(d2[j, c]))
    return True


def resample_within_neighbours(self, new_times, method, result):
    MON.hit("resample_within_neighbours")
    if method not in ("linear", "zero_order_hold", "zoh"):
        return True
    where, det = _neighbour_check(self.times, self.data, result.times, result.data)
    if where is not None:
        if len(self.times) == 1:
            where = "single-sample-series"
        return MON.fail("resample:%s:%s" % ("zoh" if method != "linear" else "linear", where), **det)
    return True


_INSTR = {}


def _instrument():
    if _INSTR:
        return _INSTR
    import icontract
    from .. import pyrepo
    tsm = pyrepo.load("mujoco.sysid._src.timeseries")
    prm = pyrepo.load("mujoco.sysid._src.parameter")
    sm = pyrepo.load("mujoco.sysid._src.signal_modifier")
    stm = pyrepo.load("mujoco.sysid._src.signal_transform")      # loads against the same modules; asserts it is the repo's

    def wrap(fn, extra=(), snaps=()):
        f = getattr(sm, fn)
        f = icontract.ensure(make_returns_new(fn), error=ReturnedSameObject)(f)
        for cond, err in extra:
            f = icontract.ensure(cond, error=err)(f)
        f = icontract.ensure(make_series_unchanged(fn), error=InputMutated)(f)
        for cap, name in snaps:
            f = icontract.snapshot(cap, name=name)(f)
        f = icontract.snapshot(lambda ts: snapshot_series(ts), name="ts")(f)
        setattr(sm, fn, f)

    wrap("apply_bias", [(bias_parameter_unchanged, InputMutated)], [(lambda bias: snapshot_value(bias), "param")])
    wrap("apply_gain", [(gain_parameter_unchanged, InputMutated)], [(lambda gain: snapshot_value(gain), "param")])
    wrap("apply_delay", [(delay_parameter_unchanged, InputMutated)], [(lambda delay: snapshot_value(delay), "param")])
    wrap("apply_time_window")
    wrap("apply_resample_and_delay",
         [(grouped_equals_columnwise, GroupedResampleDiffers), (resample_arguments_unchanged, InputMutated)],
         [(lambda times: _arr_snap(times), "times_arg"), (lambda sensor_delays: copy.deepcopy(sensor_delays), "delays_arg")])

    TS = tsm.TimeSeries
    f = TS.interpolate
    f = icontract.ensure(interpolation_within_neighbours, error=InterpolationOutsideNeighbours)(f)
    f = icontract.ensure(interpolate_inputs_unchanged, error=InputMutated)(f)
    f = icontract.snapshot(lambda t: _arr_snap(t) if isinstance(t, np.ndarray) else None, name="t_arg")(f)
    f = icontract.snapshot(lambda self: snapshot_series(self), name="ts")(f)
    TS.interpolate = f
    g = TS.resample
    g = icontract.ensure(resample_within_neighbours, error=InterpolationOutsideNeighbours)(g)
    g = icontract.ensure(resample_at_original_times_is_identity, error=ResampleAtOriginalTimesDiffers)(g)
    g = icontract.ensure(resample_returns_new_series, error=ReturnedSameObject)(g)
    g = icontract.ensure(resample_inputs_unchanged, error=InputMutated)(g)
    g = icontract.snapshot(lambda new_times: _arr_snap(new_times), name="t_arg")(g)
    g = icontract.snapshot(lambda self: snapshot_series(self), name="ts")(g)
    TS.resample = g
    _INSTR.update(tsm=tsm, prm=prm, sm=sm, TS=TS, st=stm)
    return _INSTR


# ---- cases -----------------------------------------------------------------------------------------------------------
def series_cases():
    from hypothesis import strategies as st
    fl = st.floats(min_value=-3.0, max_value=3.0, allow_nan=False)

    @st.composite
    def case(draw):
        n = draw(st.one_of(st.integers(1, 12), st.integers(1, 12), st.integers(13, 200)))
        ncol = draw(st.integers(1, 6))
        nsens = draw(st.integers(1, min(4, ncol)))
        cuts = sorted(draw(st.lists(st.integers(1, ncol - 1), min_size=nsens - 1, max_size=nsens - 1, unique=True))) if ncol > 1 else []
        pool = [draw(fl), draw(fl), 0.0]
        return {
            "n": n, "ncol": ncol, "cuts": cuts, "dseed": draw(st.integers(0, 2 ** 32 - 1)),
            "pattern": draw(st.sampled_from(["random", "random", "constant_col", "huge", "tiny", "steps"])),
            "dt": draw(st.sampled_from(["uniform", "nonuniform", "nonuniform", "ragged"])),
            "shuffle_mapping": draw(st.booleans()),
            "sensor": draw(st.integers(0, 3)),
            "bias": [draw(fl) for _ in range(3)], "bias_vector": draw(st.booleans()),
            "gain": [draw(st.one_of(fl, st.sampled_from([0.0, 1.0, -1.0]))) for _ in range(3)], "gain_vector": draw(st.booleans()),
            "delay": draw(st.one_of(fl, st.sampled_from([0.0, 1e3, -1e3, 1e-9]))),
            "window": [draw(fl), draw(fl)],
            "default_delay": draw(st.sampled_from(pool + [draw(fl)])),
            "sensor_delays": [draw(st.sampled_from([None, 0, 1, 2, 0, 1])) for _ in range(4)], "pool": pool,
            "delays_none": draw(st.sampled_from([False, False, False, True])),
            "predicted": draw(st.booleans()),
            "target": draw(st.sampled_from(["own", "own_copy", "shifted", "random", "beyond", "single"])),
            "method": draw(st.sampled_from(["linear", "linear", "zoh"])),
        }

    return case()


def build_series(c, ins):
    rng = np.random.default_rng([int(c["dseed"]), 48])
    n, ncol = c["n"], c["ncol"]
    if c["dt"] == "uniform":
        dts = np.full(n, 0.01)
    elif c["dt"] == "nonuniform":
        dts = rng.uniform(0.001, 0.05, n)
    else:
        dts = 10.0 ** rng.uniform(-6, 0, n)
    times = rng.uniform(-1, 1) + np.cumsum(dts)
    data = rng.standard_normal((n, ncol))
    if c["pattern"] == "constant_col":
        data[:, rng.integers(0, ncol)] = rng.standard_normal()
    elif c["pattern"] == "huge":
        data *= 10.0 ** rng.uniform(6, 12, ncol)
    elif c["pattern"] == "tiny":
        data *= 10.0 ** rng.uniform(-12, -6, ncol)
    elif c["pattern"] == "steps":
        data = np.round(data)
    bounds = [0] + list(c["cuts"]) + [ncol]
    names = ["s%d" % i for i in range(len(bounds) - 1)]
    cols = np.arange(ncol)
    if c["shuffle_mapping"]:
        cols = rng.permutation(ncol)           # sensors own non-adjacent columns
    ST = ins["tsm"].SignalType
    mapping = {nm: (ST.MjSensor, np.array(sorted(cols[bounds[i]:bounds[i + 1]]))) for i, nm in enumerate(names)}
    ts = ins["TS"](times, data, mapping)
    return ts, names


def _viol(P, sig, det):
    P.count("violations:" + sig)
    if P.counters["violations:" + sig] <= 2:
        P.violation(sig, det)


def _guard(P, c, op, fn, nontrivial=True, cls=""):
    MON.why = None
    MON.notes = {}
    try:
        out = fn()
    except ContractViolation as e:
        _viol(P, "%s:%s" % (e.signature, MON.why), {"case": c, "op": op, "notes": MON.notes})
        P.case(None, nontrivial=False)
        return None
    except ValueError as e:
        # documented input validation (strictly increasing target times, >= 2 samples for scipy's interp1d)
        P.count("skipped_rejected_input:" + op)
        P.case(None, nontrivial=False)
        MON.notes["rejected"] = str(e)[:120]
        return None
    P.case("%s|n%s|c%d|m%d|%s" % (op, "1" if c["n"] == 1 else "2-12" if c["n"] <= 12 else "13+", c["ncol"], len(c["cuts"]) + 1, cls),
           nontrivial=nontrivial and c["n"] >= 2, sample={"op": op, "case": c})
    P.count("calls:" + op)
    if MON.notes.get("identity_checked"):
        P.count("resample_at_original_times_checked")
    if "n_groups" in MON.notes:
        P.count("grouped_resample_groups", MON.notes["n_groups"])
    return out


def _cls(v):
    v = float(np.ravel(v)[0])
    return "0" if v == 0 else ("+" if v > 0 else "-") + ("big" if abs(v) > 100 else "")


def check_case(c, P):
    ins = _instrument()
    sm, Parameter = ins["sm"], ins["prm"].Parameter
    ts, names = build_series(c, ins)
    whole = snapshot_series(ts)
    name = names[c["sensor"] % len(names)]
    width = len(ts.signal_mapping[name][1])
    span = float(ts.times[-1] - ts.times[0]) if c["n"] > 1 else 1.0

    def param(vals, vector):
        v = np.array(vals[:width] + [vals[0]] * max(0, width - 3)) if vector else np.array([vals[0]])
        return Parameter("p", v, v - 10, v + 10)

    _guard(P, c, "apply_bias", lambda: sm.apply_bias(ts, name, param(c["bias"], c["bias_vector"])), cls=_cls(c["bias"][0]))
    _guard(P, c, "apply_gain", lambda: sm.apply_gain(ts, name, param(c["gain"], c["gain_vector"])), cls=_cls(c["gain"][0]))
    dl = c["delay"] if abs(c["delay"]) > 100 or abs(c["delay"]) < 1e-6 else c["delay"] * span / 3.0
    _guard(P, c, "apply_delay", lambda: sm.apply_delay(ts, name, Parameter("d", dl, dl - 1, dl + 1)), cls=_cls(dl))
    w0 = ts.times[0] + (c["window"][0] + 1.5) / 3.0 * span
    w1 = ts.times[0] + (c["window"][1] + 1.5) / 3.0 * span
    _guard(P, c, "apply_time_window", lambda: sm.apply_time_window(ts, min(w0, w1), max(w0, w1)), cls="in" if min(w0, w1) > ts.times[0] else "out")
    rng = np.random.default_rng([int(c["dseed"]), 4800])
    if c["target"] == "own":
        target = ts.times
    elif c["target"] == "own_copy":
        target = ts.times.copy()
    elif c["target"] == "shifted":
        target = ts.times + 0.37 * span / max(1, c["n"])
    elif c["target"] == "random":
        target = np.sort(rng.uniform(ts.times[0], ts.times[-1] + 1e-9, rng.integers(1, 40)))
        target = target[np.concatenate([[True], np.diff(target) > 0])]
    elif c["target"] == "beyond":
        target = np.sort(rng.uniform(ts.times[0] - span, ts.times[-1] + span, rng.integers(1, 40)))
        target = target[np.concatenate([[True], np.diff(target) > 0])]
    else:
        target = np.array([ts.times[0] + 0.5 * span])
    pool = [v * span / 3.0 for v in c["pool"]]
    sd = None if c["delays_none"] else {nm: pool[k] for nm, k in zip(names, c["sensor_delays"]) if k is not None}
    dd = c["default_delay"] * span / 3.0
    _guard(P, c, "apply_resample_and_delay",
           lambda: sm.apply_resample_and_delay(ts, target, dd, sensor_delays=sd, predicted_data=c["predicted"]),
           cls="%s|%s|g%d" % (c["target"], "none" if sd is None else "d%d" % len(sd), len(set((sd or {}).values()) | {dd})))
    _guard(P, c, "resample", lambda: ts.resample(new_times=target, method=c["method"]), cls=c["target"] + "|" + c["method"])
    _guard(P, c, "resample_dt", lambda: ts.resample(target_dt=max(span / 7.3, 1e-6), method=c["method"]), cls=c["method"])
    q = np.concatenate([target, ts.times[:: max(1, c["n"] // 5)], [ts.times[0] - 1.0, ts.times[-1] + 1.0]])
    _guard(P, c, "interpolate", lambda: ts.interpolate(q, method=c["method"]), cls=c["method"])
    _guard(P, c, "interpolate_scalar", lambda: ts.interpolate(float(ts.times[0] + 0.3 * span), method=c["method"]), cls=c["method"])
    # the declarative SignalTransform applies registered gains/biases in one pass: same purity and same values as composing the
    # (contract-checked) apply_gain / apply_bias calls of the module's own reference path
    ST = ins["st"].SignalTransform
    PD = ins["prm"].ParameterDict
    r2 = np.random.default_rng([int(c["dseed"]), 4801])
    tr = ST()
    pd = PD()
    kinds = []
    for kind in ("gain", "bias"):
        for j in range(int(r2.integers(0, 3))):
            pat = str(r2.choice([names[int(r2.integers(len(names)))], "*", names[0][:1] + "*", "nomatch*"]))
            pv = float(r2.choice([c["gain"][0], c["bias"][0], 0.5, -2.0, 1.0]))
            pn = "%s%d" % (kind, j)
            pd.add(Parameter(pn, pv, pv - 10, pv + 10))
            getattr(tr, kind)(pat, pd[pn], target=str(r2.choice(["both", "measured", "predicted"])))
            kinds.append(kind)
    shape_cls = "gains%d-biases%d" % (kinds.count("gain"), kinds.count("bias"))
    for label in ("measured", "predicted"):
        view = ts if r2.random() < 0.5 or c["n"] < 4 else None
        src = ts
        if view is None:
            # a window of the caller's series: its data is a VIEW of the caller's array (as in SignalTransform.apply)
            k0 = int(r2.integers(0, max(1, c["n"] // 2)))
            src = ins["TS"](ts.times[k0:], ts.data[k0:], ts.signal_mapping)
        snap_src = snapshot_series(src)

        def run_tr(src=src, label=label, snap_src=snap_src):
            out = tr._apply_gains_biases(src, label, pd)
            MON.why = "SignalTransform._apply_gains_biases"
            dd = _series_diff(src, snap_src)
            if dd is not None:
                raise InputMutated("SignalTransform._apply_gains_biases modified its input series: " + dd)
            if out is src or (isinstance(out.data, np.ndarray) and np.shares_memory(out.data, src.data)):
                raise ReturnedSameObject("SignalTransform._apply_gains_biases returned (a view of) its input")
            ref = tr._apply_gains_biases_reference(src, label, pd)
            if not np.array_equal(out.data, ref.data, equal_nan=True) and not np.allclose(out.data, ref.data, rtol=1e-12, atol=0, equal_nan=True):
                raise TransformDiffers("SignalTransform one-pass gains/biases differ from composing apply_gain/apply_bias")
            return out
        _guard(P, c, "signal_transform_gains_biases", run_tr, cls=shape_cls + "|" + label + ("|view" if view is None else "|own"))
    # after the whole session the caller's series must still be what it built
    d = _series_diff(ts, whole)
    if d is not None:
        P.count("series_changed_after_session:" + d)


def worker(case):
    import hypothesis
    from hypothesis import HealthCheck, Phase, given, settings
    P = core.Part()
    MON.evals = {}
    MON.alias = {}
    seen = set()

    @hypothesis.seed(case["hseed"])
    @settings(max_examples=case["n"], database=None, deadline=None, derandomize=False,
              phases=[Phase.generate], suppress_health_check=list(HealthCheck))
    @given(series_cases())
    def drive(c):
        h = json.dumps(c, sort_keys=True)
        if h in seen:
            P.count("duplicate_examples")
            return
        seen.add(h)
        with np.errstate(all="ignore"):
            check_case(c, P)

    drive()
    for k, v in MON.evals.items():
        P.count("contract_evals:" + k, v)
    for k, v in MON.alias.items():
        P.count("output_shares_writeable_memory_with_input:" + k, v)
    return P.result()


def run(ctx):
    total = ctx.pick(3000, 80000)
    per = ctx.pick(190, 1000)
    cases = [{"hseed": core.stable_hash("C48", ctx.seed, i) % (2 ** 63), "n": per} for i in range((total + per - 1) // per)]
    results = par.run("vf.props.c48", "worker", cases, nproc=16, timeout=ctx.pick(600, 3000), chunk=1)
    viols = []
    for r in results:
        if r is None or "crash" in r or "exception" in r:
            ctx.inconclusive("worker failed: %s" % json.dumps(r)[:600])
            continue
        viols += r.pop("violations", [])
        ctx.merge(r)
    first, rest, seen = [], [], set()     # one witness of every signature before the repeats (20 replay files max)
    for v in viols:
        (rest if v["signature"] in seen else first).append(v)
        seen.add(v["signature"])
    for v in first + rest:
        ctx.violation(v["signature"], v["detail"])
    need = ["input_series_unchanged:apply_bias", "input_series_unchanged:apply_gain", "input_series_unchanged:apply_time_window",
            "input_series_unchanged:apply_resample_and_delay", "input_series_unchanged:resample", "input_series_unchanged:interpolate",
            "returns_new_series:apply_bias", "grouped_equals_columnwise", "resample_at_original_times_is_identity",
            "interpolation_within_neighbours", "resample_within_neighbours"]
    for k in need:
        if ctx.counters.get("contract_evals:" + k, 0) == 0:
            ctx.inconclusive("contract %s never evaluated" % k)
    if ctx.counters.get("resample_at_original_times_checked", 0) < ctx.pick(200, 2000):
        ctx.inconclusive("too few resample-at-original-times observations")
    ctx.min_nontrivial = ctx.pick(1000, 2000)


def replay(ctx, path):
    rec = json.load(open(path))
    c = rec["detail"]["case"]
    MON.evals = {}
    MON.alias = {}
    with np.errstate(all="ignore"):
        check_case(c, ctx)
    print("replayed case:", json.dumps(c))
    print("contract evaluations:", MON.evals)
    print("aliasing observed:", MON.alias)
    ctx.min_nontrivial = 0
