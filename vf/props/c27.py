"""C27 Actuation follows the documented transmission and force laws."""
import json
import xml.etree.ElementTree as ET

import numpy as np

from .. import build, core, drv, par
from ..gen import model
from ..mjconst import E
from ..ref import actuator as ra
from ..ref import rbd
from .c06 import make_tree, random_qpos

LEVEL = "exploration"
RULE = ("reference-model oracle: generated kinematic trees carrying every transmission (joint, jointinparent on ball/free, tendon, "
        "site with/without refsite, slider-crank, body/adhesion) x every actuator family (general fixed/affine gain, none/affine "
        "bias, none/integrator/filter/filterexact dynamics, shortcuts motor/position/velocity/intvelocity/damper/cylinder/muscle/"
        "adhesion, pid, orientation, dcmotor) x random states with controls far outside ctrlrange, activations outside actrange, "
        "disabled groups, clampctrl/actuation flags; engine outputs (actuator_length/velocity/moment, act_dot, actuator_force, "
        "qfrc_actuator, act after mj_step) are compared with vf/ref/actuator.py + vf/ref/rbd.py; moment arms are cross-checked by "
        "finite differences of actuator_length along mj_integratePos. distinct = (model, state index); non-trivial = at least "
        "one actuator with a non-zero reference force or activation derivative")
ASSUMPTIONS = [
    "tendon transmissions take ten_length / ten_J from the engine (their consistency is C07's subject): length = gear*ten_length, "
    "moment = gear*ten_J (doc XMLreference actuator/general/tendon)",
    "ball-joint and rotational refsite transmissions: the moment is the documented torque axis (gear in the child / parent / "
    "refsite frame), not the gradient of the wrapped angle-axis length, so they are excluded from the finite-difference clause "
    "(doc: 'Ball joints are special', 'the length is defined on a circle')",
    "refsite transmissions: the wrench acts on the relative motion of the two sites expressed in the refsite frame; dofs that are "
    "ancestors of both sites do not change the relative pose and carry no moment (doc computation/Transmission: 'forces and "
    "torques are applied in the frame of the reference site'); the finite-difference clause is applied when the refsite is fixed "
    "to the world",
    "pid (without slew limiting), orientation on ball joints: formulas stated in doc XMLreference; dcmotor, pid with slewmax, "
    "orientation on sites: only the range / moment-transpose / group clauses are checked (formulas live in a PDF / are not stated)",
    "dcmotor cogging / LuGre terms are documented as not subject to the limits, so dcmotors are generated without them",
    "the total-force clause of tendon/actuatorfrcrange is checked for tendons whose actuators all have unit gear and no active "
    "forcerange clamp (the distribution of the clamp between several actuators is not documented)",
    "muscle activations are kept in [0,1] (doc modeling/Muscles: act is the state of a filter driven by ctrl clamped to [0,1])",
    "a NaN control is only required to leave finite forces and raise the bad-ctrl warning (no documented value)",
    "tolerance 1e-9 relative to the magnitude of the summed terms; FD clause 1e-5 relative",
    "muscle active force-length curve: the 0.15 secondary bump exists only in the plot script doc/_static/FLV.m (no prose, no "
    "attribute documents it), so both FLV.m's double bump and the single bump are accepted; a single-bump match is counted as "
    "out_of_scope:muscle-active-length-curve-lacks-secondary-bump-of-FLV.m. The passive curve is NOT relaxed: muscle/fpmax "
    "states its value at lmax",
    "whether a documented configuration compiles at all (pid with ki and slewmax together) is not a clause of the statement: "
    "the fixed probe only feeds counters out_of_scope:documented-pid-slew-plus-integral-*",
]

RTOL = 1e-9
TRN = {0: "joint", 1: "jointinparent", 2: "slidercrank", 3: "tendon", 4: "site", 5: "body", 6: "so3"}
DYN = {0: "none", 1: "integrator", 2: "filter", 3: "filterexact", 4: "muscle", 5: "dcmotor", 6: "pid", 7: "user"}
GAIN = {0: "fixed", 1: "affine", 2: "muscle", 3: "dcmotor", 4: "so3", 5: "pid", 6: "user"}
BIAS = {0: "none", 1: "affine", 2: "muscle", 3: "dcmotor", 4: "so3", 5: "user"}


def _check_enums():
    assert (E.mjTRN_JOINT, E.mjTRN_JOINTINPARENT, E.mjTRN_SLIDERCRANK, E.mjTRN_TENDON, E.mjTRN_SITE, E.mjTRN_BODY, E.mjTRN_SO3) == (0, 1, 2, 3, 4, 5, 6)
    assert (E.mjDYN_NONE, E.mjDYN_INTEGRATOR, E.mjDYN_FILTER, E.mjDYN_FILTEREXACT, E.mjDYN_MUSCLE, E.mjDYN_DCMOTOR, E.mjDYN_PID) == (0, 1, 2, 3, 4, 5, 6)
    assert (E.mjGAIN_FIXED, E.mjGAIN_AFFINE, E.mjGAIN_MUSCLE, E.mjGAIN_DCMOTOR, E.mjGAIN_SO3, E.mjGAIN_PID) == (0, 1, 2, 3, 4, 5)
    assert (E.mjBIAS_NONE, E.mjBIAS_AFFINE, E.mjBIAS_MUSCLE, E.mjBIAS_DCMOTOR, E.mjBIAS_SO3) == (0, 1, 2, 3, 4)


def f(x):
    return model.f(x)


# ---- model generation ------------------------------------------------------------------------------------------------------
def decorate(xml, rng, c):
    """add the features the base generator does not produce (actuators on free joints, 3D gears on ball joints, jointinparent,
    rotational / translational refsite servos, pid / orientation / dcmotor, tendon actuatorfrcrange, unit-gear tendon actuators)"""
    root = ET.fromstring(xml)
    wb = root.find("worldbody")
    joints = []       # (name, type)
    sites = []
    for b in wb.iter("body"):
        for j in b.findall("joint"):
            joints.append((j.get("name"), j.get("type", "hinge"), j))
        for s in b.findall("site"):
            sites.append(s.get("name"))
    for s in wb.findall("site"):
        sites.append(s.get("name"))
    A = root.find("actuator")
    if A is None:
        A = ET.SubElement(root, "actuator")
    jt = {n: t for n, t, _ in joints}
    n0 = [0]

    def nm():
        n0[0] += 1
        return "x%d" % n0[0]

    U = lambda lo, hi: float(rng.uniform(lo, hi))
    logU = lambda lo, hi: float(np.exp(rng.uniform(np.log(lo), np.log(hi))))
    # existing actuators on ball joints: 3D gear
    for a in list(A):
        tgt = a.get("joint") or a.get("jointinparent")
        if tgt and jt.get(tgt) == "ball" and a.tag != "muscle":
            a.set("gear", f(rng.normal(size=3)))
        if a.tag in ("position", "intvelocity", "general", "cylinder") and rng.random() < 0.3 and a.tag == "general" and a.get("dyntype", "none") != "none":
            a.set("actearly", "true")
    for n, t, _ in joints:
        if t == "free" and rng.random() < 0.8:
            kind = ["motor", "general", "velocity"][int(rng.integers(0, 3))]
            a = {"name": nm(), ("jointinparent" if rng.random() < 0.5 else "joint"): n, "gear": f(rng.normal(size=6))}
            if kind == "general":
                a.update(gaintype="affine", gainprm=f([U(0.5, 3), U(-1, 1), U(-1, 1)]), biastype="affine", biasprm=f([U(-1, 1), 0, U(-1, 0)]))
            elif kind == "velocity":
                a["kv"] = f(logU(0.1, 5))
            if rng.random() < 0.4:
                a["forcerange"] = f([-logU(0.2, 5), logU(0.2, 5)])
            ET.SubElement(A, kind, a)
        if t == "ball":
            r = rng.random()
            if r < 0.35:
                a = {"name": nm(), ("jointinparent" if rng.random() < 0.5 else "joint"): n, "gear": f(rng.normal(size=3)), "kp": f(logU(1, 50))}
                if rng.random() < 0.5:
                    a["kv"] = f(logU(0.1, 3))
                kind = "position" if rng.random() < 0.6 else "intvelocity"
                if kind == "intvelocity" and rng.random() < 0.5:
                    a["actrange"] = f([-U(0.5, 3), U(0.5, 3)])
                ET.SubElement(A, kind, a)
            elif r < 0.6:
                ET.SubElement(A, "general", {"name": nm(), "jointinparent": n, "gear": f(rng.normal(size=3)), "gainprm": f([U(0.5, 5), 0, 0]),
                                             "biastype": "affine", "biasprm": f([U(-1, 1), U(-3, 0), U(-1, 0)])})
            elif r < 0.85:
                a = {"name": nm(), "joint": n, "kp": f(logU(1, 40)), "kv": f(logU(0.05, 2))}
                if rng.random() < 0.5:
                    a["input"] = "quat"
                if rng.random() < 0.5:
                    a["forcerange"] = f([0, logU(0.5, 20)])
                if rng.random() < 0.4:
                    a["ctrlrange"] = f([-U(0.5, 2), U(0.5, 2)])
                ET.SubElement(A, "orientation", a)
        if t in ("hinge", "slide"):
            r = rng.random()
            if r < 0.15:
                toks = [tk for tk in ("pos", "vel", "ff") if rng.random() < 0.7] or ["pos"]
                a = {"name": nm(), "joint": n, "kp": f(logU(1, 50)), "kv": f(logU(0.1, 5)), "input": " ".join(toks)}
                if "pos" in toks and rng.random() < 0.6:
                    a["ki"] = f(logU(0.5, 20))
                    if rng.random() < 0.5:
                        a["imax"] = f(logU(0.05, 1))
                if "pos" in toks and "ki" not in a and rng.random() < 0.3:
                    a["slewmax"] = f(logU(0.5, 5))     # slew + integral together is rejected by the compiler (see probes())
                if rng.random() < 0.4:
                    a["forcerange"] = f([-logU(0.5, 20), logU(0.5, 20)])
                if "pos" in toks and rng.random() < 0.5:
                    a["posrange"] = f([-U(0.2, 1.5), U(0.2, 1.5)])
                if "vel" in toks and rng.random() < 0.5:
                    a["velrange"] = f([-U(0.2, 1.5), U(0.2, 1.5)])
                if "ff" in toks and rng.random() < 0.5:
                    a["ffrange"] = f([-U(0.2, 1.5), U(0.2, 1.5)])
                if rng.random() < 0.3:
                    a["gear"] = f(U(-3, 3) or 1.0)
                ET.SubElement(A, "pid", a)
            elif r < 0.25:
                a = {"name": nm(), "joint": n, "resistance": f(logU(0.5, 5)), "motorconst": f(logU(0.05, 1))}
                if rng.random() < 0.6:
                    a["saturation"] = f([logU(0.05, 2), 0, 0])
                if rng.random() < 0.4:
                    a["inductance"] = f([0, logU(0.001, 0.05)])
                ET.SubElement(A, "dcmotor", a)
    if len(sites) >= 2 and rng.random() < 0.8:
        for _ in range(int(rng.integers(1, 3))):
            s1, s2 = [sites[int(i)] for i in rng.choice(len(sites), size=2, replace=False)]
            rot = rng.random() < 0.5
            g = np.zeros(6)
            g[3 if rot else 0:6 if rot else 3] = rng.normal(size=3)
            kind = ["position", "intvelocity", "motor"][int(rng.integers(0, 3))]
            a = {"name": nm(), "site": s1, "refsite": s2, "gear": f(g)}
            if kind != "motor":
                a["kp"] = f(logU(1, 50))
            ET.SubElement(A, kind, a)
    # tendon-level actuator force range (+ unit gears so that the documented total-force clause is decidable)
    T = root.find("tendon")
    if T is not None:
        for t in T:
            if rng.random() < 0.5:
                t.set("actuatorfrcrange", f([-logU(0.2, 10), logU(0.2, 10)]))
                t.set("actuatorfrclimited", "true")      # the documented 'auto' default does not enable it (see probes())
                strip = rng.random() < 0.7
                n_on = 0
                for a in A:
                    if a.get("tendon") == t.get("name"):
                        n_on += 1
                        if strip:
                            a.attrib.pop("gear", None)
                if n_on == 1 and rng.random() < 0.6:       # several actuators on one tendon
                    ET.SubElement(A, "motor", {"name": nm(), "tendon": t.get("name"), "ctrlrange": "-3 3"})
    # actuator groups
    for a in A:
        if rng.random() < c.get("pgroup", 0.35):
            a.set("group", str(int(rng.integers(0, 5))))
    if len(A) == 0:
        root.remove(A)
    return ET.tostring(root, encoding="unicode")


def gen_case_xml(c):
    rng = np.random.default_rng(c["mseed"])
    over = dict(nbody=tuple(c.get("nbody", (2, 9))), ntree=(1, 3), actuators=1.0, tendons=3, sites=0.9, equalities=0, sensors=0,
                free=c.get("pfree", 0.5), ball=c.get("pball", 0.25), slide=0.2, act_group=0.0, actgravcomp=0.25, gravcomp=0.3,
                actfrcrange=0.3, tendon_wrap=0.2, mocap=0.2)
    if c.get("kinds"):
        over["act_kinds"] = c["kinds"]
    if c.get("contacts"):
        over.update(contacts=True, adhesion=1.0, free=0.9, geom_margin=0.5, geom_gap=0.6)
        if c.get("cone"):
            over["option"] = {"cone": c["cone"]}
    xml, tags = model.gen_profile(rng, "smooth", **over)
    return decorate(xml, rng, c)


# ---- model constants -------------------------------------------------------------------------------------------------------
FIELDS = ["actuator_trntype", "actuator_dyntype", "actuator_gaintype", "actuator_biastype", "actuator_trnid", "actuator_ctrladr",
          "actuator_ctrlnum", "actuator_outadr", "actuator_outnum", "actuator_actadr", "actuator_actnum", "actuator_group",
          "actuator_ctrllimited", "actuator_ctrlrange", "actuator_forcelimited", "actuator_forcerange", "actuator_actlimited",
          "actuator_actrange", "actuator_gear", "actuator_cranklength", "actuator_lengthrange", "actuator_acc0", "actuator_dynprm",
          "actuator_gainprm", "actuator_biasprm", "actuator_actearly", "actuator_ctrlspec", "actuator_delay", "actuator_plugin",
          "site_bodyid", "site_pos", "site_quat", "geom_bodyid", "jnt_type", "jnt_dofadr", "jnt_qposadr", "jnt_actfrclimited",
          "jnt_actfrcrange", "jnt_actgravcomp", "tendon_actfrclimited", "tendon_actfrcrange", "body_weldid", "ten_J_rownnz",
          "ten_J_rowadr", "ten_J_colind"]


class Info:
    def __init__(self, m):
        for k in FIELDS:
            if k in m:
                setattr(self, k[9:] if k.startswith("actuator_") else k, np.array(m[k]))
        for k in ("nv", "nu", "na", "nactuator", "nout", "ntendon", "njnt", "nq", "nsite"):
            setattr(self, k, m.n(k))
        self.trnid = self.trnid.reshape(-1, 2)
        self.gear = self.gear.reshape(-1, 6)
        self.ctrlrange = self.ctrlrange.reshape(-1, 2)
        self.forcerange = self.forcerange.reshape(-1, 2)
        self.actrange = self.actrange.reshape(-1, 2)
        self.lengthrange = self.lengthrange.reshape(-1, 2)
        self.dynprm = self.dynprm.reshape(self.nactuator, -1)
        self.gainprm = self.gainprm.reshape(self.nactuator, -1)
        self.biasprm = self.biasprm.reshape(self.nactuator, -1)
        self.jnt_actfrcrange = self.jnt_actfrcrange.reshape(-1, 2)
        self.tendon_actfrcrange = self.tendon_actfrcrange.reshape(-1, 2)

    def family(self, i):
        return "%s/%s/%s" % (DYN.get(int(self.dyntype[i]), "?"), GAIN.get(int(self.gaintype[i]), "?"), BIAS.get(int(self.biastype[i]), "?"))

    def wrap_period(self, i):
        """documented: position / intvelocity servos on ball joints or purely rotational refsite transmissions interpret the
        setpoint on the circle (period 2 pi |gear|)"""
        servo = (self.gaintype[i] == 0 and self.biastype[i] == 1 and self.gainprm[i, 0] == -self.biasprm[i, 1] and self.dyntype[i] in (0, 1))
        if not servo:
            return 0.0
        g = self.gear[self.outadr[i]]
        t = self.trntype[i]
        if t == 4 and self.trnid[i, 1] >= 0 and not g[:3].any():
            return 2 * np.pi * np.linalg.norm(g[3:6])
        if t in (0, 1) and self.jnt_type[self.trnid[i, 0]] == E.mjJNT_BALL:
            return 2 * np.pi * np.linalg.norm(g[:3])
        return 0.0


def dense_moment(I, d, viol):
    nout, nv = I.nout, I.nv
    M = np.zeros((nout, nv))
    if nout == 0:
        return M
    nnz, adr, col, val = np.array(d["moment_rownnz"]), np.array(d["moment_rowadr"]), np.array(d["moment_colind"]), np.array(d["actuator_moment"])
    for r in range(nout):
        a, n = int(adr[r]), int(nnz[r])
        if n < 0 or a < 0 or a + n > len(val):
            viol("moment-csr-row-out-of-bounds", row=r, adr=a, nnz=n, size=len(val))
            return None
        if r and a != adr[r - 1] + nnz[r - 1]:
            viol("moment-csr-rows-not-contiguous", row=r, adr=a, prev_end=int(adr[r - 1] + nnz[r - 1]))
        cc = col[a:a + n]
        if n and (cc.min() < 0 or cc.max() >= nv or (np.diff(cc) <= 0).any()):
            viol("moment-csr-columns-not-sorted-unique-in-range", row=r, cols=[int(x) for x in cc])
            return None
        M[r, cc] = val[a:a + n]
    return M


def dense_tenJ(I, d):
    J = np.zeros((I.ntendon, I.nv))
    tj = np.array(d["ten_J"]).ravel()
    for t in range(I.ntendon):
        a, n = int(I.ten_J_rowadr[t]), int(I.ten_J_rownnz[t])
        J[t, I.ten_J_colind[a:a + n]] = tj[a:a + n]
    return J


# ---- reference for one state ----------------------------------------------------------------------------------------------
def ref_transmission(I, T, K, S, qpos, ten_length, tenJ, contacts):
    """per output: (length, moment row, kind string, fd_ok)"""
    out = [None] * I.nout
    for i in range(I.nactuator):
        o = int(I.outadr[i])
        t = int(I.trntype[i])
        id0, id1 = int(I.trnid[i, 0]), int(I.trnid[i, 1])
        g = I.gear[o]
        if t in (0, 1):
            jtype = int(I.jnt_type[id0])
            l, mom = ra.trn_joint(T, K, id0, qpos, g, inparent=(t == 1))
            out[o] = (l, mom, "%s:%s" % (TRN[t], ["free", "ball", "slide", "hinge"][jtype]), jtype in (E.mjJNT_SLIDE, E.mjJNT_HINGE))
        elif t == 2:
            l, mom, det = ra.trn_slidercrank(T, S, id0, id1, float(I.cranklength[o]), g[0])
            out[o] = (l, mom, "slidercrank" + ("" if det > 0 else ":unreachable"), abs(det) > 1e-3)
        elif t == 3:
            out[o] = (g[0] * ten_length[id0], g[0] * tenJ[id0], "tendon", True)
        elif t == 4:
            l, mom = ra.trn_site(T, S, id0, id1, g)
            if id1 < 0:
                kind, fd = "site", False
            else:
                rot, tr = g[3:6].any(), g[:3].any()
                kind = "refsite:" + ("mixed" if rot and tr else "rot" if rot else "trans")
                fd = (not rot) and int(I.body_weldid[S.body[id1]]) == 0
            out[o] = (l, mom, kind, fd)
        elif t == 5:
            l, mom, n = ra.trn_body(T, K, id0, contacts, I.geom_bodyid)
            out[o] = (l, mom, "body:%s" % ("contacts" if n else "nocontact"), False)
        elif t == 6:
            if id1 < 0:
                q = rbd.qnorm(qpos[I.jnt_qposadr[id0]:I.jnt_qposadr[id0] + 4])
                aa = rbd.q2rotvec(q)
                for k in range(3):
                    mom = np.zeros(I.nv)
                    mom[I.jnt_dofadr[id0] + k] = 1.0
                    out[o + k] = (aa[k], mom, "so3:ball", False)
            else:
                for k in range(3):
                    out[o + k] = None      # orientation on sites: only range / moment-transpose / group clauses
    return out


def refsite_length_swapped(I, K, S, o, l_doc):
    """length a rotational refsite transmission would have if the site orientation were composed as site_quat * body_quat
    (instead of body_quat * site_quat, which is the orientation site_xmat has); translational part unchanged"""
    i = int(np.flatnonzero(I.outadr == o)[0])
    s, r = int(I.trnid[i, 0]), int(I.trnid[i, 1])
    g = I.gear[o]
    qs_doc = rbd.qnorm(rbd.qmul(K.xquat[S.body[s]], rbd.qnorm(S.lquat[s])))
    qr_doc = rbd.qnorm(rbd.qmul(K.xquat[S.body[r]], rbd.qnorm(S.lquat[r])))
    qs = rbd.qnorm(rbd.qmul(rbd.qnorm(S.lquat[s]), K.xquat[S.body[s]]))
    qr = rbd.qnorm(rbd.qmul(rbd.qnorm(S.lquat[r]), K.xquat[S.body[r]]))
    doc = float(np.dot(g[3:6], rbd.q2rotvec(rbd.qnorm(rbd.qmul(rbd.qconj(qr_doc), qs_doc)))))
    alt = float(np.dot(g[3:6], rbd.q2rotvec(rbd.qnorm(rbd.qmul(rbd.qconj(qr), qs)))))
    return l_doc - doc + alt


def ref_forces(I, i, u, act, l, v, h, qpos):
    """documented force law of actuator i. u: clamped control block, act: activation block, l, v: per-output length/velocity.
    returns (force per output | None, act_dot per act | None, variants) - None = family without a formula in /repo/doc"""
    dyn, gt, bt = int(I.dyntype[i]), int(I.gaintype[i]), int(I.biastype[i])
    nact = int(I.actnum[i])
    dp, gp, bp = I.dynprm[i], I.gainprm[i], I.biasprm[i]
    o = int(I.outadr[i])
    alim, arng = bool(I.actlimited[i]), I.actrange[i]
    # ---- activation dynamics
    act_dot = None
    if dyn == 0:
        act_dot = np.zeros(nact)
    elif dyn == 1 and nact == len(u):
        act_dot = np.array(u, dtype=float)
    elif dyn in (2, 3) and nact == 1:
        act_dot = np.array([(u[0] - act[0]) / dp[0]])
    elif dyn == 4 and nact == 1:
        act_dot = np.array([ra.muscle_dynamics(u[0], act[0], dp[:3])])
    elif dyn == 6 and gt == 5:
        # pid: states in the order [slew, integral]; without slew limiting the integral state integrates the position error
        if dp[1] > 0:
            return None, None, None
        act_dot = np.zeros(nact)
        if gp[0] > 0 and nact == 1:
            spec = int(I.ctrlspec[i])
            upos = u[0] if spec & E.mjINPUT_POS else 0.0
            err = upos - l[0]
            imax = dp[0]
            if imax > 0:        # anti-windup: accumulation stops beyond +-imax
                if act[0] >= imax:
                    err = min(err, 0.0)
                elif act[0] <= -imax:
                    err = max(err, 0.0)
            act_dot[0] = err
    else:
        return None, None, None
    kindname = {1: "integrator", 2: "filter", 3: "filterexact", 4: "muscle"}.get(dyn, "euler")

    def w_eff(k):
        if I.actearly[i]:
            return ra.next_activation(kindname, act[k], act_dot[k], h, tau=dp[0], actlimited=alim, actrange=arng)
        return act[k]

    # ---- orientation servo on a ball joint
    if gt == 4:
        if int(I.trnid[i, 1]) >= 0 or bt != 4:
            return None, act_dot, None
        j = int(I.trnid[i, 0])
        q = rbd.qnorm(qpos[I.jnt_qposadr[j]:I.jnt_qposadr[j] + 4])
        if int(I.ctrlspec[i]) == E.mjCHART_QUAT:
            qt = rbd.qnorm(np.array(u[:4]))
        elif dyn == 0:
            qt = rbd.rotvec2q(np.array(u[:3]))
        else:
            qt = rbd.rotvec2q(np.array([w_eff(k) for k in range(3)]))
        e = rbd.q2rotvec(rbd.qnorm(rbd.qmul(rbd.qconj(q), qt)))
        kp, kv = gp[0], -bp[2]
        return kp * e - kv * np.array(v[:3]) + bp[0], act_dot, None
    # ---- pid
    if gt == 5:
        if bt != 1:
            return None, act_dot, None
        spec = int(I.ctrlspec[i])
        k = 0
        ins = []
        for bit in (E.mjINPUT_POS, E.mjINPUT_VEL, E.mjINPUT_FF):
            if spec & bit:
                ins.append(u[k])
                k += 1
            else:
                ins.append(0.0)
        kp, kv, ki = -bp[1], -bp[2], gp[0]
        frc = kp * (ins[0] - l[0]) + kv * (ins[1] - v[0]) + ins[2] + bp[0]
        if ki > 0 and nact:
            frc += ki * w_eff(nact - 1)
        return np.array([frc]), act_dot, None
    if gt not in (0, 1, 2) or bt not in (0, 1, 2) or len(u) != 1:
        return None, act_dot, None
    if (gt == 2 and gp[2] < 0 or bt == 2 and bp[2] < 0) and I.acc0[o] < 1e-10:
        return None, act_dot, None         # F0 = scale / acc0 is undefined
    # ---- SISO: p = gain * (w or u) + bias
    x = w_eff(nact - 1) if nact else u[0]
    P = I.wrap_period(i)
    if P > 0:
        x = ra.wrap_setpoint(x, l[0], P)
    variants = None
    lr, acc0 = I.lengthrange[o], float(I.acc0[o])
    if gt == 0:
        gain = gp[0]
    elif gt == 1:
        gain = ra.affine(gp, l[0], v[0])
    else:
        gain = ra.muscle_gain(l[0], v[0], lr, acc0, gp)
    if bt == 0:
        bias = 0.0
    elif bt == 1:
        bias = ra.affine(bp, l[0], v[0])
    else:
        bias = ra.muscle_bias(l[0], lr, acc0, bp)
    if gt == 2 or bt == 2:
        # characterised deviations from doc/_static/FLV.m (see findings): evaluate the alternative curve shapes too
        g1 = ra.muscle_gain(l[0], v[0], lr, acc0, gp, "single-bump") if gt == 2 else gain
        b1 = ra.muscle_bias(l[0], lr, acc0, bp, "half-quadratic") if bt == 2 else bias
        variants = {"FL-single-bump": g1 * x + bias, "FP-half-quadratic": gain * x + b1, "FL-single-bump+FP-half-quadratic": g1 * x + b1}
    return np.array([gain * x + bias]), act_dot, variants


def check_state(L, m, d, I, T, rng, P, witness, do_fd, do_step):
    viol = lambda sig, **kw: P.violation(sig, dict(witness, **{k: (v.tolist() if isinstance(v, np.ndarray) else (float(v) if isinstance(v, np.floating) else v)) for k, v in kw.items()}))
    nv, nu, na, nout = I.nv, I.nu, I.na, I.nout
    qpos, qvel = np.array(d["qpos"]), np.array(d["qvel"])
    ctrl_in, act = np.array(d["ctrl"]), np.array(d["act"])
    h = float(m.opt["timestep"])
    dis = int(m.opt["disableflags"])
    K = T.fk(qpos, d["mocap_pos"] if m.n("nmocap") else None, d["mocap_quat"] if m.n("nmocap") else None)
    S = ra.Sites(T, K, I.site_bodyid, I.site_pos, I.site_quat)
    cons = []
    if (I.trntype == 5).any():
        for c in d.contacts():
            if int(c["exclude"]) in (0, 1):
                cons.append((np.array(c["pos"]), np.array(c["frame"][:3]), int(c["geom"][0]), int(c["geom"][1])))
    ten_length = np.array(d["ten_length"]) if I.ntendon else np.zeros(0)
    tenJ = dense_tenJ(I, d)
    # ---- transmission
    Mom = dense_moment(I, d, viol)
    if Mom is None:
        return False
    length, velocity = np.array(d["actuator_length"]), np.array(d["actuator_velocity"])
    R = ref_transmission(I, T, K, S, qpos, ten_length, tenJ, cons)
    lref, vref = length.copy(), velocity.copy()
    for o in range(nout):
        if R[o] is None:
            P.count("outputs_transmission_not_modelled")
            continue
        l, mom, kind, fd_ok = R[o]
        P.count("trn_checked:" + kind)
        sc = 1 + abs(l)
        len_known_dev = False
        if not np.isfinite(length[o]) or abs(length[o] - l) > RTOL * 100 * sc:
            alt = None
            if kind.startswith("refsite:") and kind != "refsite:trans":
                alt = refsite_length_swapped(I, K, S, o, l)
            if alt is not None and abs(length[o] - alt) <= RTOL * 100 * sc:
                # characterised deviation (see findings/C27-refsite-rotation-quaternion-order.md)
                P.count("refsite_rot_length_swapped_quaternion_order")
                viol("refsite-rotational-length-composes-site_quat-and-body-quat-in-swapped-order", output=o, engine=length[o],
                     documented=l, swapped_order=alt)
                len_known_dev = True
            else:
                viol("actuator_length-differs-from-reference:" + kind.split(":unreach")[0], output=o, engine=length[o], ref=l)
        msc = max(np.abs(mom).max(), np.abs(I.gear[o]).max(), 1e-12)
        e = np.abs(Mom[o] - mom).max()
        P.note_max("relerr_moment", e / msc)
        if not np.isfinite(Mom[o]).all() or e > RTOL * 100 * msc:
            k = int(np.nanargmax(np.abs(Mom[o] - mom)))
            viol("actuator_moment-differs-from-reference:" + kind.split(":unreach")[0], output=o, dof=k, engine=Mom[o, k], ref=mom[k])
        vr = float(mom @ qvel)
        if not (dis & E.mjDSBL_ACTUATION) and abs(velocity[o] - vr) > RTOL * 100 * (np.abs(mom) @ np.abs(qvel)) + 1e-12 * (1 + np.abs(qvel).max()):
            viol("actuator_velocity-differs-from-moment-times-qvel:" + kind.split(":")[0], output=o, engine=velocity[o], ref=vr)
        lref[o], vref[o] = (length[o] if len_known_dev else l), vr
    # ---- moment = gradient of length (finite differences along mj_integratePos)
    if do_fd and nv <= 60:
        fd_rows = [o for o in range(nout) if R[o] is not None and R[o][3]]
        if fd_rows:
            d2 = m.make_data()
            eps = 1e-6
            G = np.zeros((nout, nv))
            for k in range(nv):
                ls = []
                for s in (+1, -1):
                    q2 = qpos.copy()
                    e = np.zeros(nv)
                    e[k] = 1
                    L.call("mj_integratePos", m, q2, e, float(s * eps), ret=None)
                    d2["qpos"][:] = q2
                    if m.n("nmocap"):
                        d2["mocap_pos"][:] = d["mocap_pos"]
                        d2["mocap_quat"][:] = d["mocap_quat"]
                    L.call("mj_fwdPosition", m, d2, ret=None)
                    ls.append(np.array(d2["actuator_length"]))
                G[:, k] = (ls[0] - ls[1]) / (2 * eps)
            d2.free()
            for o in fd_rows:
                sc = max(np.abs(Mom[o]).max(), 1e-6)
                e = np.abs(G[o] - Mom[o]).max()
                P.note_max("relerr_moment_vs_fd", e / sc)
                P.count("fd_rows")
                if e > 1e-5 * sc + 1e-7:
                    k = int(np.argmax(np.abs(G[o] - Mom[o])))
                    viol("actuator_moment-is-not-gradient-of-actuator_length:" + R[o][2].split(":")[0], output=o, dof=k, fd=G[o, k], moment=Mom[o, k])
    # ---- controls
    force, act_dot, qfrc = np.array(d["actuator_force"]), np.array(d["act_dot"]), np.array(d["qfrc_actuator"])
    actuation_off = bool(dis & E.mjDSBL_ACTUATION)
    if actuation_off:
        if np.any(force != 0) or np.any(qfrc != 0):
            viol("force-nonzero-with-actuation-disabled", max_force=np.abs(force).max() if nout else 0.0, max_qfrc=np.abs(qfrc).max())
        P.count("states_actuation_disabled")
        return True
    u = ctrl_in.copy()
    if not (dis & E.mjDSBL_CLAMPCTRL):
        lim = I.ctrllimited.astype(bool)
        u[lim] = np.clip(u[lim], I.ctrlrange[lim, 0], I.ctrlrange[lim, 1])
    if not np.isfinite(ctrl_in).all() and np.isfinite(u).all():
        P.count("states_nonfinite_ctrl_clamped_to_range")
    if not np.isfinite(u).all():
        P.count("states_bad_ctrl")
        if not (np.isfinite(force).all() and np.isfinite(qfrc).all() and np.isfinite(act_dot).all()):
            viol("non-finite-control-propagates-to-forces")
        if int(d["warning"]["number"][E.mjWARN_BADCTRL]) == 0:
            viol("non-finite-control-raises-no-warning")
        return True
    gdis = int(m.opt["disableactuator"])
    nontrivial = False
    pref = [None] * I.nactuator          # unclamped reference forces
    unknown_tendon = set()
    for i in range(I.nactuator):
        o, no = int(I.outadr[i]), int(I.outnum[i])
        ua, un = int(I.ctrladr[i]), int(I.ctrlnum[i])
        aa, an = int(I.actadr[i]), int(I.actnum[i])
        grp = int(I.group[i])
        disabled = 0 <= grp <= 30 and bool(gdis & (1 << grp))
        fam = I.family(i)
        if disabled:
            P.count("actuators_in_disabled_group")
            if np.any(force[o:o + no] != 0):
                viol("force-nonzero-for-actuator-in-disabled-group", actuator=i, group=grp, force=force[o:o + no], family=fam)
            pref[i] = np.zeros(no)
            continue
        if I.delay[i] != 0 or I.plugin[i] >= 0 or any(R[o + k] is None for k in range(no)):
            p, ad, variants = None, None, None
        else:
            p, ad, variants = ref_forces(I, i, u[ua:ua + un], act[aa:aa + an] if an else np.zeros(0), lref[o:o + no], vref[o:o + no], h, qpos)
        if ad is not None and an:
            sc = 1 + np.abs(ad)
            e = np.abs(act_dot[aa:aa + an] - ad)
            P.count("act_dot_checked:" + DYN[int(I.dyntype[i])])
            if not np.isfinite(act_dot[aa:aa + an]).all() or (e > RTOL * 10 * sc).any():
                viol("act_dot-differs-from-documented-dynamics:" + DYN[int(I.dyntype[i])], actuator=i, engine=act_dot[aa:aa + an], ref=ad,
                     ctrl=ctrl_in[ua:ua + un], clamped=u[ua:ua + un], act=act[aa:aa + an])
            if np.any(ad != 0):
                nontrivial = True
        if p is None:
            P.count("actuators_range_clauses_only:" + fam)
            if I.trntype[i] == 3:
                unknown_tendon.add(int(I.trnid[i, 0]))
        pref[i] = (p, variants)
    # tendon-level total force clamp, actuator-level clamp
    fexp = [None] * I.nactuator
    tendon_sum_clause = {}
    for i in range(I.nactuator):
        if not isinstance(pref[i], tuple):
            fexp[i] = (pref[i], None, "disabled")
            continue
        p, variants = pref[i]
        if p is None:
            continue
        mode = "plain"
        if I.trntype[i] == 3 and I.ntendon and I.tendon_actfrclimited[I.trnid[i, 0]]:
            t = int(I.trnid[i, 0])
            members = [k for k in range(I.nactuator) if I.trntype[k] == 3 and I.trnid[k, 0] == t]
            if t in unknown_tendon:
                continue
            tot = sum(float(pref[k][0][0]) if isinstance(pref[k], tuple) else 0.0 for k in members)
            lo, hi = I.tendon_actfrcrange[t]
            # members with characterised curve deviations (muscles): the clamp decision must not depend on which curve is used
            tots = [tot]
            for k in members:
                if isinstance(pref[k], tuple) and pref[k][1]:
                    tots += [tot - float(pref[k][0][0]) + float(val) for val in pref[k][1].values()]
            if any(lo <= x <= hi for x in tots) and not all(lo <= x <= hi for x in tots):
                P.count("skipped_tendon_clamp_decision_depends_on_muscle_curve")
                continue
            if lo <= tot <= hi:
                mode = "plain"
            else:
                unit = all(I.gear[I.outadr[k], 0] == 1 for k in members)
                free = all(not I.forcelimited[k] for k in members)
                if unit and free and all(pref[k][1] is None for k in members if isinstance(pref[k], tuple)):
                    tendon_sum_clause[t] = (members, float(np.clip(tot, lo, hi)), tot)
                else:
                    P.count("skipped_tendon_total_clause")
                continue
        fexp[i] = (p, variants, mode)
    for t, (members, want, tot) in tendon_sum_clause.items():
        got = sum(float(force[I.outadr[k]]) for k in members)
        P.count("tendon_total_force_clamped")
        if abs(got - want) > RTOL * 100 * (abs(tot) + 1):
            viol("tendon-total-actuator-force-not-clamped-to-actuatorfrcrange", tendon=t, total_unclamped=tot, engine_total=got, want=want,
                 n_actuators=len(members))
        nontrivial = True
    for i in range(I.nactuator):
        o, no = int(I.outadr[i]), int(I.outnum[i])
        fr = I.forcerange[i]
        fi = force[o:o + no]
        fam = I.family(i)
        # range clause (all families)
        if I.forcelimited[i]:
            if I.gaintype[i] == 4:
                if np.linalg.norm(fi) > fr[1] * (1 + 1e-12) + 1e-300:
                    viol("actuator_force-outside-forcerange:so3-norm", actuator=i, force=fi, forcerange=fr)
            elif (fi < fr[0]).any() or (fi > fr[1]).any():
                viol("actuator_force-outside-forcerange:" + TRN[int(I.trntype[i])], actuator=i, force=fi, forcerange=fr, family=fam)
        if not np.isfinite(fi).all():
            viol("actuator_force-not-finite", actuator=i, family=fam)
        if fexp[i] is None or fexp[i][2] == "disabled":
            continue
        p, variants, mode = fexp[i]
        ua, un = int(I.ctrladr[i]), int(I.ctrlnum[i])
        aa, an = int(I.actadr[i]), int(I.actnum[i])

        def clampf(x):
            x = np.array(x, dtype=float)
            if I.forcelimited[i]:
                if I.gaintype[i] == 4:
                    n = np.linalg.norm(x)
                    return x * (fr[1] / n) if n > fr[1] else x
                return np.clip(x, fr[0], fr[1])
            return x

        want = clampf(p)
        sc = 1 + np.abs(p) + np.abs(I.gainprm[i, :3]).sum() * (1 + abs(lref[o]) + abs(vref[o]))
        e = np.abs(fi - want)
        P.count("force_checked:" + fam)
        P.count("force_checked_trn:" + TRN[int(I.trntype[i])])
        if I.forcelimited[i] and np.any(want != p):
            P.count("force_clamp_active")
        if np.any(u[ua:ua + un] != ctrl_in[ua:ua + un]):
            P.count("ctrl_clamp_active")
        if np.any(want != 0):
            nontrivial = True
        if (e > RTOL * 10 * sc).any():
            detail = dict(actuator=i, family=fam, trn=TRN[int(I.trntype[i])], engine=fi, ref=want, unclamped_ref=p, ctrl=ctrl_in[ua:ua + un],
                          clamped_ctrl=u[ua:ua + un], act=act[aa:aa + an], length=lref[o:o + no], velocity=vref[o:o + no], actearly=int(I.actearly[i]),
                          wrap_period=I.wrap_period(i))
            if variants:
                # first match in the fixed order FL-only, FP-only, both (each an exact alternative formula, no tolerance band)
                hit = [k for k in ("FL-single-bump", "FP-half-quadratic", "FL-single-bump+FP-half-quadratic")
                       if abs(float(clampf([variants[k]])[0]) - fi[0]) <= RTOL * 10 * sc[0]]
                if hit:
                    P.count("muscle_deviation:" + hit[0])
                    if "FL-single-bump" in hit[0]:
                        # active length curve without the 0.15 secondary bump of doc/_static/FLV.m: the only source is a
                        # MATLAB plot script ("documentation too thin"), so the single-bump curve is tolerated and counted
                        P.count("out_of_scope:muscle-active-length-curve-lacks-secondary-bump-of-FLV.m")
                    if "FP-half-quadratic" in hit[0]:
                        viol(MUSCLE_FP_SIGNATURE, **dict(detail, variant=hit[0]))
                    continue
            # would the unclamped control reproduce the engine's value? (clamping skipped / applied after the gain)
            viol("actuator_force-differs-from-documented-law:" + fam, **detail)
    # ---- generalized force: qfrc_actuator = moment' * force (+ actuator-level gravity compensation), clamped at limited joints
    q_ref = Mom.T @ force if nout else np.zeros(nv)
    sc = (np.abs(Mom).T @ np.abs(force) if nout else np.zeros(nv)) + 1e-9
    gc = np.array(d["qfrc_gravcomp"])
    for j in range(I.njnt):
        if I.jnt_actgravcomp[j]:
            a = int(I.jnt_dofadr[j])
            n = rbd.NDOF[int(I.jnt_type[j])]
            q_ref[a:a + n] += gc[a:a + n]
            sc[a:a + n] += np.abs(gc[a:a + n])
            if np.any(gc[a:a + n] != 0):
                P.count("joints_with_actuator_gravcomp_active")
    for j in range(I.njnt):
        if I.jnt_actfrclimited[j]:
            a = int(I.jnt_dofadr[j])
            lo, hi = I.jnt_actfrcrange[j]
            if not lo <= q_ref[a] <= hi:
                P.count("joint_actfrc_clamp_active")
            q_ref[a] = np.clip(q_ref[a], lo, hi)
            if qfrc[a] < lo or qfrc[a] > hi:
                viol("qfrc_actuator-outside-joint-actuatorfrcrange", joint=j, qfrc=qfrc[a], range=[lo, hi])
    e = np.abs(qfrc - q_ref)
    P.note_max("relerr_qfrc_actuator", (e / sc).max() if nv else 0.0)
    if not np.isfinite(qfrc).all() or (e > RTOL * 10 * sc).any():
        k = int(np.nanargmax(e / sc))
        viol("qfrc_actuator-differs-from-moment-transpose-times-force", dof=k, engine=qfrc[k], ref=q_ref[k],
             actgravcomp=bool(I.jnt_actgravcomp[m["dof_jntid"][k]]), limited=bool(I.jnt_actfrclimited[m["dof_jntid"][k]]))
    # ---- one step: activations follow act_dot, stay inside actrange, are frozen for disabled groups
    if do_step and na:
        d.step(1)
        if d["warning"]["number"][E.mjWARN_BADQACC] or d["warning"]["number"][E.mjWARN_BADQPOS] or d["warning"]["number"][E.mjWARN_BADQVEL]:
            P.count("skipped_step_clause_autoreset")
            return nontrivial
        act2 = np.array(d["act"])
        for i in range(I.nactuator):
            aa, an = int(I.actadr[i]), int(I.actnum[i])
            if an == 0:
                continue
            dyn = int(I.dyntype[i])
            grp = int(I.group[i])
            disabled = 0 <= grp <= 30 and bool(gdis & (1 << grp))
            for k in range(an):
                w0, w1 = act[aa + k], act2[aa + k]
                if I.actlimited[i] and dyn != 5 and not (I.actrange[i, 0] <= w1 <= I.actrange[i, 1]):
                    if dyn == 1 and I.wrap_period(i) > 0:
                        viol("activation-outside-actrange-after-step:rotational-setpoint-reanchored-after-clamp", actuator=i, act=w1,
                             actrange=I.actrange[i], period=I.wrap_period(i), length=float(length[I.outadr[i]]))
                    else:
                        viol("activation-outside-actrange-after-step:" + DYN[dyn], actuator=i, act=w1, actrange=I.actrange[i])
                if dyn in (5,) or (dyn == 6 and I.dynprm[i, 1] > 0) or (I.gaintype[i] == 4 and dyn != 0 and False):
                    continue
                kindname = {1: "integrator", 2: "filter", 3: "filterexact", 4: "muscle"}.get(dyn, "euler")
                adot = 0.0 if disabled else act_dot[aa + k]
                want = ra.next_activation(kindname, w0, adot, h, tau=I.dynprm[i, 0], actlimited=bool(I.actlimited[i]), actrange=I.actrange[i])
                if dyn == 6 and I.dynprm[i, 0] > 0:
                    continue
                per = I.wrap_period(i) if dyn == 1 else 0.0
                diff = w1 - want
                if per > 0:
                    diff -= per * np.round(diff / per)          # re-anchored to a bounded representative (documented)
                if I.gaintype[i] == 4 and dyn == 1:
                    # so3 integrator: the expmap setpoint is re-anchored; compare as rotations
                    if k == 0:
                        w3 = np.array([ra.next_activation("euler", act[aa + kk], 0.0 if disabled else act_dot[aa + kk], h) for kk in range(3)])
                        r = rbd.q2rotvec(rbd.qnorm(rbd.qmul(rbd.qconj(rbd.rotvec2q(w3)), rbd.rotvec2q(act2[aa:aa + 3]))))
                        if np.abs(r).max() > 1e-9:
                            viol("so3-integrated-setpoint-changed-as-rotation", actuator=i)
                    continue
                P.count("act_step_checked:" + DYN[dyn] + (":disabled" if disabled else ""))
                if abs(diff) > RTOL * 10 * (1 + abs(want)):
                    viol("activation-after-step-differs-from-documented-integration:" + DYN[dyn] + (":disabled-group" if disabled else ""),
                         actuator=i, act0=w0, act_dot=act_dot[aa + k], engine=w1, ref=want, timestep=h)
    return nontrivial


# ---- worker ----------------------------------------------------------------------------------------------------------------
def set_state(m, d, I, T, rng, c, k):
    nv = I.nv
    d.reset()
    q = random_qpos(rng, m, T, spread=1.0)
    if c.get("contacts"):
        jt, qa = m["jnt_type"], m["jnt_qposadr"]
        for j in range(I.njnt):
            if jt[j] == E.mjJNT_FREE and rng.random() < 0.8:
                q[qa[j] + 2] = rng.uniform(-0.02, 0.25)
    d["qpos"][:] = q
    d["qvel"][:] = rng.normal(size=nv) * rng.choice([0.3, 2.0])
    if m.n("nmocap"):
        nm = m.n("nmocap")
        d["mocap_pos"][:] = np.array(d["mocap_pos"]) + rng.normal(size=(nm, 3)) * 0.3
        qq = rng.normal(size=(nm, 4))
        d["mocap_quat"][:] = qq / np.linalg.norm(qq, axis=1, keepdims=True)
    # controls: mostly far outside the ranges
    u = rng.normal(size=I.nu) * rng.choice([0.5, 3.0, 30.0], size=I.nu)
    for i in range(I.nactuator):
        if I.dyntype[i] == 4 or I.gaintype[i] == 2:      # muscles: excitation around [0, 1]
            u[I.ctrladr[i]] = rng.uniform(-0.5, 1.5)
        if I.trntype[i] == 5:
            u[I.ctrladr[i]] = rng.uniform(-1, 3)
    d["ctrl"][:] = u
    if I.na:
        a = rng.normal(size=I.na) * rng.choice([0.3, 2.0], size=I.na)
        for i in range(I.nactuator):
            if I.actnum[i] and I.dyntype[i] == 4:
                a[I.actadr[i]] = rng.uniform(0, 1)
            if I.actnum[i] and I.dyntype[i] == 5:
                a[I.actadr[i]:I.actadr[i] + I.actnum[i]] *= 0.1
        d["act"][:] = a
    # option bits
    dis = int(m.opt["disableflags"]) & ~(int(E.mjDSBL_CLAMPCTRL) | int(E.mjDSBL_ACTUATION))
    r = rng.random()
    if r < 0.2:
        dis |= int(E.mjDSBL_CLAMPCTRL)
    elif r < 0.26:
        dis |= int(E.mjDSBL_ACTUATION)
    m.opt["disableflags"] = dis
    m.opt["disableactuator"] = int(rng.integers(0, 32)) if rng.random() < 0.6 else 0
    bad = False
    if I.nu and rng.random() < 0.04:
        gd = int(m.opt["disableactuator"])
        en = [i for i in range(I.nactuator) if not (gd >> int(I.group[i])) & 1 and I.ctrlnum[i]]
        if en:
            i = en[int(rng.integers(0, len(en)))]
            d["ctrl"][I.ctrladr[i]] = [np.nan, np.inf, -np.inf][int(rng.integers(0, 3))]
            bad = True
    return bad


def worker(c):
    _check_enums()
    P = core.Part()
    L = drv.Lib(c.get("flavour", "rel"))
    xml = c.get("xml") or gen_case_xml(c)
    name = "gen:%d:%s" % (c["mseed"], "contact" if c.get("contacts") else "smooth")
    try:
        m = L.load_xml_string(xml)
    except drv.MjError as e:
        P.count("model_rejected")
        P.count("model_rejected:" + str(e).split("\n")[0][:50])
        return P.result()
    I = Info(m)
    if I.nactuator == 0 or I.nv == 0:
        P.count("skipped_no_actuators")
        P.case(nontrivial=False)
        m.free()
        return P.result()
    rng = np.random.default_rng(c["seed"])
    m.opt["enableflags"] = int(m.opt["enableflags"]) & ~int(E.mjENBL_SLEEP)
    if rng.random() < 0.5:
        m.opt["integrator"] = int(E.mjINT_IMPLICITFAST)
    if rng.random() < 0.5:
        m.opt["gravity"][:] = rng.normal(size=3) * 6
    T = make_tree(m)
    d = m.make_data()
    P.count("models")
    for i in range(I.nactuator):
        P.count("actuators:" + I.family(i))
        P.count("actuators_trn:" + TRN[int(I.trntype[i])])
    witness0 = {"model": name, "xml": xml, "case": {k: v for k, v in c.items() if k != "xml"}}
    only = c.get("only_state")
    for k in range(c["nstate"]):
        sseed = int(rng.integers(0, 2 ** 31))
        if only is not None and k != only:
            continue
        r = np.random.default_rng(sseed)
        try:
            set_state(m, d, I, T, r, c, k)
            L.clear_messages()
            d.forward()
            nontriv = check_state(L, m, d, I, T, r, P, dict(witness0, state=k), do_fd=(k == 0), do_step=True)
        except drv.MjError as e:
            P.count("engine_error_skipped")
            P.count("engine_error:" + str(e).split(":")[0][:40])
            P.case(nontrivial=False)
            d = m.make_data()
            continue
        P.count("states")
        P.case(key="%s|%d" % (name, k), nontrivial=bool(nontriv), sample={"model": name, "nv": I.nv, "nactuator": I.nactuator, "state": k})
    d.free()
    m.free()
    return P.result()


# passive muscle force: XMLreference muscle/fpmax "Passive force generated at lmax, relative to the peak rest force" (and FLV.m:
# 0.25*fpmax*(1+3x), = fpmax at lmax); mju_muscleBias returns fpmax*(0.5+x), = 1.5*fpmax at lmax. Exact signature, no wildcard:
# it is raised only when the engine value equals the half-quadratic/linear alternative formula to 1e-8 relative.
MUSCLE_FP_SIGNATURE = "muscle-passive-force-at-lmax-is-1.5-fpmax-instead-of-documented-fpmax:half-quadratic-passive-curve"

KINDSETS = [None, ["general"], ["position", "intvelocity", "velocity"], ["muscle", "cylinder", "damper"], ["general", "motor", "muscle"]]


def cases(ctx):
    cs = []
    rng = ctx.rng
    n = ctx.pick(210, 4000)
    for i in range(n):
        c = {"mseed": int(rng.integers(0, 2 ** 31)), "seed": int(rng.integers(0, 2 ** 31)), "nstate": ctx.pick(3, 4),
             "kinds": KINDSETS[i % len(KINDSETS)], "pball": [0.15, 0.3, 0.5][i % 3], "pfree": [0.3, 0.6, 0.9][(i // 3) % 3],
             "nbody": [(2, 6), (3, 10), (6, 14)][(i // 2) % 3]}
        if i % 6 == 5:
            c.update(contacts=True, cone=["pyramidal", "elliptic"][(i // 6) % 2], kinds=["motor", "position", "general"])
        cs.append(c)
    return cs


PROBE_TENDON = """<mujoco><worldbody><body><joint name="j" type="hinge"/><geom size="0.1"/></body></worldbody>
<tendon><fixed name="t" actuatorfrcrange="-1 2"><joint joint="j" coef="1"/></fixed></tendon>
<actuator><motor tendon="t"/></actuator></mujoco>"""
PROBE_PID = """<mujoco><worldbody><body><joint name="j" type="hinge"/><geom size="0.1"/></body></worldbody>
<actuator><pid joint="j" kp="10" kv="1" ki="2" imax="1" slewmax="0.5"/></actuator></mujoco>"""


def probes(ctx):
    """two fixed witnesses of documented configurations (compile-time defaults that decide whether a documented clamp / actuator
    exists at all); the random workload sets these attributes explicitly so that the runtime clauses stay exercised"""
    L = drv.Lib("rel")
    # tendon/actuatorfrclimited: 'auto' (the documented default) + compiler autolimits => clamping enabled when the range is defined
    m = L.load_xml_string(PROBE_TENDON)
    d = m.make_data()
    d["ctrl"][:] = 5.0
    d.forward()
    ctx.case("probe:tendon-actuatorfrcrange-auto", nontrivial=True)
    if not (-1 <= float(d["actuator_force"][0]) <= 2):
        ctx.violation("tendon-actuatorfrcrange-not-applied-under-documented-auto-default",
                      {"xml": PROBE_TENDON, "ctrl": 5.0, "actuator_force": float(d["actuator_force"][0]), "actuatorfrcrange": [-1, 2],
                       "tendon_actfrclimited": int(m["tendon_actfrclimited"][0]), "probe": "tendon"})
    # pid with slew limiting and integral action: documented to carry the activation states [slew, integral]
    ctx.case("probe:pid-slew-plus-integral", nontrivial=False)
    try:
        m = L.load_xml_string(PROBE_PID)
        if m.n("na") != 2:
            ctx.count("out_of_scope:documented-pid-slew-plus-integral-does-not-have-two-activation-states")
    except drv.MjError:
        # compilability of a documented configuration is not covered by any clause of the C27 statement: counter only
        ctx.count("out_of_scope:documented-pid-slew-plus-integral-configuration-rejected-by-compiler")


def run(ctx):
    build.ensure("rel")
    probes(ctx)
    ctx.extra["reference_self_test"] = {k: float(v) for k, v in ra.self_test().items()}
    cs = cases(ctx)
    nbatch = 3
    for b in range(nbatch):
        part = cs[b::nbatch]
        res = par.run("vf.props.c27", "worker", part, nproc=16, timeout=ctx.pick(300, 900))
        for c, r in zip(part, res):
            if r is None:
                ctx.inconclusive("worker returned nothing")
            elif "crash" in r:
                ctx.count("worker_crash")
                ctx.inconclusive("worker crashed on mseed %d: %s" % (c["mseed"], r["crash"][-300:]))
            elif "exception" in r:
                ctx.count("harness_exception")
                ctx.inconclusive("harness exception in worker: " + r["exception"] + " " + r.get("trace", "")[-800:])
            else:
                ctx.merge(r)
        if ctx.violations:
            ctx.count("batches_not_run_after_violation", nbatch - 1 - b)
            break
    sk = ctx.counters.get("engine_error_skipped", 0)
    if sk > 0.1 * max(1, ctx.counters.get("states", 0)):
        ctx.inconclusive("too many states skipped on engine errors (%d)" % sk)
    ctx.min_nontrivial = ctx.pick(400, 9000)


def replay(ctx, path):
    rec = json.load(open(path))
    if rec["detail"].get("probe"):
        probes(ctx)
        ctx.min_nontrivial = 0
        return
    c = dict(rec["detail"]["case"])
    c["xml"] = rec["detail"]["xml"]
    if "state" in rec["detail"]:
        c["only_state"] = rec["detail"]["state"]
    ctx.merge(worker(c))
    ctx.min_nontrivial = 0
