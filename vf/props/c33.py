"""C33 Compilation is deterministic and copy-invariant."""
import ctypes as C
import json
import os
import re
import shutil
from pathlib import Path

import numpy as np

from .. import build, common, core, drv, nat, par
from ..gen import corpus, model
from ..mjconst import E
from . import c31

LEVEL = "exploration"
RULE = ("for each model the serialized image (mj_saveModel bytes) and every array of: two compiles of fresh parses of the same "
        "text, run under two different fill patterns of the interposed allocator (0x00 / 0xA5, so uninitialised bytes differ), "
        "a second mj_compile of the same spec, the compile of mj_copySpec(spec), mj_copyModel(m), and compiles with the threaded "
        "asset compiler switched on and off, repeated several times, must be identical; mj_recompile must leave the "
        "physics state of the mjData it is given unchanged (sizes unchanged). Models carry 8-40 visual inline-vertex meshes "
        "and builtin textures so that the asset thread pool has real tasks. A native harness repeats threaded compiles under "
        "ThreadSanitizer and ASan (any report is a violation) and compares digests. distinct = (model, relation)")
ASSUMPTIONS = ["meshes are visual only (collision meshes need qhull, absent here); file-based assets are out of reach",
               "mj_recompile with changed sizes maps state by name - only the unchanged-size case is checked",
               "TSan sees only the interleavings of the compiler pool that occurred"]


def mesh_xml(rng, nmesh, ntex, usethread=None):
    out = ['<mujoco><compiler %s/><asset>' % ('' if usethread is None else 'usethread="%s"' % ("true" if usethread else "false"))]
    for i in range(nmesh):
        n = int(rng.integers(6, 30))
        pts = rng.normal(size=(n, 3))
        pts /= np.linalg.norm(pts, axis=1, keepdims=True)
        pts *= rng.uniform(0.05, 0.3)
        # star-shaped triangulation around the centroid is not needed: faces from a fan over sorted azimuth of an octahedron-ish set
        # keep it simple and valid: a tetrahedral fan over the first 4 points plus extra vertices unused by faces
        out.append('<mesh name="m%d" vertex="%s" face="0 2 1 0 1 3 0 3 2 1 2 3" scale="%s"/>' % (
            i, " ".join(repr(float(x)) for x in pts.ravel()), " ".join(repr(float(x)) for x in rng.uniform(0.5, 2, size=3))))
    for i in range(ntex):
        out.append('<texture name="t%d" type="2d" builtin="%s" width="%d" height="%d" rgb1="%s" rgb2="%s" mark="%s"/><material name="mat%d" texture="t%d"/>' % (
            i, ["checker", "gradient", "flat"][i % 3], int(rng.choice([32, 64, 128])), int(rng.choice([32, 64, 128])),
            " ".join("%.3f" % x for x in rng.random(3)), " ".join("%.3f" % x for x in rng.random(3)), ["none", "edge", "cross", "random"][i % 4], i, i))
    out.append('</asset><worldbody>')
    for i in range(nmesh):
        out.append('<body pos="%s"><joint type="%s"/><geom type="mesh" mesh="m%d" contype="0" conaffinity="0" mass="%s"%s/><geom size="0.05" pos="0 0 0.2"/></body>' % (
            " ".join(repr(float(x)) for x in rng.normal(size=3)), ["hinge", "slide", "ball", "free"][i % 4], i, repr(float(rng.uniform(0.1, 3))),
            (' material="mat%d"' % (i % ntex)) if ntex else ""))
    out.append('</worldbody></mujoco>')
    return "".join(out)


def lengthrange_xml(rng, usethread=None):
    """actuators whose length range the compiler has to compute by simulation (muscles, and everything with lengthrange mode 'all'),
    mixed in random order with actuators that need none: with usethread the per-actuator jobs are spread over the compiler's thread
    pool (mjCModel::LengthRange), so the result must not depend on the pool, on the job partition or on the actuator order"""
    nj = int(rng.integers(3, 9))
    kinds = [str(rng.choice(["muscle", "motor", "position", "muscle", "velocity", "tendon-muscle"])) for _ in range(int(rng.integers(3, 14)))]
    if sum(k.endswith("muscle") for k in kinds) < 2:
        kinds += ["muscle", "muscle"]
    rng.shuffle(kinds)
    mode = str(rng.choice(["muscle", "muscle", "muscleuser", "all"]))
    out = ['<mujoco><compiler %s><lengthrange mode="%s" useexisting="false" %s/></compiler><worldbody>' % (
        '' if usethread is None else 'usethread="%s"' % ("true" if usethread else "false"), mode,
        'inttotal="%s" tolrange="%s"' % (repr(float(rng.choice([5.0, 10.0, 20.0]))), repr(float(rng.choice([0.2, 0.5])))))]
    depth = 0
    for j in range(nj):
        new_chain = j == 0 or rng.random() < 0.35
        if new_chain:
            out.append('</body>' * depth)
            depth = 0
        out.append('<body pos="%s"><joint name="j%d" type="%s" axis="%s" range="%s" limited="true" damping="%s"/><geom type="capsule" size="0.03" fromto="0 0 0 0.2 0 0" mass="%s"/><site name="s%d" pos="0.1 0 0.04"/>' % (
            "0.2 0 0" if depth else "%s 0 1" % repr(0.5 * j), j, str(rng.choice(["hinge", "hinge", "slide"])), " ".join(repr(float(x)) for x in rng.normal(size=3)),
            "%s %s" % (repr(float(-rng.uniform(0.2, 1.2))), repr(float(rng.uniform(0.2, 1.2)))), repr(float(rng.uniform(0.1, 2))), repr(float(rng.uniform(0.2, 2))), j))
        depth += 1
    out.append('</body>' * depth)
    out.append('</worldbody><tendon>')
    nt = int(rng.integers(1, 4))
    for t in range(nt):
        a, b = int(rng.integers(0, nj)), int(rng.integers(0, nj))
        out.append('<fixed name="t%d"><joint joint="j%d" coef="%s"/>%s</fixed>' % (t, a, repr(float(rng.choice([-1, 1]) * rng.uniform(0.3, 2))),
                                                                                   '' if a == b else '<joint joint="j%d" coef="%s"/>' % (b, repr(float(rng.uniform(0.3, 2))))))
    out.append('</tendon><actuator>')
    for i, k in enumerate(kinds):
        j = int(rng.integers(0, nj))
        if k == "muscle":
            out.append('<muscle name="a%d" joint="j%d" range="%s" force="%s"/>' % (i, j, "0.75 1.05" if rng.random() < 0.5 else "0.6 1.2", repr(float(rng.uniform(5, 50)))))
        elif k == "tendon-muscle":
            out.append('<muscle name="a%d" tendon="t%d" scale="%s"/>' % (i, int(rng.integers(0, nt)), repr(float(rng.uniform(100, 400)))))
        elif k == "motor":
            out.append('<motor name="a%d" joint="j%d" gear="%s"/>' % (i, j, repr(float(rng.uniform(0.5, 3)))))
        elif k == "position":
            out.append('<position name="a%d" joint="j%d" kp="%s"/>' % (i, j, repr(float(rng.uniform(1, 20)))))
        else:
            out.append('<velocity name="a%d" joint="j%d" kv="%s"/>' % (i, j, repr(float(rng.uniform(0.1, 3)))))
    out.append('</actuator></mujoco>')
    return "".join(out)


def write_msh(path, rng):
    """legacy binary MSH: ints nvertex, nnormal, ntexcoord, nface; float vertex[3nv]; int face[3nf]. A non-convex closed surface
    (two boxes of different size sharing no volume), so that the legacy / exact / shell inertia modes give different numbers."""
    def box(lo, hi, off):
        x0, y0, z0 = lo
        x1, y1, z1 = hi
        v = [(x0, y0, z0), (x1, y0, z0), (x1, y1, z0), (x0, y1, z0), (x0, y0, z1), (x1, y0, z1), (x1, y1, z1), (x0, y1, z1)]
        f = [(0, 2, 1), (0, 3, 2), (4, 5, 6), (4, 6, 7), (0, 1, 5), (0, 5, 4), (1, 2, 6), (1, 6, 5), (2, 3, 7), (2, 7, 6), (3, 0, 4), (3, 4, 7)]
        return v, [(a + off, b + off, c_ + off) for a, b, c_ in f]
    a = rng.uniform(0.05, 0.2, size=3)
    b = rng.uniform(0.03, 0.12, size=3)
    shift = np.array([a[0] + rng.uniform(0.02, 0.1), rng.uniform(-0.05, 0.05), rng.uniform(-0.05, 0.05)])
    v1, f1 = box(-a, a, 0)
    v2, f2 = box(shift, shift + 2 * b, 8)
    V = np.array(v1 + v2, dtype=np.float32)
    F = np.array(f1 + f2, dtype=np.int32)
    with open(path, "wb") as fh:
        fh.write(np.array([len(V), 0, 0, len(F)], dtype=np.int32).tobytes())
        fh.write(V.tobytes())
        fh.write(F.tobytes())


def meshfile_xml(rng, files, usethread=None, flavour=0):
    """several mesh assets over a few MSH files, the same file under different inertia modes (the global asset cache stores a mesh
    together with the mode it was processed with); visual-only geoms (no convex hull needed); 'flavour' varies which modes come first"""
    modes = ["", ' inertia="exact"', ' inertia="shell"', ' inertia="legacy"']
    out = ['<mujoco><compiler %s/><asset>' % ('' if usethread is None else 'usethread="%s"' % ("true" if usethread else "false"))]
    k = 0
    order = list(range(len(files)))
    rng.shuffle(order)
    for fi in order:
        ms = [modes[int(x)] for x in rng.permutation(4)[: int(rng.integers(1, 4))]]
        if flavour == 1:
            ms = [x for x in ms if x] or [' inertia="exact"']          # a spec that only ever asks for non-default modes
        for md in ms:
            out.append('<mesh name="fm%d" file="%s"%s scale="%s"/>' % (k, files[fi], md, "1 1 1" if rng.random() < 0.7 else "1 2 1"))
            k += 1
    out.append('</asset><worldbody>')
    for i in range(k):
        out.append('<body pos="%d 0 1"><joint type="%s"/><geom type="mesh" mesh="fm%d" contype="0" conaffinity="0" density="%s"/></body>' % (
            i, ["hinge", "free", "ball", "slide"][i % 4], i, repr(float(rng.uniform(200, 2000)))))
    out.append('</worldbody></mujoco>')
    return "".join(out)


def _meshfiles(c):
    d = Path(core.OUT) / "c33-msh" / ("%d-%d" % (os.getpid(), c["mseed"]))
    d.mkdir(parents=True, exist_ok=True)
    rng = np.random.default_rng(c["mseed"] + 17)
    files = []
    for i in range(c.get("nfile", 3)):
        f = d / ("m%d.msh" % i)
        if not f.exists():
            write_msh(f, rng)
        files.append(str(f))
    return files


def _xml(c, usethread=None):
    rng = np.random.default_rng(c["mseed"])
    if c["kind"] == "meshfile":
        return meshfile_xml(rng, _meshfiles(c), usethread)
    if c["kind"] == "mesh":
        return mesh_xml(rng, c["nmesh"], c["ntex"], usethread)
    if c["kind"] == "lengthrange":
        return lengthrange_xml(rng, usethread)
    if c["kind"] == "corpus":
        return None
    xml, _ = model.gen_profile(rng, c["profile"])
    if usethread is not None:
        xml = xml.replace('<compiler ', '<compiler usethread="%s" ' % ("true" if usethread else "false"), 1)
    return xml


def _img(L, m):
    sz, img, err = c31._save(L, m)
    return img.tobytes()


def worker(c):
    P = core.Part()
    L = drv.Lib("rel")
    lib = L.lib
    name = c.get("path") or "%s:%d" % (c["kind"], c["mseed"])

    def compile_text(xml, fill):
        lib.vf_alloc_install(fill)
        spec = L.parse_xml_string(xml)
        m = L.compile(spec)
        return spec, m

    def load(fill, usethread=None):
        if c["kind"] == "corpus":
            lib.vf_alloc_install(fill)
            return None, L.load_xml(str(build.REPO / c["path"]))
        return compile_text(_xml(c, usethread), fill)

    try:
        spec0, m0 = load(0x00)
    except drv.MjError:
        P.count("model_rejected")
        return P.result()
    ref = _img(L, m0)

    def rel(tag, m):
        img = _img(L, m)
        same = img == ref
        P.case("%s|%s" % (name, tag), nontrivial=True, sample={"model": name, "relation": tag, "image_bytes": len(ref)} if tag == "fill-A5" else None)
        P.count("relation:" + tag)
        if not same:
            diff = c31._model_equal(m0, m) or "image bytes differ but all arrays equal (struct padding / header)"
            P.violation("compiled-model-differs:%s:%s" % (tag, diff.split(":")[0].split(" ")[0]), {"model": name, "case": c, "relation": tag, "diff": diff})

    try:
        if c["kind"] == "meshfile":
            # another spec over the same files with other inertia modes is compiled in between: what an earlier compile left in the
            # process-wide asset cache must not change this spec's model
            cache = L.call("mj_getCache", ret="ptr")
            cap = L.call("mj_getCacheCapacity", cache, ret="i64")
            for fl in (1, 0, 1):
                try:
                    # empty the process-wide cache (capacity 0 evicts everything), let ANOTHER spec over the same files populate it
                    # first (an entry is not replaced while the file's timestamp is unchanged), then compile this spec again
                    L.call("mj_setCacheCapacity", cache, 0, ret="i64")
                    L.call("mj_setCacheCapacity", cache, int(cap), ret="i64")
                    so, mo = compile_text(meshfile_xml(np.random.default_rng(c["mseed"] + 101 + 7 * fl + len(P.counters)), _meshfiles(c), None, flavour=fl), 0x77)
                    mo.free()
                    so.free()
                    P.count("other_spec_over_same_mesh_files_compiled")
                    sx, mx = load(0x11)
                    rel("after-another-spec-populated-the-asset-cache", mx)
                    mx.free()
                    sx.free()
                except drv.MjError:
                    P.count("other_spec_rejected")
        for r in range(c["repeats"]):
            s1, m1 = load(0xA5 if r % 2 == 0 else 0x3C)
            rel("fill-A5", m1)
            if s1 is not None:
                m1b = L.compile(s1)
                rel("second-compile-of-same-spec", m1b)
                m1b.free()
                s2p = L.call("mj_copySpec", s1, ret="ptr")
                if s2p:
                    s2 = drv.Handle(L, s2p, "mj_deleteSpec")
                    m2 = L.compile(s2)
                    rel("compile-of-copySpec", m2)
                    m2.free()
                    s2.free()
                s1.free()
            p = L.call("mj_copyModel", None, m1, ret="ptr")
            mc = drv.Model(L, p)
            rel("copyModel", mc)
            mc.free()
            m1.free()
            if c["kind"] != "corpus":
                for ut in (True, False):
                    s3, m3 = load(0x5A, usethread=ut)
                    rel("usethread-%s" % ("on" if ut else "off"), m3)
                    m3.free()
                    s3.free()
        # mj_recompile preserves the state (sizes unchanged)
        if spec0 is not None:
            d = m0.make_data()
            rng = np.random.default_rng(c["seed"])
            common.random_state(rng, m0, d)
            common.random_controls(rng, m0, d)
            d.set_s("time", 1.25)
            sig = E.mjSTATE_TIME | E.mjSTATE_QPOS | E.mjSTATE_QVEL | E.mjSTATE_ACT | E.mjSTATE_CTRL | E.mjSTATE_MOCAP_POS | E.mjSTATE_MOCAP_QUAT
            before = d.get_state(sig)
            rc = L.call("mj_recompile", spec0, None, m0, d)
            if rc != 0:
                P.violation("recompile-of-unchanged-spec-failed", {"model": name, "case": c})
                m0._own = False
                d._own = False
            else:
                m0._sizes = None
                m0._fields = None
                d._fields = None
                after = d.get_state(sig)
                P.case("%s|recompile" % name, nontrivial=m0.n("nv") > 0)
                P.count("relation:recompile-preserves-state")
                if before.shape != after.shape or before.tobytes() != after.tobytes():
                    i = int(np.flatnonzero(before != after)[0]) if before.shape == after.shape else -1
                    P.violation("recompile-changed-state", {"model": name, "case": c, "index": i})
                if _img(L, m0) != ref:
                    P.violation("compiled-model-differs:recompile", {"model": name, "case": c})
                d.free()
    except drv.MjError as e:
        P.count("engine_error:" + str(e).split(":")[0][:40])
    lib.vf_alloc_install(0x00)
    return P.result()


def run(ctx):
    rng = ctx.rng
    cs = []
    for i in range(ctx.pick(16, 200)):
        cs.append({"kind": "mesh", "mseed": int(rng.integers(0, 2 ** 31)), "seed": int(rng.integers(0, 2 ** 31)), "nmesh": int(rng.integers(8, 41)),
                   "ntex": int(rng.integers(0, 6)), "repeats": ctx.pick(3, 10)})
    for i in range(ctx.pick(16, 200)):
        cs.append({"kind": "meshfile", "mseed": int(rng.integers(0, 2 ** 31)), "seed": int(rng.integers(0, 2 ** 31)), "nfile": int(rng.integers(1, 4)),
                   "repeats": ctx.pick(2, 5)})
    for i in range(ctx.pick(24, 300)):
        cs.append({"kind": "lengthrange", "mseed": int(rng.integers(0, 2 ** 31)), "seed": int(rng.integers(0, 2 ** 31)), "repeats": ctx.pick(2, 5)})
    for i in range(ctx.pick(40, 600)):
        cs.append({"kind": "gen", "profile": ["rich", "contact", "smooth"][i % 3], "mseed": int(rng.integers(0, 2 ** 31)), "seed": int(rng.integers(0, 2 ** 31)),
                   "repeats": ctx.pick(2, 5)})
    corp = corpus.loadable()
    idx = rng.permutation(len(corp))
    for i in idx[: ctx.pick(40, len(corp))]:
        if corp[int(i)]["nv"] < 1500:
            cs.append({"kind": "corpus", "path": corp[int(i)]["path"], "mseed": 0, "seed": int(rng.integers(0, 2 ** 31)), "repeats": ctx.pick(2, 4)})
    res = par.run("vf.props.c33", "worker", cs, nproc=12, timeout=ctx.pick(600, 1800))
    for c, r in zip(cs, res):
        if r is None:
            ctx.inconclusive("worker returned nothing")
        elif "crash" in r:
            if r.get("rc") == "timeout":
                ctx.inconclusive("watchdog fired for %s" % c)
            else:
                ctx.violation("crash-while-compiling-or-copying", {"case": c, "rc": r.get("rc"), "stderr": r["crash"][-2000:]})
        elif "exception" in r:
            ctx.inconclusive("harness exception: " + r["exception"] + r.get("trace", "")[-500:])
        else:
            ctx.merge(r)
    shutil.rmtree(Path(core.OUT) / "c33-msh", ignore_errors=True)
    # sanitizer part
    tmp = Path(core.OUT) / ("c33-%d" % os.getpid())
    tmp.mkdir(parents=True, exist_ok=True)
    try:
        exes = {f: build.exe(f, "h_compile", ["h_compile.cc"]) for f in ("tsan", "asan")}
        jobs = []
        for i in range(ctx.pick(6, 40)):
            c = {"kind": "mesh", "mseed": int(rng.integers(0, 2 ** 31)), "nmesh": int(rng.integers(12, 41)), "ntex": int(rng.integers(2, 6))}
            f = tmp / ("m%d.xml" % i)
            f.write_text(_xml(c, True))
            for fl in ("tsan", "asan"):
                jobs.append((fl, str(f), c))

        def go(j):
            fl, f, c = j
            return j, nat.run_exe(exes[fl], [f, ctx.pick(6, 20)], fl, timeout=ctx.pick(600, 1800), leaks=(fl == "asan"))

        dig = {}
        for (fl, f, c), res in nat.pmap(go, jobs, nthreads=8):
            detail = {"flavour": fl, "scene": c}
            if res["timed_out"]:
                ctx.inconclusive("watchdog fired: %s" % detail)
                continue
            for k, sig, text in res["reports"]:
                ctx.violation(("data-race:" if "Thread" in k else "sanitizer:") + sig, dict(detail, report=text))
            m = re.search(r"SUMMARY digest=(\w+) repeats=(\d+) differing=(\d+)", res["out"])
            if not m:
                if not res["reports"]:
                    ctx.violation("crash-while-compiling-or-copying:native", dict(detail, rc=res["rc"], stderr=res["err"][-1500:]))
                continue
            ctx.case("native|%s|%d" % (fl, c["mseed"]), nontrivial=True, sample=dict(detail, digest=m.group(1)))
            ctx.count("native_threaded_compiles_" + fl, int(m.group(2)))
            if int(m.group(3)):
                ctx.violation("compiled-model-differs:threaded-repeat", dict(detail, out=res["out"][-300:]))
    finally:
        shutil.rmtree(tmp, ignore_errors=True)
    ctx.min_nontrivial = ctx.pick(300, 4000)


def replay(ctx, path):
    rec = json.load(open(path))
    if "case" in rec["detail"]:
        ctx.merge(worker(rec["detail"]["case"]))
    ctx.min_nontrivial = 1
