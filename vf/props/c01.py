"""C01 Simulation is a deterministic function of the integration state."""
import os
import json

import numpy as np

from .. import build, common, core, drv, par
from ..gen import corpus, model
from ..mjconst import E

LEVEL = "exploration"
RULE = ("twin-data history checker: a source mjData is driven by a random call history; twins are made by mj_copyData, "
        "mj_setState/mj_copyState(mjSTATE_INTEGRATION) into fresh / reset / previously-used mjData, or by replaying the "
        "recorded history; the same call (forward | inverse | step x n | step1+step2) is applied to both and every "
        "deterministic output (all mjData arrays incl. arena, contacts by field, solver statistics) is compared bit for "
        "bit. distinct = (model, option vector, twin kind, call kind); non-trivial = nv>0 and the compared call ran")
ASSUMPTIONS = [
    "with sleeping enabled only mj_copyData and replay twins are compared (doc: 'Compact state' - state get/set does not carry the latent per-island state)",
    "memory the engine allocates but does not define (struct padding, over-allocated arena tails, stale solver-stat slots, island-solver scratch, plugin_data pointers) is not an output",
    "user callbacks unset; first-party plugins only",
]

TWINS = ["copy", "set_fresh", "set_reset", "set_used", "copystate_used", "replay"]
CALLS = ["forward", "inverse", "step", "step1step2", "forward_forward"]


def _load(L, c):
    if c["kind"] == "corpus":
        return L.load_xml(str(build.REPO / c["path"]))
    rng = np.random.default_rng(c["mseed"])
    xml, tags = model.gen_profile(rng, c["profile"])
    c["_xml"] = xml
    return L.load_xml_string(xml)


def _apply_call(L, m, d, call, n):
    if call == "forward":
        d.forward()
    elif call == "inverse":
        d.forward()
        if os.environ.get("VF_C01_DEBUG"):
            print("C01-DEBUG nefc after forward", d.s("nefc"), flush=True)
        d.inverse()
        if os.environ.get("VF_C01_DEBUG"):
            print("C01-DEBUG nefc after inverse", d.s("nefc"), flush=True)
    elif call == "step":
        d.step(n)
    elif call == "step1step2":
        L.call("mj_step1", m, d, ret=None)
        L.call("mj_step2", m, d, ret=None)
    elif call == "forward_forward":
        d.forward()
        d.forward()


def _history(rng, m, nops):
    """A list of ops; each op is replayable from its recorded values only."""
    ops = []
    for _ in range(nops):
        r = rng.random()
        if r < 0.45:
            ops.append(("step", int(rng.integers(1, 6))))
        elif r < 0.7:
            ops.append(("inputs", int(rng.integers(0, 2 ** 31))))
        elif r < 0.8:
            ops.append(("forward",))
        elif r < 0.85:
            ops.append(("inverse",))
        elif r < 0.9 and m.n("nkey"):
            ops.append(("key", int(rng.integers(0, m.n("nkey")))))
        elif r < 0.93:
            ops.append(("reset",))
        else:
            ops.append(("state", int(rng.integers(0, 2 ** 31))))
    return ops


def _run_ops(L, m, d, ops):
    for op in ops:
        if op[0] == "step":
            d.step(op[1])
        elif op[0] == "inputs":
            common.random_controls(np.random.default_rng(op[1]), m, d)
        elif op[0] == "forward":
            d.forward()
        elif op[0] == "inverse":
            d.inverse()
        elif op[0] == "key":
            L.call("mj_resetDataKeyframe", m, d, op[1], ret=None)
        elif op[0] == "reset":
            d.reset()
        elif op[0] == "state":
            common.random_state(np.random.default_rng(op[1]), m, d, vel_scale=0.5)


def worker(c):
    P = core.Part()
    L = drv.Lib("rel")
    INT = E.mjSTATE_INTEGRATION
    try:
        m = _load(L, c)
    except drv.MjError as e:
        P.count("model_rejected")
        return P.result()
    rng = np.random.default_rng(c["seed"])
    opts = {}
    if c.get("randopt"):
        opts = common.random_options(rng, m, sleep=c.get("sleep_ok", False))
    sleep = bool(int(m.opt["enableflags"]) & E.mjENBL_SLEEP)
    if sleep and m.opt["integrator"] == E.mjINT_RK4:
        m.opt["integrator"] = E.mjINT_EULER
        opts["integrator"] = "mjINT_EULER(rk4+sleep unsupported)"
    name = c.get("path") or ("gen:%s:%d" % (c["profile"], c["mseed"]))
    optkey = json.dumps(opts, sort_keys=True)
    nv = m.n("nv")
    for t in range(c["ntwin"]):
        twin = TWINS[int(rng.integers(0, len(TWINS)))]
        call = CALLS[int(rng.integers(0, len(CALLS)))]
        nstep = int(rng.integers(1, 5))
        if sleep and twin not in ("copy", "replay"):
            twin = "copy" if rng.random() < 0.5 else "replay"
        ops = _history(rng, m, int(rng.integers(1, 8)))
        if sleep and rng.random() < 0.5 and nv < 300:
            ops = [("step", int(rng.integers(200, 1200)))] + ops
        witness = {"model": name, "xml": c.get("_xml"), "options": opts, "twin": twin, "call": call, "nstep": nstep,
                   "ops": ops, "case": {k: v for k, v in c.items() if not k.startswith("_")}}
        try:
            d0 = m.make_data()
            _run_ops(L, m, d0, ops)
            if not (np.isfinite(d0["qpos"]).all() and np.isfinite(d0["qvel"]).all() and np.isfinite(d0["act"]).all()):
                # the history diverged: the integration state is not a state any more (blow-ups are C30's subject; with a NaN tendon
                # length mj_tendon e.g. leaves wrap_obj slots of a counted wrap undefined, which only a non-finite state can reach)
                P.count("skipped_nonfinite_state_after_history")
                P.case(nontrivial=False)
                d0.free()
                continue
            if twin == "copy":
                d1 = d0.copy()
            elif twin == "replay":
                d1 = m.make_data()
                _run_ops(L, m, d1, ops)
            else:
                s = d0.get_state(INT)
                d1 = m.make_data()
                if twin in ("set_reset", "set_used", "copystate_used"):
                    r2 = np.random.default_rng(int(rng.integers(0, 2 ** 31)))
                    try:
                        common.random_state(r2, m, d1)
                        common.random_controls(r2, m, d1, scale=2.0)
                        d1.step(int(r2.integers(1, 25)))
                    except drv.MjError:
                        d1.reset()
                    if twin == "set_reset":
                        d1.reset()
                if twin == "copystate_used":
                    L.call("mj_copyState", m, d0, d1, INT, ret=None)
                else:
                    d1.set_state(s, INT)
            _apply_call(L, m, d0, call, nstep)
            _apply_call(L, m, d1, call, nstep)
        except drv.MjError as e:
            P.count("engine_error_skipped")
            P.count("engine_error:" + str(e).split(":")[0][:40])
            P.case(nontrivial=False)
            continue
        inc = []
        if call == "inverse":
            inc.append("qfrc_inverse")
        if call in ("step", "step1step2") and m.opt["integrator"] in (E.mjINT_IMPLICIT, E.mjINT_IMPLICITFAST):
            inc += ["qDeriv", "qLU"]
        o0, o1 = common.outputs(d0, include=inc), common.outputs(d1, include=inc)
        # efc_b (= J*qacc_smooth - aref) is written by mj_fwdConstraint only; mj_inverse re-allocates it with the other efc arrays but
        # never defines it, so after an inverse call whose constraint set differs from the preceding forward's (sleeping trees are
        # ignored by mj_inverse) it is engine-undefined arena memory, not an output
        fd = common.first_diff(o0, o1, skip=("arena.efc_b",) if call == "inverse" else ())
        nontriv = nv > 0
        P.case(key="%s|%s|%s|%s" % (name, optkey, twin, call), nontrivial=nontriv,
               sample={"model": name, "options": opts, "twin": twin, "call": call, "ops": ops[:4], "nefc": d0.s("nefc"), "ncon": d0.s("ncon")})
        P.count("twin_" + twin)
        P.count("call_" + call)
        if d0.s("nefc") > 0:
            P.count("with_constraints")
        if d0.s("nisland") > 1:
            P.count("multi_island")
        if sleep:
            P.count("sleep_enabled")
            if (d0["tree_asleep"] >= 0).any():
                P.count("sleep_some_tree_asleep")
        if fd is not None:
            witness["diff"] = fd
            fld = fd["field"].split("[")[0]
            P.violation("twin-differs:%s:%s" % (twin, "state" if fld in ("qpos", "qvel", "act", "s.time") else "output"), witness)
        d0.free()
        d1.free()
    m.free()
    return P.result()


def cases(ctx):
    cs = []
    rng = ctx.rng
    corp = corpus.loadable()
    ncorp = ctx.pick(len(corp), len(corp) * 4)
    idx = rng.permutation(len(corp))
    for i in range(ncorp):
        c = corp[int(idx[i % len(corp)])]
        if c["nv"] > 400 and ctx.quick:
            continue
        cs.append({"kind": "corpus", "path": c["path"], "seed": int(rng.integers(0, 2 ** 31)), "randopt": i % 3 != 0,
                   "sleep_ok": c["nflex"] == 0, "ntwin": ctx.pick(4, 10)})
    ngen = ctx.pick(600, 6000)
    for i in range(ngen):
        prof = ["rich", "contact", "smooth"][i % 3]
        cs.append({"kind": "gen", "profile": prof, "mseed": int(rng.integers(0, 2 ** 31)), "seed": int(rng.integers(0, 2 ** 31)),
                   "randopt": True, "sleep_ok": True, "ntwin": ctx.pick(5, 12)})
    return cs


def run(ctx):
    build.ensure("rel")
    cs = cases(ctx)
    res = par.run("vf.props.c01", "worker", cs, nproc=16, timeout=ctx.pick(300, 900))
    for c, r in zip(cs, res):
        if r is None:
            ctx.inconclusive("worker returned nothing")
        elif "crash" in r:
            ctx.count("worker_crash")
            ctx.violation("crash-during-twin-run", {"case": c, "stderr": r["crash"][-1500:], "rc": r.get("rc")})
        elif "exception" in r:
            ctx.count("harness_exception")
            ctx.inconclusive("harness exception in worker: " + r["exception"])
        else:
            ctx.merge(r)
    ctx.min_nontrivial = ctx.pick(1500, 20000)


def replay(ctx, path):
    rec = json.load(open(path))
    c = rec["detail"]["case"]
    c["ntwin"] = max(c.get("ntwin", 4), 4)
    r = worker(c)
    ctx.merge(r)
    ctx.min_nontrivial = 1
