"""C22 Sorting and selection utilities are correct and stable."""
import json
import re

from .. import build, nat

LEVEL = "exploration"
RULE = ("native harness instantiating the tree's mjSORT/mjPARTIAL_SORT macros (run size 32 as shipped, and the same "
        "macro bodies expanded with run sizes 2 and 3 so that exhaustively enumerated short arrays reach the merge "
        "logic) plus mju_insertionSort/Int, under ASan+UBSan with exact-size heap buffers; oracle = 10-line stable "
        "insertion sort on (key,tag). distinct = distinct array lengths exercised (exhaustive part: every array over "
        "keys {0,1,2} up to the stated length, every k); non-trivial = length >= 2")
ASSUMPTIONS = ["the comparison callback is a strict weak order (as in all engine uses)",
               "mjPARTIAL_SORT with k<=0 or n<k is a documented no-op"]


def _parse(res):
    m = re.search(r"SUMMARY evaluations=(\d+) failures=(\d+) distinct_lengths=(\d+) comparisons=(\d+)", res["out"])
    fails = [l for l in res["out"].splitlines() if l.startswith("FAIL ")]
    return m, fails


def run(ctx):
    exe = build.exe("asan", "h_sort", ["h_sort.c"])
    maxlen = ctx.pick(8, 10)
    jobs = [("exhaustive", [str(maxlen)])]
    nrand = ctx.pick(16, 64)
    per = ctx.pick(600, 4000)
    for i in range(nrand):
        jobs.append(("random", [str(ctx.seed * 1000 + i + 1), str(per), str(ctx.pick(3000, 20000))]))
    results = nat.pmap(lambda j: (j, nat.run_exe(exe, [j[0]] + j[1], "asan", timeout=ctx.pick(600, 3000))), jobs)
    lens = 0
    for (mode, args), res in results:
        m, fails = _parse(res)
        if res["timed_out"]:
            ctx.inconclusive("harness timed out: %s %s" % (mode, args))
            continue
        for kind, sig, text in res["reports"]:
            ctx.violation("sanitizer:" + sig, {"mode": mode, "args": args, "report": text})
        for f in fails:
            kind = re.search(r"kind=(\S+)", f).group(1)
            ctx.violation("wrong-output:" + kind, {"mode": mode, "args": args, "witness": f,
                                                  "replay_args": _replay_args(f)})
        if m is None:
            if not res["reports"]:
                ctx.violation("harness-crash", {"mode": mode, "args": args, "rc": res["rc"], "stderr": res["err"][-2000:]})
            continue
        ev, nf, nl, nc = map(int, m.groups())
        ctx.count("comparisons", nc)
        ctx.count(mode + "_evaluations", ev)
        lens = max(lens, nl)
        ctx.case(key=None, nontrivial=False, n=ev)
        if res["rc"] not in (0, 1):
            ctx.violation("harness-exit", {"mode": mode, "args": args, "rc": res["rc"], "stderr": res["err"][-2000:]})
    for i in range(2, lens + 2):
        ctx.distinct.add("len-class-%d" % i)
    ctx.samples.append({"exhaustive": "all arrays over keys {0,1,2} of length 0..%d, every k in -1..n+1, sort with run sizes 32/2/3" % maxlen,
                        "example": {"keys": [2, 0, 1, 0, 2], "expected_tags": [1, 3, 2, 0, 4]}})
    ctx.samples.append({"random": "seeds %d..%d x %d arrays, patterns random/sorted/reversed/equal/saw-tooth/interleaved/half-sorted, lengths at 2^n+-1" % (ctx.seed * 1000 + 1, ctx.seed * 1000 + nrand, per)})
    ctx.extra["exhaustive_part"] = {"max_length": maxlen, "keys": 3, "complete": True}
    ctx.min_nontrivial = 50


def _replay_args(f):
    m = re.search(r"n=(\d+) k=(-?\d+) keys=(\S*)", f)
    if not m:
        return None
    n, k, keys = m.groups()
    return ["replay", k, n] + [x for x in keys.split(",") if x != ""]


def replay(ctx, path):
    rec = json.load(open(path))
    exe = build.exe("asan", "h_sort", ["h_sort.c"])
    args = rec["detail"].get("replay_args") or [rec["detail"]["mode"]] + rec["detail"]["args"]
    res = nat.run_exe(exe, args, "asan")
    print(res["out"][-2000:], res["err"][-2000:])
    m, fails = _parse(res)
    for f in fails:
        ctx.violation("wrong-output:" + re.search(r"kind=(\S+)", f).group(1), {"witness": f})
    for kind, sig, text in res["reports"]:
        ctx.violation("sanitizer:" + sig, {"report": text})
    ctx.case("replay", sample=args[:20])
    ctx.min_nontrivial = 1
