"""C35 Compiled mass properties match the geometry."""
import json
import math

import numpy as np

from .. import build, core, drv, par
from ..ref import inertia_geom as ig
from ..ref import so3

LEVEL = "exploration"
RULE = ("reference-model oracle: generated MJCF models (6-10 bodies, 0-6 geoms per body; all five primitive types, solid and "
        "shellinertia, size via size/fromto, pose via pos + quat|axisangle|euler(any eulerseq)|xyaxes|zaxis in degrees or "
        "radians, optionally inside a <frame>; density | mass | mass=0 | density=0; geom groups against inertiagrouprange; "
        "inertiafromgeom auto|true|false with explicit <inertial> as diaginertia+orientation or fullinertia; boundmass, "
        "boundinertia, balanceinertia, settotalmass; three length scales) are compiled and body_mass, body_ipos and the full "
        "tensor R(body_iquat) diag(body_inertia) R^T are compared with vf/ref/inertia_geom.py (analytic volume/area, centroid "
        "and moments, rotated and summed about the common centre of mass with the parallel-axis theorem, then the documented "
        "bound/balance/settotalmass rules). Mesh clause: every primitive is tessellated at three resolutions as an inline "
        "vertex+face mesh (inertia exact|legacy|shell, random mesh-local offset/rotation/scale, optionally next to a primitive "
        "geom) and compared (a) with the exact polyhedron integrals of the float32 vertices and (b) with the primitive: the error "
        "must fall by ~4x per doubling of the resolution. Reject clause: inertials violating A+B>=C without balanceinertia, "
        "non-positive-definite fullinertia and negative mass must fail to compile. distinct = (case kind, model seed, body); "
        "non-trivial = the body has positive reference mass")
ASSUMPTIONS = [
    "tensor tolerance 5e-6*|I| (2e-5 for meshes, which pass through two decompositions): the compiler's Jacobi eigensolver stops "
    "at a rotation with 1-cos < 1e-12, i.e. ~1.4e-6 rad (doc XMLreference fullinertia / mesh processing: 'Use eigenvalue "
    "decomposition to find the principal axes'); mass 1e-11 relative, centre of mass 1e-11 * body extent (1e-9 for meshes); the "
    "largest observed errors are reported as counters",
    "inline meshes are stored in float32 by the compiler, so the polyhedron reference is evaluated on the float32-rounded "
    "vertices and compared at 2e-5 relative; mesh geoms are non-colliding (contype=conaffinity=0) because the convex hull "
    "(qhull) is absent in this build; inertia='convex' is out of reach for the same reason",
    "geoms with mass=0 or density=0 and geoms outside inertiagrouprange do not contribute (doc geom/mass, geom/density, "
    "compiler/inertiagrouprange); a body with no contributing geom and no <inertial> has zero mass and inertia before the "
    "bound* rules and its centre of mass is not compared (not determined by geometry)",
    "boundmass/boundinertia clamp the mass and each principal moment from below, balanceinertia replaces the three principal "
    "moments by their mean when A+B<C, settotalmass rescales all masses and inertias last (doc XMLreference compiler)",
    "inertiafromgeom='true' with an <inertial> element and no contributing geom is not generated (the documentation does not "
    "say which of the two rules wins)",
    "the ellipsoidal shell has no closed form; the reference integrates the surface element numerically (uniform surface "
    "density as documented for shellinertia: overview.rst 'mass is assumed to be uniformly distributed on the surface')",
    "MASS of a density-specified ellipsoidal shell is accepted within 1.07 % of density x (quadrature area): the area of a "
    "general ellipsoid has no closed form and the documentation (XMLreference geom/density 'semantics of mass/area', "
    "geom/shellinertia 'density is interpreted as surface rather than volumetric density', overview.rst 'density is interpreted "
    "as mass-per-area') promises the meaning of the density, not an exact area; any closed-form implementation has to use an "
    "approximation and the best known one (Thomsen, worst case 1.061 %) is the tolerance.  The tolerance applies to that geom's "
    "own mass only (the exact contributions of the other geoms of the body are subtracted first), never to a mass given by the "
    "mass attribute, and not to the centre of mass or to the moments per unit mass.  settotalmass is not combined with an "
    "ellipsoidal shell because the rescaling would spread the accepted deviation over every body of the model",
    "a body holds at most one contributing ellipsoidal shell and is not within 30 % of boundmass/boundinertia when it holds one "
    "(extra shells / such bodies fall back to solid ellipsoids): the known finding ellipsoid-shell:inertia-tensor is confirmed "
    "per geom on the residual body-minus-other-geoms, which needs both",
    "principal-axes-absolute-eps:mesh-convergence is confirmed by a counterfactual: the identical tessellation series scaled to "
    "25 length units (documented unit invariance, overview.rst 'Units are unspecified') must pass every comparison",
]

ELLIPSOID_SHELL_MAX_DEV = 0.15      # what the layer mechanism can produce for the generated aspect ratios (<= 14): 14.7 %
MESH_TWIN_SCALE = 25.0

GT = ["sphere", "capsule", "ellipsoid", "cylinder", "box"]
EULERSEQS = ["xyz", "XYZ", "zyx", "ZYX", "xYz", "zxz", "yXz", "ZxY", "XYX", "yzx"]


def fmt(x):
    if isinstance(x, (list, tuple, np.ndarray)):
        return " ".join(fmt(v) for v in x)
    return repr(float(x))


# ---- generator ----------------------------------------------------------------------------------------------------

def rand_orient(rng, degree, seq, allow=("quat", "axisangle", "euler", "xyaxes", "zaxis", "none")):
    """-> (attrib dict, R)"""
    k = allow[int(rng.integers(0, len(allow)))]
    u = 180.0 / math.pi if degree else 1.0
    if k == "none":
        return {}, np.eye(3)
    if k == "quat":
        q = rng.normal(size=4) * float(rng.uniform(0.5, 2.0))          # not normalised on purpose
        return {"quat": fmt(q)}, ig.orient_mat("quat", q)
    if k == "axisangle":
        v = list(rng.normal(size=3) * float(rng.uniform(0.3, 3.0))) + [float(rng.uniform(-3.1, 3.1)) * u]
        return {"axisangle": fmt(v)}, ig.orient_mat("axisangle", v, degree)
    if k == "euler":
        v = rng.uniform(-3.1, 3.1, size=3) * u
        return {"euler": fmt(v)}, ig.orient_mat("euler", v, degree, seq)
    if k == "xyaxes":
        v = list(rng.normal(size=3)) + list(rng.normal(size=3))
        return {"xyaxes": fmt(v)}, ig.orient_mat("xyaxes", v)
    v = rng.normal(size=3)
    v[2] += 0.2
    return {"zaxis": fmt(v)}, ig.orient_mat("zaxis", v)


def rand_size(rng, t, s):
    r = float(np.exp(rng.uniform(np.log(0.03), np.log(0.3)))) * s
    if t == "sphere":
        return [r]
    if t in ("capsule", "cylinder"):
        return [r, float(np.exp(rng.uniform(np.log(0.02), np.log(0.6)))) * s]
    return [r, r * float(rng.uniform(0.3, 3.0)), r * float(rng.uniform(0.3, 3.0))]


def mesh_asset(rng, name, gtype, size, n, inertia, s, deform=False):
    """tessellate, move into a random mesh-local frame, optionally undo part of it through the scale attribute.
    -> (attrib, V_effective(float32-rounded, after scale), F)"""
    V, F = ig.tessellate(gtype, size, n)
    if deform:
        # break the central symmetry (a symmetric solid hides errors in the pyramid centroid weights): taper along z and bend
        zmax = float(np.abs(V[:, 2]).max())
        V = V.copy()
        V[:, 0] *= 1 + 0.4 * V[:, 2] / zmax
        V[:, 1] += 0.3 * V[:, 2] ** 2 / zmax
    Rm = so3.quat_to_mat(rng.normal(size=4)) if rng.random() < 0.7 else np.eye(3)
    off = rng.normal(size=3) * 0.2 * s if rng.random() < 0.7 else np.zeros(3)
    V = V @ Rm.T + off
    sc = np.ones(3)
    if rng.random() < 0.4:
        sc = rng.uniform(0.5, 2.0, size=3)
        if rng.random() < 0.3:
            sc[int(rng.integers(0, 3))] *= -1
    V32 = V.astype(np.float32).astype(np.float64)
    a = {"name": name, "inertia": inertia, "vertex": " ".join(repr(float(np.float32(x))) for x in V.ravel()),
         "face": " ".join(str(int(i)) for i in F.ravel())}
    if not np.all(sc == 1):
        a["scale"] = fmt(sc)
    Veff = V32 * sc
    Feff = F if np.prod(sc) > 0 else F[:, [0, 2, 1]]
    return a, Veff, Feff, {"Rm": Rm, "off": off, "scale": sc}


def gen_geom(rng, comp, s, gi, allow_shell=True):
    t = GT[int(rng.integers(0, 5))]
    a = {"name": "g%d" % gi, "type": t, "contype": "0", "conaffinity": "0"}
    g = {"type": t, "shell": False}
    size = rand_size(rng, t, s)
    if t != "sphere" and rng.random() < 0.25:
        p0 = rng.normal(size=3) * 0.3 * s
        d = rng.normal(size=3)
        d = d / np.linalg.norm(d) * float(rng.uniform(0.05, 0.8)) * s
        p1 = p0 + d
        a["fromto"] = fmt(list(p0) + list(p1))
        hl = 0.5 * float(np.linalg.norm(p1 - p0))
        if t in ("capsule", "cylinder"):
            size = [size[0], hl]
        else:
            size = [size[0], size[0], hl]
        a["size"] = fmt(size[0])
        g["pos"] = 0.5 * (p0 + p1)
        # z axis along the segment; the primitives are symmetric under z -> -z and under rotation about z for the
        # sizes fromto produces, so only the axis direction matters
        g["R"] = ig.orient_mat("zaxis", p1 - p0)
    else:
        a["size"] = fmt(size)
        g["pos"] = rng.normal(size=3) * 0.3 * s if rng.random() < 0.8 else np.zeros(3)
        if np.any(g["pos"]):
            a["pos"] = fmt(g["pos"])
        oa, R = rand_orient(rng, comp["degree"], comp["eulerseq"])
        a.update(oa)
        g["R"] = R
    g["size"] = size
    r = rng.random()
    if r < 0.45:
        g["density"] = 1000.0
    elif r < 0.7:
        g["density"] = float(np.exp(rng.uniform(np.log(50), np.log(8000))))
        a["density"] = fmt(g["density"])
    elif r < 0.9:
        g["mass"] = float(np.exp(rng.uniform(np.log(0.01), np.log(20)))) * s ** 3
        a["mass"] = fmt(g["mass"])
    elif r < 0.95:
        g["mass"] = 0.0
        a["mass"] = "0"
    else:
        g["density"] = 0.0
        a["density"] = "0"
    if allow_shell and rng.random() < 0.3:
        g["shell"] = True
        a["shellinertia"] = "true"
    g["group"] = 0
    if rng.random() < 0.4:
        g["group"] = int(rng.integers(0, 6))
        a["group"] = str(g["group"])
    return a, g


def xml_el(tag, a, children=()):
    s = "<%s %s" % (tag, " ".join('%s="%s"' % kv for kv in a.items()))
    if not children:
        return s + "/>"
    return s + ">" + "".join(children) + "</%s>" % tag


def gen_model(c):
    """-> (xml, spec) where spec holds everything the reference needs (numpy arrays converted by the caller)"""
    rng = np.random.default_rng(c["mseed"])
    s = c.get("scale", 1.0)
    comp = {"degree": bool(rng.random() < 0.5), "eulerseq": EULERSEQS[int(rng.integers(0, len(EULERSEQS)))],
            "ifg": ["auto", "auto", "true", "false"][int(rng.integers(0, 4))], "lo": 0, "hi": 5, "boundmass": 0.0,
            "boundinertia": 0.0, "balance": bool(rng.random() < 0.4), "settotalmass": -1.0}
    if rng.random() < 0.4:
        lo = int(rng.integers(0, 4))
        comp["lo"], comp["hi"] = lo, int(rng.integers(lo, 6))
    if rng.random() < 0.3:
        comp["boundmass"] = float(np.exp(rng.uniform(np.log(0.01), np.log(3)))) * s ** 3 * 100
    if rng.random() < 0.3:
        comp["boundinertia"] = float(np.exp(rng.uniform(np.log(1e-4), np.log(0.05)))) * s ** 5 * 100
    if rng.random() < 0.2:
        comp["settotalmass"] = float(rng.uniform(0.5, 20))
    ca = {"angle": "degree" if comp["degree"] else "radian", "eulerseq": comp["eulerseq"], "inertiafromgeom": comp["ifg"],
          "inertiagrouprange": "%d %d" % (comp["lo"], comp["hi"]), "balanceinertia": "true" if comp["balance"] else "false"}
    if comp["boundmass"]:
        ca["boundmass"] = fmt(comp["boundmass"])
    if comp["boundinertia"]:
        ca["boundinertia"] = fmt(comp["boundinertia"])
    if comp["settotalmass"] > 0:
        ca["settotalmass"] = fmt(comp["settotalmass"])
    nb = int(rng.integers(6, 11))
    bodies = []
    gi = 0
    xml_bodies = []
    open_stack = 0
    for bi in range(nb):
        b = {"name": "b%d" % bi, "geoms": [], "inertial": None}
        ba = {"name": b["name"], "pos": fmt(rng.normal(size=3) * s)}
        ba.update(rand_orient(rng, comp["degree"], comp["eulerseq"])[0])
        ch = []
        ng = int(rng.choice([0, 1, 1, 1, 2, 2, 3, 4, 6]))
        want_inertial = comp["ifg"] == "false" or rng.random() < 0.3
        if comp["ifg"] == "true" and want_inertial:
            ng = max(ng, 1)
        glist = []
        for _ in range(ng):
            a, g = gen_geom(rng, comp, s, gi)
            gi += 1
            glist.append((a, g))
        if comp["ifg"] == "true" and want_inertial:
            # make sure one geom contributes (see ASSUMPTIONS)
            a, g = glist[0]
            g["group"] = comp["lo"]
            a["group"] = str(comp["lo"])
            if g.get("mass") == 0.0:
                g["mass"] = 0.3 * s ** 3
                a["mass"] = fmt(g["mass"])
            if g.get("density") == 0.0:
                g["density"] = 700.0
                a["density"] = "700"
        # ellipsoidal shells (see ASSUMPTIONS): at most one per body, and not on a body that the bound* rules would touch
        es = [(a, g) for a, g in glist if g["type"] == "ellipsoid" and g["shell"]]
        if es and (comp["boundmass"] or comp["boundinertia"]):
            pp = [geom_part(g) for a, g in glist if comp["lo"] <= g["group"] <= comp["hi"]]
            pp = [q for q in pp if q is not None]
            if pp:
                M_, _, I_ = ig.compose(pp)
                if M_ < 1.3 * comp["boundmass"] or float(np.linalg.eigvalsh(I_).min()) < 1.3 * comp["boundinertia"]:
                    es = [None] + es
        for a, g in es[1:]:
            g["shell"] = False
            a.pop("shellinertia")
        if want_inertial:
            m = float(np.exp(rng.uniform(np.log(0.05), np.log(10)))) * s ** 3
            ine = {"pos": rng.normal(size=3) * 0.1 * s, "mass": m}
            ia = {"pos": fmt(ine["pos"]), "mass": fmt(m)}
            w = np.sort(rng.uniform(0.3, 1.0, size=3)) * m * 0.05 * s * s
            viol = rng.random() < (0.4 if comp["balance"] else 0.04)
            if viol:
                w[2] = (w[0] + w[1]) * float(rng.uniform(1.2, 3.0))
            elif w[0] + w[1] < 1.05 * w[2]:
                w[2] = (w[0] + w[1]) / 1.1
            if rng.random() < 0.4 and not viol:
                Q = so3.quat_to_mat(rng.normal(size=4))
                I = Q @ np.diag(w) @ Q.T
                ia["fullinertia"] = fmt([I[0, 0], I[1, 1], I[2, 2], I[0, 1], I[0, 2], I[1, 2]])
                ine["I"] = I
            else:
                w = rng.permutation(w)
                ia["diaginertia"] = fmt(w)
                oa, R = rand_orient(rng, comp["degree"], comp["eulerseq"])
                ia.update(oa)
                ine["I"] = R @ np.diag(w) @ R.T
            b["inertial"] = ine
            ch.append(xml_el("inertial", ia))
        # geoms, some inside a frame
        for a, g in glist:
            if "fromto" not in a and rng.random() < 0.2:
                fp = rng.normal(size=3) * 0.2 * s
                fo, FR = rand_orient(rng, comp["degree"], comp["eulerseq"], allow=("quat", "euler", "axisangle"))
                fa = {"pos": fmt(fp)}
                fa.update(fo)
                g["pos"] = fp + FR @ g["pos"]
                g["R"] = FR @ g["R"]
                ch.append(xml_el("frame", fa, [xml_el("geom", a)]))
            else:
                ch.append(xml_el("geom", a))
            b["geoms"].append(g)
        b["_ch"] = ch
        b["_ba"] = ba
        bodies.append(b)
    # the mass of a density-specified ellipsoidal shell is accepted within the Thomsen bound (ASSUMPTIONS): keep that tolerance
    # from leaking into every other body of the model through the settotalmass rescaling
    if comp["settotalmass"] > 0 and any(g["type"] == "ellipsoid" and g["shell"] for b in bodies for g in b["geoms"]):
        comp["settotalmass"] = -1.0
        ca.pop("settotalmass")
    # reference first (decides which bodies may move)
    refs = reference(bodies, comp)
    # build the tree: random nesting
    parent = [-1] * nb
    for bi in range(1, nb):
        if rng.random() < 0.5:
            parent[bi] = int(rng.integers(0, bi))
    kids = {i: [] for i in range(-1, nb)}
    for bi in range(nb):
        kids[parent[bi]].append(bi)

    def emit(bi):
        b = bodies[bi]
        ch = list(b["_ch"])
        r = refs[bi]
        if r["pre_mass"] > 0 and min(r["pre_eig"]) > 0 and rng.random() < 0.7:
            ch.insert(0, '<joint name="j%d" type="hinge" axis="0 0 1"/>' % bi)
        ch += [emit(k) for k in kids[bi]]
        return xml_el("body", b["_ba"], ch or ['<site name="dummy%d"/>' % bi])
    xml = "<mujoco>" + xml_el("compiler", ca) + "<worldbody>" + "".join(emit(k) for k in kids[-1]) + "</worldbody></mujoco>"
    return xml, bodies, comp, refs


# ---- reference ----------------------------------------------------------------------------------------------------

def geom_part(g):
    """(mass, com, I_com) of one geom in the body frame, or None when it carries no mass"""
    if "poly" in g:
        meas, cen, Ic = g["poly"]
    else:
        meas, Iu = ig.primitive(g["type"], g["size"], g["shell"])
        cen, Ic = np.zeros(3), np.diag(Iu) * meas
    m = g["mass"] if "mass" in g else g["density"] * meas
    if m <= 0:
        return None
    rho = m / meas
    R = np.asarray(g["R"])
    return m, np.asarray(g["pos"]) + R @ cen, R @ (Ic * rho) @ R.T


def reference(bodies, comp):
    out = []
    for b in bodies:
        ine = b["inertial"]
        infer = comp["ifg"] == "true" or (comp["ifg"] == "auto" and ine is None)
        parts = []
        if infer:
            for g in b["geoms"]:
                if comp["lo"] <= g["group"] <= comp["hi"]:
                    p = geom_part(g)
                    if p is not None:
                        parts.append(p)
        if parts:
            M, c, I = ig.compose(parts)
            src = "geoms%d" % len(parts)
        elif ine is not None:
            M, c, I = ine["mass"], np.asarray(ine["pos"]), np.asarray(ine["I"])
            src = "inertial"
        else:
            M, c, I = 0.0, None, np.zeros((3, 3))
            src = "empty"
        w, V = np.linalg.eigh(I)
        r = {"src": src, "pre_mass": M, "pre_eig": w.copy(), "nparts": len(parts)}
        M = max(M, comp["boundmass"])
        w = np.maximum(w, comp["boundinertia"])
        r["bounded"] = bool(M != r["pre_mass"] or np.any(w != r["pre_eig"]))
        r["balanced"] = False
        ws = np.sort(w)
        if ws[0] + ws[1] < ws[2]:
            if comp["balance"]:
                w = np.full(3, w.mean())
                r["balanced"] = True
            else:
                r["expect_error"] = True
        r["mass"], r["com"], r["I"] = M, c, V @ np.diag(w) @ V.T
        out.append(r)
    if comp["settotalmass"] > 0:
        tot = sum(r["mass"] for r in out)
        if tot > 0:
            k = comp["settotalmass"] / tot
            for r in out:
                r["mass"] *= k
                r["I"] = r["I"] * k
    return out


# ---- comparison ---------------------------------------------------------------------------------------------------

def compare_body(P, m, bid, r, sig_prefix, wit, itol=5e-6, extent=1.0, kinds=(), abs_unit=1.0):
    """-> True when everything matched"""
    mass = float(m["body_mass"][bid])
    ipos = m["body_ipos"][bid].copy()
    iq = m["body_iquat"][bid].copy()
    di = m["body_inertia"][bid].copy()
    R = so3.quat_to_mat(iq)
    I = R @ np.diag(di) @ R.T
    ok = True
    tag = "+".join(kinds) if kinds else r["src"]

    def bad(what, got, want, err):
        nonlocal ok
        ok = False
        P.violation("%s:%s:%s" % (sig_prefix, what, tag), dict(wit, body=bid, what=what, got=got, want=want, err=err, ref_source=r["src"]))
    Mref = r["mass"]
    e = abs(mass - Mref) / max(Mref, 1e-300) if Mref > 0 else abs(mass)
    P.note_max("mass_relerr_" + sig_prefix, e)
    if e > c_mtol(sig_prefix):
        bad("mass", mass, Mref, e)
    if r["com"] is not None and Mref > 0:
        e = float(np.abs(ipos - r["com"]).max()) / extent
        P.note_max("com_err_over_extent_" + sig_prefix, e)
        if e > c_ctol(sig_prefix):
            bad("com", ipos, r["com"], e)
    sc = float(np.abs(r["I"]).max())
    e = float(np.abs(I - r["I"]).max())
    if sc > 0:
        P.note_max("tensor_relerr_" + sig_prefix, e / sc)
    if e > itol * sc:
        if e <= 5e-12 * abs_unit:
            # explained by the ABSOLUTE 1e-12 stopping threshold of the compiler's Jacobi iteration (applied to the body tensor,
            # or to the unit-density tensor of a mesh): own signature, see findings/C35-principal-axes-absolute-eps.md
            ok = False
            P.count("abs_eps_hits")
            P.violation("principal-axes-absolute-eps:%s" % ("mesh" if sig_prefix.startswith("mesh") else "body"),
                        dict(wit, body=bid, got=I, want=r["I"], relerr=e / max(sc, 1e-300), abserr=e, abs_unit=abs_unit))
        else:
            bad("inertia-tensor", I, r["I"], e / max(sc, 1e-300))
    check_stored(iq, di, bad)
    return ok


def check_stored(iq, di, bad):
    """quaternion unit, triangle inequality on the stored principal moments"""
    if abs(float(iq @ iq) - 1) > 1e-9:
        bad("iquat-not-unit", iq, None, abs(float(iq @ iq) - 1))
    d = np.sort(di)
    if d[0] < 0 or d[0] + d[1] < d[2] * (1 - 1e-9) - 1e-300:
        bad("triangle-inequality", di, None, float(d[2] - d[0] - d[1]))


def compare_ellipsoid_shell_body(P, m, bid, b, r, comp, wit, extent, tag, itol=5e-6):
    """Body whose contributing geoms include exactly ONE ellipsoidal shell (generator invariant) and which the bound/balance
    rules leave alone.  The exact reference contributions of all other geoms are subtracted from the compiled body (mass, first
    moment, tensor about the body origin); what remains must be the ellipsoidal shell: mass within the Thomsen bound of
    density x area (exact when given by the mass attribute), centre at the geom position, moments per unit mass in the geom
    frame equal to the uniform-shell quadrature.  Only a tensor mismatch that equals the layer model of the known finding
    (vf/ref/inertia_geom.ellipsoid_layer_unit_inertia) AND stays below ELLIPSOID_SHELL_MAX_DEV is reported under
    `ellipsoid-shell:inertia-tensor`; every other mismatch keeps the generic `body:` signature."""
    mass = float(m["body_mass"][bid])
    ipos = m["body_ipos"][bid].copy()
    iq = m["body_iquat"][bid].copy()
    di = m["body_inertia"][bid].copy()
    R = so3.quat_to_mat(iq)
    I = R @ np.diag(di) @ R.T
    ok = [True]

    def bad(what, got, want, err):
        ok[0] = False
        P.violation("body:%s:%s" % (what, tag), dict(wit, body=bid, what=what, got=got, want=want, err=err, ref_source=r["src"],
                                                      via="residual after subtracting the other geoms"))
    eg, pe, others = None, None, []
    for g in b["geoms"]:
        if comp["lo"] <= g["group"] <= comp["hi"]:
            q = geom_part(g)
            if q is None:
                continue
            if g["type"] == "ellipsoid" and g["shell"]:
                assert eg is None, "generator invariant: one ellipsoidal shell per body"
                eg, pe = g, q
            else:
                others.append(q)
    Mref = r["mass"]
    m_e = mass - sum(q[0] for q in others)
    first = mass * ipos - sum((q[0] * np.asarray(q[1]) for q in others), np.zeros(3))
    IO = I + ig.shift(mass, ipos) - sum((np.asarray(q[2]) + ig.shift(q[0], q[1]) for q in others), np.zeros((3, 3)))
    # mass
    dm = abs(m_e - pe[0])
    by_density = "mass" not in eg
    P.note_max("mass_relerr_ellipsoid_shell_" + ("density" if by_density else "massattr"), dm / pe[0])
    if dm > 1e-11 * Mref + (ig.THOMSEN_MAX_RELERR * pe[0] if by_density else 0.0):
        bad("mass", mass, Mref, dm / Mref)
    elif by_density and dm > 1e-11 * Mref:
        P.count("ellipsoid_shell_mass_within_thomsen_bound")
    if not m_e > 0.5 * pe[0]:
        check_stored(iq, di, bad)
        return False
    amp = Mref / pe[0]
    # centre of the residual = geom position (exact by symmetry, whatever the mass)
    c_e = first / m_e
    e = float(np.abs(c_e - pe[1]).max())
    P.note_max("com_err_over_extent_ellipsoid_shell", e / extent)
    if e > 2e-11 * amp * (extent + float(np.abs(ipos).max())):
        bad("com", c_e, pe[1], e / extent)
    # moments per unit mass of the residual about its own centre, in the geom frame
    I_e = IO - ig.shift(m_e, c_e)
    Rg = np.asarray(eg["R"])
    T = Rg.T @ (I_e / m_e) @ Rg
    Iu = ig.primitive("ellipsoid", eg["size"], True)[1]
    sc = float(Iu.max())
    tolT = itol * float(np.abs(r["I"]).max()) / m_e
    eT = float(np.abs(T - np.diag(Iu)).max())
    if eT <= tolT:
        P.note_max("tensor_relerr_ellipsoid_shell", eT / sc)
    else:
        Im = ig.ellipsoid_layer_unit_inertia(*eg["size"])
        eM = float(np.abs(T - np.diag(Im)).max())
        dev = float(np.abs(np.diag(T) / Iu - 1).max())
        mech = eM <= tolT + 1e-8 * sc                       # the residual IS the layer of the finding
        mech_abs = (not mech) and m_e * eM <= 5e-12         # ... plus the absolute eigen threshold of the other finding
        det = dict(wit, body=bid, geom_size=eg["size"], unit_moments_got=np.diag(T), unit_moments_uniform_shell=Iu,
                   unit_moments_layer_model=Im, offdiag=float(np.abs(T - np.diag(np.diag(T))).max()), dev=dev, tol=tolT)
        if (mech or mech_abs) and dev <= ELLIPSOID_SHELL_MAX_DEV:
            ok[0] = False
            P.count("ellipsoid_shell_inertia_hits")
            P.note_max("ellipsoid_shell_inertia_dev", dev)
            P.violation("ellipsoid-shell:inertia-tensor", det)
            if mech_abs:
                P.count("abs_eps_hits")
                P.violation("principal-axes-absolute-eps:body", dict(det, abserr=m_e * eM, abs_unit=1.0))
        elif m_e * eT <= 5e-12:
            ok[0] = False
            P.count("abs_eps_hits")
            P.violation("principal-axes-absolute-eps:body", dict(det, abserr=m_e * eT, abs_unit=1.0))
        else:
            bad("inertia-tensor", np.diag(T), Iu, eT / sc)
    check_stored(iq, di, bad)
    return ok[0]


def c_mtol(prefix):
    return 1e-9 if prefix == "mesh-vs-polyhedron" else 1e-11


def c_ctol(prefix):
    return 1e-9 if prefix == "mesh-vs-polyhedron" else 1e-11


def body_kinds(b, comp):
    k = set()
    for g in b["geoms"]:
        if comp["lo"] <= g["group"] <= comp["hi"] and geom_part(g) is not None:
            k.add(g["type"] + ("-shell" if g["shell"] else ""))
    return k


def run_prim(P, L, c):
    xml, bodies, comp, refs = gen_model(c)
    wit = {"case": c, "xml": xml, "compiler": comp}
    exp_err = any(r.get("expect_error") for r in refs)
    try:
        m = L.load_xml_string(xml)
    except drv.MjError as e:
        msg = str(e)
        if exp_err and "A + B >= C" in msg:
            P.case(key="prim-reject|%d" % c["mseed"], sample={"kind": "expected-reject", "msg": msg[:80]})
            P.count("expected_compile_error")
            return
        P.violation("valid-model-rejected:" + msg.split("\n")[0][:60].split("'")[0].strip(), dict(wit, error=msg))
        return
    if exp_err:
        P.violation("triangle-inequality-not-enforced", wit)
        m.free()
        return
    nb = m.n("nbody")
    names = {m.name(1, i): i for i in range(nb)}
    for b, r in zip(bodies, refs):
        bid = names[b["name"]]
        kinds = body_kinds(b, comp) if r["src"].startswith("geoms") else set()
        ext = max(c.get("scale", 1.0), 1e-3)
        sk = sorted(kinds) if len(kinds) <= 1 else ["multi"]
        if "ellipsoid-shell" in kinds and not (r["bounded"] or r["balanced"]):
            # the ellipsoidal shell is isolated from the rest of the body and compared on its own (mass within the Thomsen
            # bound; tensor under the finding's signature only when the finding's mechanism is confirmed)
            P.count("ellipsoid_shell_bodies_" + ("single" if r["nparts"] == 1 else "multi"))
            ok = compare_ellipsoid_shell_body(P, m, bid, b, r, comp, wit, ext, "+".join(sk))
        else:
            ok = compare_body(P, m, bid, r, "body", wit, extent=ext, kinds=sk if r["src"].startswith("geoms") else ())
        P.case(key="prim|%d|%s" % (c["mseed"], b["name"]), nontrivial=r["mass"] > 0,
               sample={"model_seed": c["mseed"], "body": b["name"], "source": r["src"], "kinds": sorted(kinds), "mass": r["mass"],
                       "ifg": comp["ifg"], "scale": c.get("scale", 1.0)})
        P.count("bodies")
        P.count("src_" + r["src"].rstrip("0123456789") + ("_multi" if r["nparts"] > 1 else ""))
        for k in kinds:
            P.count("geomkind_" + k)
        if r["bounded"]:
            P.count("bounded_bodies")
        if r["balanced"]:
            P.count("balanced_bodies")
        if comp["settotalmass"] > 0:
            P.count("settotalmass_bodies")
        P.count("ifg_" + comp["ifg"])
        if b["inertial"] is not None and r["src"].startswith("geoms"):
            P.count("inertial_overridden_by_geoms")
    m.free()


def run_mesh(P, L, c):
    """one primitive, three resolutions, one inertia mode"""
    rng = np.random.default_rng(c["mseed"])
    s = c.get("scale", 1.0)
    t = c["gtype"]
    mode = c["inertia"]
    shell = mode == "shell"
    size = rand_size(rng, t, s)
    meas0, Iu0 = ig.primitive(t, size, shell)
    errs = []
    abs_hit = False
    gpos = rng.normal(size=3) * 0.3 * s
    q = rng.normal(size=4)
    GR = so3.quat_to_mat(q)
    dens = float(np.exp(rng.uniform(np.log(50), np.log(5000))))
    for n in c["res"]:
        asset, V, F, tr = mesh_asset(np.random.default_rng(c["mseed"] + 1), "m", t, size, n, mode, s,
                                     deform=bool(c.get("extra_geom")) and mode != "legacy")
        if c.get("extra_geom") and mode != "legacy":
            P.count("mesh_asymmetric")
        ga = {"type": "mesh", "mesh": "m", "contype": "0", "conaffinity": "0", "pos": fmt(gpos), "quat": fmt(q)}
        g = {"type": "mesh", "pos": gpos, "R": GR, "poly": ig.polyhedron(V, F, shell), "group": 0, "shell": shell}
        if c.get("use_mass"):
            g["mass"] = 1.7 * s ** 3
            ga["mass"] = fmt(g["mass"])
        else:
            g["density"] = dens
            ga["density"] = fmt(dens)
        geoms = [g]
        gx = [xml_el("geom", ga)]
        comp = {"degree": True, "eulerseq": "xyz", "ifg": "auto", "lo": 0, "hi": 5, "boundmass": 0.0, "boundinertia": 0.0,
                "balance": False, "settotalmass": -1.0}
        if c.get("extra_geom"):
            a2, g2 = gen_geom(np.random.default_rng(c["mseed"] + 2), comp, s, 1, allow_shell=False)
            geoms.append(g2)
            gx.append(xml_el("geom", a2))
        xml = ("<mujoco><asset>" + xml_el("mesh", asset) + '</asset><worldbody><body name="b"><joint type="hinge"/>'
               + "".join(gx) + "</body></worldbody></mujoco>")
        wit = {"case": c, "resolution": n, "xml": xml if len(xml) < 20000 else xml[:2000] + "...", "size": size}
        try:
            m = L.load_xml_string(xml)
        except drv.MjError as e:
            P.violation("valid-mesh-rejected:" + str(e).split("\n")[0][:50], dict(wit, error=str(e)))
            return
        ref = reference([{"geoms": geoms, "inertial": None}], comp)[0]
        ext = s
        rho = (g["mass"] / g["poly"][0]) if "mass" in g else dens
        hits0 = P.counters.get("abs_eps_hits", 0)
        compare_body(P, m, 1, ref, "mesh-vs-polyhedron", wit, itol=2e-5, extent=ext, kinds=[t, mode], abs_unit=max(1.0, rho))
        if P.counters.get("abs_eps_hits", 0) > hits0:
            abs_hit = True
        # primitive in the same pose: un-scaled tessellation only (scale changes the shape)
        if np.all(tr["scale"] == 1) and not c.get("extra_geom"):
            R = so3.quat_to_mat(m["body_iquat"][1])
            I = R @ np.diag(m["body_inertia"][1]) @ R.T
            mass = float(m["body_mass"][1])
            Mp = g["mass"] if "mass" in g else dens * meas0
            Rp = GR @ tr["Rm"]
            Ip = Rp @ np.diag(Iu0 * Mp) @ Rp.T
            cp = gpos + GR @ tr["off"]
            e = max(abs(mass - Mp) / Mp, float(np.abs(I - Ip).max()) / float(np.abs(Ip).max()),
                    float(np.abs(m["body_ipos"][1] - cp).max()) / max(size))
            errs.append((n, e))
        P.count("mesh_models")
        P.count("mesh_%s_%s" % (t, mode))
        P.case(key="mesh|%d|%s|%s|%d" % (c["mseed"], t, mode, n),
               sample={"kind": "mesh", "gtype": t, "inertia": mode, "resolution": n, "nvert": len(V), "mass": ref["mass"]})
        m.free()
    if errs:
        P.count("mesh_convergence_series")
        wit = {"case": c, "size": size, "errors": errs}
        if t == "box":
            if max(e for _, e in errs) > 2e-5:
                P.violation("principal-axes-absolute-eps:mesh-convergence" if abs_hit and scaled_twin_passes(P, L, c, wit)
                            else "mesh-box-not-exact:%s" % mode, wit)
        else:
            e0, e1, e2 = [e for _, e in errs]
            P.note_max("mesh_finest_relerr", e2)
            r1, r2 = e0 / max(e1, 1e-300), e1 / max(e2, 1e-300)
            P.note_max("mesh_rate_max", max(r1, r2))
            P.note_max("mesh_rate_min_neg", -min(r1, r2))
            # resolutions double: O(h^2) -> ratios ~4; float32 vertices floor the error at ~1e-6
            if not (e2 < e1 < e0) or min(r1, r2) < 3.0 or max(r1, r2) > 5.5 or e2 > 0.05:
                if abs_hit and scaled_twin_passes(P, L, c, wit):
                    # one of the three meshes already failed against its own polyhedron because of the absolute eigen
                    # threshold, and the identical series in larger length units converges: same mechanism
                    P.violation("principal-axes-absolute-eps:mesh-convergence", wit)
                else:
                    P.violation("mesh-not-converging-to-primitive:%s:%s" % (t, mode), wit)


def scaled_twin_passes(P, L, c, wit):
    """counterfactual for principal-axes-absolute-eps:mesh-convergence: the same random shapes, poses and resolutions with every
    length multiplied (scale -> MESH_TWIN_SCALE; the generator draws are identical, all lengths are proportional to scale) must
    pass every comparison of run_mesh, including the convergence series"""
    if c.get("_twin"):
        return False
    P2 = core.Part()
    run_mesh(P2, L, dict(c, scale=MESH_TWIN_SCALE, _twin=True))
    P.count("mesh_convergence_twins")
    sigs = sorted(set(v["signature"] for v in P2.violations))
    wit["scaled_twin_violations"] = sigs
    if sigs:
        P.count("mesh_convergence_twin_also_fails")
    return not sigs and P2.counters.get("mesh_convergence_series", 0) > 0


REJECTS = ["triangle", "fullinertia-indefinite", "negative-mass", "negative-diag"]


def run_reject(P, L, c):
    rng = np.random.default_rng(c["mseed"])
    k = c["reject"]
    ia = {"pos": fmt(rng.normal(size=3) * 0.1), "mass": "1.5"}
    if k == "triangle":
        w = np.sort(rng.uniform(0.1, 1, size=3))
        w[2] = (w[0] + w[1]) * float(rng.uniform(1.01, 3))
        ia["diaginertia"] = fmt(rng.permutation(w))
    elif k == "fullinertia-indefinite":
        Q = so3.quat_to_mat(rng.normal(size=4))
        w = np.array([0.5, 0.3, -float(rng.uniform(0.01, 0.2))])
        I = Q @ np.diag(w) @ Q.T
        ia["fullinertia"] = fmt([I[0, 0], I[1, 1], I[2, 2], I[0, 1], I[0, 2], I[1, 2]])
    elif k == "negative-mass":
        ia["mass"] = "-0.5"
        ia["diaginertia"] = "0.1 0.1 0.1"
    else:
        ia["diaginertia"] = "0.1 -0.05 0.1"
    xml = ('<mujoco><worldbody><body name="b"><joint type="hinge"/>' + xml_el("inertial", ia)
           + '<geom size="0.1"/></body></worldbody></mujoco>')
    try:
        m = L.load_xml_string(xml)
    except drv.MjError as e:
        P.case(key="reject|%s|%d" % (k, c["mseed"]), sample={"kind": "reject", "which": k, "msg": str(e)[:80]})
        P.count("reject_" + k)
        return
    P.violation("invalid-inertial-accepted:" + k, {"case": c, "xml": xml, "mass": m["body_mass"][1], "inertia": m["body_inertia"][1]})
    m.free()


def worker(c):
    P = core.Part()
    L = drv.Lib("rel")
    if c["kind"] == "prim":
        run_prim(P, L, c)
    elif c["kind"] == "mesh":
        run_mesh(P, L, c)
    else:
        run_reject(P, L, c)
    return P.result()


def cases(ctx):
    rng = ctx.rng
    cs = []
    nmodel = ctx.pick(160, 1500)
    for i in range(nmodel):
        cs.append({"kind": "prim", "mseed": int(rng.integers(0, 2 ** 31)), "scale": [1.0, 1.0, 0.2, 5.0][i % 4]})
    res = [8, 16, 32]
    reps = ctx.pick(1, 6)
    for rep in range(reps):
        for t in GT:
            for mode in ("exact", "legacy", "shell"):
                cs.append({"kind": "mesh", "mseed": int(rng.integers(0, 2 ** 31)), "gtype": t, "inertia": mode, "res": res,
                           "scale": [1.0, 0.2, 5.0][(rep + len(cs)) % 3], "use_mass": bool(rng.random() < 0.3)})
                cs.append({"kind": "mesh", "mseed": int(rng.integers(0, 2 ** 31)), "gtype": t, "inertia": mode, "res": res[:2],
                           "scale": 1.0, "extra_geom": True})
    for i in range(ctx.pick(16, 80)):
        cs.append({"kind": "reject", "mseed": int(rng.integers(0, 2 ** 31)), "reject": REJECTS[i % len(REJECTS)]})
    return cs


def run(ctx):
    build.ensure("rel")
    assert ig.selftest()
    cs = cases(ctx)
    res = par.run("vf.props.c35", "worker", cs, nproc=8 if ctx.quick else 12, timeout=ctx.pick(300, 900))
    for c, r in zip(cs, res):
        if r is None:
            ctx.inconclusive("worker returned nothing")
        elif "crash" in r:
            ctx.count("worker_crash")
            ctx.inconclusive("worker crashed: rc=%s %s" % (r.get("rc"), r["crash"][-300:]))
        elif "exception" in r:
            ctx.count("harness_exception")
            ctx.inconclusive("harness exception in worker: " + r["exception"] + r.get("trace", "")[-400:])
        else:
            ctx.merge(r)
    ctx.min_nontrivial = ctx.pick(700, 7000)
    need = ["geomkind_" + t + sfx for t in GT for sfx in ("", "-shell")] + ["src_inertial", "src_geoms_multi", "bounded_bodies",
                                                                            "balanced_bodies", "settotalmass_bodies",
                                                                            "inertial_overridden_by_geoms", "mesh_convergence_series",
                                                                            "expected_compile_error"]
    missing = [k for k in need if not ctx.counters.get(k)]
    if missing:
        ctx.inconclusive("workload classes never exercised: %s" % missing)


def replay(ctx, path):
    rec = json.load(open(path))
    ctx.merge(worker(rec["detail"]["case"]))
    ctx.min_nontrivial = 1
