"""C17 Constraint islands are the connected components of coupling."""
import json
import re

import numpy as np

from .. import build, common, core, drv, nat, par
from ..gen import corpus, model
from ..mjconst import E
from ..ref import islands as ref

LEVEL = "exploration"
RULE = ("(1) pipeline: real mj_step/mj_forward histories on generated contact-rich multi-tree models (free bodies, "
        "cross-tree equalities/tendons, random eq_active toggles, dense and sparse Jacobians, both cones, sleep on/off) and "
        "on the shipped corpus; after every observed call the island arrays are compared with connected components "
        "computed by an independent union-find over the dense efc_J (plus the documented flex-stiffness coupling), and all "
        "map_*/island_* arrays are checked to be mutually inverse permutations / partitions. distinct = (model, option "
        "vector, island-shape class); non-trivial = nisland>=1 with >=2 trees coupled or >=2 islands. "
        "(2) core: native ASan harness calling the exported mj_dsuMerge/mj_dsuRoot/mj_dsuAssign/mj_floodFill with every "
        "merge sequence over small forests (incl. static -1 endpoints) and sampled long sequences / random graphs against "
        "a label-propagation reference")
ASSUMPTIONS = [
    "coupling of a row = trees holding a non-zero of that row of efc_J; a structurally present but numerically zero "
    "entry (sparse storage, contact/weld body pairs) may additionally couple: the engine partition must lie between the "
    "value-based and the structure-based reference (they coincide in all but degenerate states, counted)",
    "flex stiffness coupling is taken from the model arrays (deformable dim>=2 flex with bending or non-zero stiffness "
    "couples the awake trees of its vertices/nodes), as described in the source comment; no .rst text exists for it",
    "models with islands disabled (mjDSBL_ISLAND) are skipped; nisland==0 with nefc>0 is accepted only together with "
    "a constraint-buffer-full warning (arena exhaustion, property C20)",
    "constraint rows whose Jacobian is entirely zero carry no coupling information: only range-checked",
    "states with non-finite qpos/qvel/efc_J (diverged histories) are skipped and counted",
    "when the arena overflows after island discovery the constraints are discarded (nefc=0, nisland=0, warning CNSTRFULL); "
    "mjData.nidof then keeps its stale value (mj_clearEfc does not reset it) - tolerated and counted, nothing reads it while nisland==0",
]


# ---------------------------------------------------------------------------------------------------------------
# oracle

def _perm_inverse(a, b, n):
    """a, b length-n arrays: both permutations of 0..n-1 and mutually inverse"""
    if len(a) != n or len(b) != n:
        return False
    if n == 0:
        return True
    if a.min() < 0 or a.max() >= n or b.min() < 0 or b.max() >= n:
        return False
    idx = np.arange(n)
    return bool((b[a] == idx).all() and (a[b] == idx).all())


def check_islands(L, m, d):
    """Returns (list of (signature, info), stats dict). Called right after mj_forward/mj_step."""
    bad = []
    st = {}
    nv, ntree, nefc, nisl = m.n("nv"), m.n("ntree"), d.s("nefc"), d.s("nisland")
    st["nisland"], st["nefc"] = nisl, nefc
    if int(m.opt["disableflags"]) & E.mjDSBL_ISLAND:
        st["skip"] = "islands_disabled"
        return bad, st
    dof_tree = m["dof_treeid"].astype(np.int64)
    J, S = ref.dense_J(d, m, L)
    if not (np.isfinite(d["qpos"]).all() and np.isfinite(d["qvel"]).all() and np.isfinite(J).all()):
        st["skip"] = "nonfinite_state"       # diverged history: NaN entries make 'non-zero' meaningless
        return bad, st
    rt_val = ref.row_trees(J, dof_tree)
    rt_str = ref.row_trees(S, dof_tree)
    efc_type = d.arena("efc_type")[:nefc].astype(np.int64) if nefc else np.zeros(0, dtype=np.int64)
    efc_id = d.arena("efc_id")[:nefc].astype(np.int64) if nefc else np.zeros(0, dtype=np.int64)
    body_tree = m["body_treeid"].astype(np.int64)
    rt_may = ref.may_groups(m, d, S, E)      # structural incidence (upper bound of the coupling)
    # flex stiffness coupling
    flex_groups = []
    nflex = m.n("nflex")
    if nflex and nefc:
        awake = d["tree_awake"] if "tree_awake" in d.fields() else np.ones(ntree, dtype=np.int32)
        for f in range(nflex):
            if m["flex_rigid"][f] or m["flex_dim"][f] < 2:
                continue
            sadr = int(m["flex_stiffnessadr"][f]) if "flex_stiffnessadr" in m else -1
            bend = int(m["flex_bendingadr"][f]) if "flex_bendingadr" in m else -1
            if bend < 0 and (sadr < 0 or m["flex_stiffness"].ravel()[sadr] == 0):
                continue
            if m["flex_interp"][f]:
                a, n = int(m["flex_nodeadr"][f]), int(m["flex_nodenum"][f])
                bodies = m["flex_nodebodyid"][a:a + n]
            else:
                a, n = int(m["flex_vertadr"][f]), int(m["flex_vertnum"][f])
                bodies = m["flex_vertbodyid"][a:a + n]
            ts = sorted(set(int(body_tree[b]) for b in bodies if body_tree[b] >= 0 and awake[body_tree[b]]))
            if len(ts) >= 2:
                flex_groups.append(ts)
    st["flex_groups"] = len(flex_groups)
    ref_lo = ref.components(ntree, [g for g in rt_val if len(g)] + flex_groups)     # must be coupled
    ref_hi = ref.components(ntree, [g for g in rt_may if len(g)] + flex_groups)     # may be coupled
    st["ref_nisland"] = int(ref_hi.max()) + 1 if ntree else 0
    st["ref_ambiguous"] = not np.array_equal(ref_lo, ref_hi)
    zero_rows = [r for r in range(nefc) if len(rt_val[r]) == 0]
    st["zero_rows"] = len(zero_rows)

    if nefc == 0:
        full = int(d.sv("warning")["number"][E.mjWARN_CNSTRFULL])
        if nisl != 0 or (d.s("nidof") != 0 and not full):
            bad.append(("nisland-nonzero-without-constraints", {"nisland": nisl, "nidof": d.s("nidof")}))
        elif d.s("nidof") != 0:
            st["skip"] = "arena_full_stale_nidof"     # constraints discarded after island discovery (arena exhausted, C20)
        return bad, st
    if nisl == 0:
        if ref_hi.max() >= 0:
            st["skip"] = "no_islands_arena_full"
            full = int(d.sv("warning")["number"][E.mjWARN_CNSTRFULL])
            if not full:
                st.pop("skip")
                bad.append(("no-islands-despite-constraints", {"nefc": nefc}))
        return bad, st

    af = d.arena_fields()
    A = lambda k: d.arena(k, af).ravel().astype(np.int64)
    tree_island = A("tree_island")
    # --- partition of trees --------------------------------------------------------------------------------
    if ((tree_island < 0) != (ref_hi < 0)).any() and ((tree_island < 0) != (ref_lo < 0)).any():
        bad.append(("tree-membership:constrained-set-differs", {"engine": tree_island.tolist(), "ref": ref_hi.tolist()}))
    elif not st["ref_ambiguous"]:
        if not ref.same_partition(tree_island, ref_hi):
            sig = "tree-partition:not-connected-components"
            if ref.refines(tree_island, ref_hi):
                sig = "tree-partition:island-split"       # engine finer than reference: coupled trees separated
            elif ref.refines(ref_hi, tree_island):
                sig = "tree-partition:islands-merged"     # engine coarser: uncoupled trees joined
            bad.append((sig, {"engine": tree_island.tolist(), "ref": ref_hi.tolist()}))
    else:
        if not (ref.refines(ref_lo, tree_island) and ref.refines(tree_island, ref_hi)):
            bad.append(("tree-partition:outside-value/structure-bounds",
                        {"engine": tree_island.tolist(), "ref_value": ref_lo.tolist(), "ref_struct": ref_hi.tolist()}))
    if tree_island.max() + 1 != nisl:
        bad.append(("nisland-count", {"nisland": nisl, "max_label": int(tree_island.max())}))
    # --- ordering of ids: ascending in smallest tree ------------------------------------------------------------
    firsts = [int(np.flatnonzero(tree_island == k)[0]) if (tree_island == k).any() else -1 for k in range(nisl)]
    if any(f < 0 for f in firsts):
        bad.append(("island-empty", {"firsts": firsts}))
    elif any(a >= b for a, b in zip(firsts[:-1], firsts[1:])):
        bad.append(("island-order:not-ascending-in-smallest-tree", {"firsts": firsts}))
    # --- trees: island_ntree / itreeadr / map_itree2tree -----------------------------------------------------------
    island_ntree, itreeadr, itree2tree = A("island_ntree"), A("island_itreeadr"), A("map_itree2tree")
    exp = [t for k in range(nisl) for t in np.flatnonzero(tree_island == k)] + list(np.flatnonzero(tree_island < 0))
    if itree2tree.tolist() != [int(x) for x in exp]:
        bad.append(("map_itree2tree:not-grouped-permutation", {"engine": itree2tree.tolist(), "expected": [int(x) for x in exp]}))
    cnt = np.array([(tree_island == k).sum() for k in range(nisl)])
    if not np.array_equal(island_ntree, cnt) or not np.array_equal(itreeadr, np.concatenate([[0], np.cumsum(cnt)[:-1]])):
        bad.append(("island_ntree/itreeadr:not-a-partition", {"ntree": island_ntree.tolist(), "adr": itreeadr.tolist()}))
    # --- dofs ------------------------------------------------------------------------------------------------------
    dof_island = A("dof_island")
    exp_dof_island = tree_island[dof_tree]
    if not np.array_equal(dof_island, exp_dof_island):
        i = int(np.flatnonzero(dof_island != exp_dof_island)[0])
        sig = "dof_island:unconstrained-dof-in-island" if exp_dof_island[i] < 0 else "dof_island:differs-from-tree"
        bad.append((sig, {"dof": i, "engine": int(dof_island[i]), "tree_island": int(exp_dof_island[i])}))
    # independent of tree_island: a dof with a non-zero in some row is constrained
    touched = (J != 0).any(axis=0)
    if (dof_island[touched] < 0).any():
        bad.append(("dof_island:constrained-dof-in-no-island", {"dof": int(np.flatnonzero(touched & (dof_island < 0))[0])}))
    island_nv, idofadr, dofadr = A("island_nv"), A("island_idofadr"), A("island_dofadr")
    d2i, i2d = A("map_dof2idof"), A("map_idof2dof")
    nidof = d.s("nidof")
    if nidof != int((dof_island >= 0).sum()):
        bad.append(("nidof-count", {"nidof": nidof, "constrained": int((dof_island >= 0).sum())}))
    if not _perm_inverse(d2i, i2d, nv):
        bad.append(("map_dof2idof/idof2dof:not-inverse-permutations", {"dof2idof": d2i.tolist(), "idof2dof": i2d.tolist()}))
    else:
        exp = [x for k in range(nisl) for x in np.flatnonzero(dof_island == k)] + list(np.flatnonzero(dof_island < 0))
        if i2d.tolist() != [int(x) for x in exp]:
            bad.append(("map_idof2dof:not-grouped-by-island", {"engine": i2d.tolist(), "expected": [int(x) for x in exp]}))
    cnt = np.array([(dof_island == k).sum() for k in range(nisl)])
    adr = np.concatenate([[0], np.cumsum(cnt)[:-1]])
    if not np.array_equal(island_nv, cnt) or not np.array_equal(idofadr, adr):
        bad.append(("island_nv/idofadr:not-a-partition", {"nv": island_nv.tolist(), "adr": idofadr.tolist()}))
    exp_dofadr = [int(np.flatnonzero(dof_island == k)[0]) if cnt[k] else -1 for k in range(nisl)]
    if dofadr.tolist() != exp_dofadr:
        bad.append(("island_dofadr:not-first-dof", {"engine": dofadr.tolist(), "expected": exp_dofadr}))
    # --- rows ------------------------------------------------------------------------------------------------------
    efc_island = A("efc_island")
    if efc_island.min() < 0 or efc_island.max() >= nisl:
        bad.append(("efc_island:out-of-range", {"min": int(efc_island.min()), "max": int(efc_island.max())}))
    else:
        for r in range(nefc):
            ts = rt_val[r]
            if len(ts) == 0:
                continue
            isl_of = set(int(tree_island[t]) for t in ts)
            if isl_of != {int(efc_island[r])}:
                bad.append(("efc_island:row-not-in-island-of-its-trees",
                            {"row": r, "type": int(efc_type[r]), "id": int(efc_id[r]), "efc_island": int(efc_island[r]),
                             "trees": [int(t) for t in ts], "tree_islands": sorted(isl_of)}))
                break
        e2i, i2e = A("map_efc2iefc"), A("map_iefc2efc")
        if not _perm_inverse(e2i, i2e, nefc):
            bad.append(("map_efc2iefc/iefc2efc:not-inverse-permutations", {"efc2iefc": e2i.tolist()[:50], "iefc2efc": i2e.tolist()[:50]}))
        else:
            exp = [x for k in range(nisl) for x in np.flatnonzero(efc_island == k)]
            if i2e.tolist() != [int(x) for x in exp]:
                bad.append(("map_iefc2efc:not-grouped-by-island", {"engine": i2e.tolist()[:50], "expected": [int(x) for x in exp][:50]}))
            for k, src in (("iefc_type", "efc_type"), ("iefc_id", "efc_id"), ("iefc_frictionloss", "efc_frictionloss"),
                           ("iefc_D", "efc_D"), ("iefc_R", "efc_R")):
                a, b = d.arena(k, af).ravel()[:nefc], d.arena(src, af).ravel()[:nefc][i2e]
                if a.tobytes() != b.tobytes():
                    bad.append(("iefc-gather:%s-differs" % k, {"field": k}))
        cnt = np.array([(efc_island == k).sum() for k in range(nisl)])
        adr = np.concatenate([[0], np.cumsum(cnt)[:-1]])
        if not np.array_equal(A("island_nefc"), cnt) or not np.array_equal(A("island_iefcadr"), adr):
            bad.append(("island_nefc/iefcadr:not-a-partition", {"nefc": A("island_nefc").tolist(), "adr": A("island_iefcadr").tolist()}))
        ne = np.array([((efc_island == k) & (efc_type == E.mjCNSTR_EQUALITY)).sum() for k in range(nisl)])
        nf = np.array([((efc_island == k) & ((efc_type == E.mjCNSTR_FRICTION_DOF) | (efc_type == E.mjCNSTR_FRICTION_TENDON))).sum()
                       for k in range(nisl)])
        if not np.array_equal(A("island_ne"), ne) or not np.array_equal(A("island_nf"), nf):
            bad.append(("island_ne/nf:miscount", {"ne": A("island_ne").tolist(), "nf": A("island_nf").tolist()}))
    st["max_island_ntree"] = int(island_ntree.max())
    return bad, st


# ---------------------------------------------------------------------------------------------------------------
# pipeline workload

GEN_OVER = dict(ntree=(3, 9), nbody=(4, 16), equalities=5, tendons=3, free=0.7, actuators=0.1, mocap=0.3, static_geoms=0.3,
                eq_inactive=0.3)


def _load(L, c):
    if c["kind"] == "corpus":
        return L.load_xml(str(build.REPO / c["path"]))
    rng = np.random.default_rng(c["mseed"])
    over = dict(GEN_OVER)
    over["scale"] = float(rng.choice([0.6, 1.0, 1.6]))
    xml, tags = model.gen_profile(rng, "contact", **over)
    c["_xml"] = xml
    return L.load_xml_string(xml)


def _options(rng, m, c):
    o = {}
    o["jacobian"] = str(rng.choice(["mjJAC_DENSE", "mjJAC_SPARSE"]))
    o["cone"] = str(rng.choice(common.CONES))
    o["solver"] = str(rng.choice(["mjSOL_CG", "mjSOL_NEWTON", "mjSOL_PGS"], p=[0.4, 0.4, 0.2]))
    o["integrator"] = str(rng.choice(["mjINT_EULER", "mjINT_IMPLICITFAST", "mjINT_IMPLICIT", "mjINT_RK4"], p=[0.4, 0.3, 0.2, 0.1]))
    o["flags"] = []
    # "tendon equality does not yet support sleeping" is a designed error: no sleep flag for such models
    has_teq = m.n("neq") and (m["eq_type"] == E.mjEQ_TENDON).any()
    if c.get("sleep_ok") and not has_teq and rng.random() < 0.3:
        o["flags"].append("sleep")
        if o["integrator"] == "mjINT_RK4":
            o["integrator"] = "mjINT_EULER"
    common.apply_options(m, o)
    if c.get("disable_islands"):
        m.opt["disableflags"] = int(m.opt["disableflags"]) | E.mjDSBL_ISLAND     # crash triage re-run
    return o


def _clump(rng, m, d):
    """Move free bodies close together so that they collide with one another (multi-tree islands)."""
    jt, qa = m["jnt_type"], m["jnt_qposadr"]
    q = d["qpos"]
    spread = float(rng.choice([0.15, 0.4, 1.0]))
    for j in range(m.n("njnt")):
        if jt[j] == E.mjJNT_FREE:
            a = qa[j]
            q[a:a + 3] = rng.normal(size=3) * spread + [0, 0, 0.3 + abs(rng.normal()) * spread]
            x = rng.normal(size=4)
            q[a + 3:a + 7] = x / np.linalg.norm(x)


def _static_static_dense_abort(L, m, d, msg):
    """(True, evidence) only if the trapped error is the known mechanism of findings/C17-static-static-contact-dense-abort.md:
    the exact message 'treeIterInit: contact N is between two static bodies' (not the equality / generic-constraint messages of
    engine_island.c, which share the words), contact N is a geom-geom contact whose two bodies are both dof-less (no tree, weld
    root without dofs) - i.e. the message is TRUE, only the row should not exist - and the dense Jacobian path is active (the
    sparse path excludes such pairs because mj_jacDifPair returns an empty chain). Anything else keeps the generic signature."""
    mm = re.match(r"\s*treeIterInit: contact (\d+) is between two static bodies\s*$", msg)
    if not mm:
        return False, "message is not the exact contact form"
    try:
        if int(L.call("mj_isSparse", m)) != 0:
            return False, "sparse Jacobian active"
        cid = int(mm.group(1))
        ncon = int(d.s("ncon"))
        if not 0 <= cid < ncon:
            return False, "contact id %d outside 0..%d" % (cid, ncon)
        con = d.contacts()[cid]
        g1, g2 = int(con["geom"][0]), int(con["geom"][1])
        if g1 < 0 or g2 < 0:
            return False, "not a geom-geom contact"
        gb, tid, wid, dn = m["geom_bodyid"], m["body_treeid"], m["body_weldid"], m["body_dofnum"]
        b1, b2 = int(gb[g1]), int(gb[g2])
        for b in (b1, b2):
            if int(tid[b]) >= 0 or int(dn[int(wid[b])]) != 0:
                return False, "body %d is not dof-less (treeid %d): the engine's tree lookup is wrong" % (b, int(tid[b]))
        return True, "contact %d geoms (%d,%d) bodies (%d,%d) both dof-less, dense Jacobian" % (cid, g1, g2, b1, b2)
    except Exception as ex:                                   # evidence not obtainable => not confirmed
        return False, "confirmation failed: %r" % (ex,)


def worker(c):
    P = core.Part()
    L = drv.Lib(c.get("flavour", "rel"))
    try:
        m = _load(L, c)
    except drv.MjError:
        P.count("model_rejected")
        return P.result()
    rng = np.random.default_rng(c["seed"])
    opts = _options(rng, m, c)
    # sleep flag must be set before mj_makeData (documented)
    name = c.get("path") or ("gen:contact:%d" % c["mseed"])
    optkey = "%s|%s|%s|%s" % (opts["jacobian"][6:], opts["cone"][7:], opts["integrator"][6:], "+".join(opts["flags"]))
    try:
        d = m.make_data()
    except drv.MjError:
        P.count("makedata_rejected")
        return P.result()
    ntree, neq = m.n("ntree"), m.n("neq")
    nobs = c["nobs"]
    events = []
    witness = {"model": name, "xml": c.get("_xml"), "options": opts, "case": {k: v for k, v in c.items() if not k.startswith("_")}}
    errors = 0
    for k in range(nobs):
        try:
            r = rng.random()
            if k == 0 and c["kind"] == "gen" and r < 0.8:
                _clump(rng, m, d)
                events.append("clump")
            elif r < 0.15 and neq:
                d["eq_active"][:] = rng.integers(0, 2, size=neq)
                events.append("eq_toggle")
            elif r < 0.25 and c["kind"] == "gen":
                _clump(rng, m, d)
                d["qvel"][:] = rng.normal(size=m.n("nv")) * 0.5
                events.append("clump")
            elif r < 0.35:
                common.random_controls(rng, m, d)
                events.append("controls")
            if rng.random() < 0.25:
                d.forward()
                call = "forward"
            else:
                n = int(rng.integers(1, c["maxstep"] + 1))
                d.step(n)
                call = "step"
        except drv.MjError as e:
            if str(e).startswith(("mj_island", "mj_dsu", "unionConstraintTrees", "treeIterInit")):
                # the engine's own SHOULD-NOT-OCCUR consistency checks inside island discovery fired
                w = dict(witness)
                w.update({"observation": k, "events": events[-6:], "error": str(e)[:300]})
                confirmed, why = _static_static_dense_abort(L, m, d, str(e))
                w["known_mechanism_check"] = why
                if confirmed:
                    # known finding findings/C17-static-static-contact-dense-abort.md, mechanism confirmed on this very state
                    P.count("static_static_dense_abort_confirmed")
                    P.violation("island-discovery-aborts:constraint-between-two-static-bodies", w)
                else:
                    P.violation("engine-reported-island-inconsistency", w)
                break
            P.count("engine_error_skipped")
            P.count("engine_error:" + str(e).split(":")[0][:40])
            errors += 1
            d.reset()
            if errors > 3:
                break
            continue
        bad, st = check_islands(L, m, d)
        if st.get("skip"):
            P.count("skipped_" + st["skip"])
            P.case(nontrivial=False)
            continue
        nisl = st["nisland"]
        shape = "isl%d/maxtrees%d" % (min(nisl, 4), min(st.get("max_island_ntree", 0), 4))
        nontriv = nisl >= 2 or st.get("max_island_ntree", 0) >= 2
        P.case(key="%s|%s|%s" % (name, optkey, shape), nontrivial=nontriv,
               sample={"model": name, "options": opts, "call": call, "nisland": nisl, "nefc": st["nefc"], "ntree": ntree,
                       "max_island_ntree": st.get("max_island_ntree", 0)})
        P.count("observations")
        P.count("call_" + call)
        if nisl >= 2:
            P.count("multi_island_states")
        if st.get("max_island_ntree", 0) >= 2:
            P.count("multi_tree_island_states")
        if st.get("ref_ambiguous"):
            P.count("ref_value_vs_structure_differ")
        if st.get("zero_rows"):
            P.count("rows_with_zero_jacobian", st["zero_rows"])
        if st.get("flex_groups"):
            P.count("flex_coupled_states")
        if "sleep" in opts["flags"] and (d["tree_asleep"] >= 0).any():
            P.count("states_with_sleeping_trees")
        P.note_max("max_nisland", nisl)
        P.note_max("max_island_ntree", st.get("max_island_ntree", 0))
        P.note_max("max_nefc", st["nefc"])
        for sig, info in bad:
            w = dict(witness)
            w.update({"observation": k, "call": call, "events": events[-6:], "info": info, "stats": st})
            P.violation(sig, w)
        if bad:
            break
    d.free()
    m.free()
    return P.result()


def cases(ctx):
    cs = []
    rng = ctx.rng
    corp = corpus.loadable()
    for c in corp:
        if c["nv"] == 0 or c["nv"] > ctx.pick(150, 400):
            continue
        for rep in range(ctx.pick(2, 3)):
            cs.append({"kind": "corpus", "path": c["path"], "seed": int(rng.integers(0, 2 ** 31)), "sleep_ok": True,
                       "nobs": ctx.pick(4, 12), "maxstep": ctx.pick(15, 40)})
    for i in range(ctx.pick(1500, 4000)):
        cs.append({"kind": "gen", "mseed": int(rng.integers(0, 2 ** 31)), "seed": int(rng.integers(0, 2 ** 31)),
                   "sleep_ok": True, "nobs": ctx.pick(8, 12), "maxstep": ctx.pick(12, 20)})
    return cs


# ---------------------------------------------------------------------------------------------------------------
# core-level harness

DSU_LEVELS = {
    "quick": [(1, 10), (2, 7), (3, 6), (4, 5), (5, 4), (6, 4)],
    "thorough": [(1, 12), (2, 9), (3, 7), (4, 6), (5, 5), (6, 5), (7, 4), (8, 4)],
}


def _core_jobs(ctx):
    jobs = [("dsu_exhaustive", [str(n), str(k)]) for n, k in DSU_LEVELS["quick" if ctx.quick else "thorough"]]
    jobs.append(("flood_exhaustive", [str(ctx.pick(4, 5))]))
    for i in range(ctx.pick(12, 24)):
        jobs.append(("dsu_random", [str(ctx.seed * 1000 + i + 1), str(ctx.pick(30000, 200000))]))
        jobs.append(("flood_random", [str(ctx.seed * 1000 + i + 1), str(ctx.pick(20000, 100000))]))
    return jobs


def _parse(res):
    m = re.search(r"SUMMARY sequences=(\d+) checks=(\d+) failures=(\d+) maxtrees=(\d+) maxmerges=(\d+)", res["out"])
    fails = [l for l in res["out"].splitlines() if l.startswith("FAIL ")]
    return m, fails


def run_core(ctx):
    exe = build.exe("asan", "h_island", ["h_island.c"])
    jobs = _core_jobs(ctx)
    results = nat.pmap(lambda j: (j, nat.run_exe(exe, [j[0]] + j[1], "asan", timeout=ctx.pick(900, 3000))), jobs)
    for (mode, args), res in results:
        if res["timed_out"]:
            # these jobs finish in seconds; the reference terminates on every input, so no result after the (very
            # generous) timeout means the union-find / flood fill did not terminate
            ctx.violation("core:no-result-within-timeout", {"mode": mode, "args": args, "core": True, "timeout": True})
            ctx.extra["core_timed_out"] = True
            continue
        for kind, sig, text in res["reports"]:
            ctx.violation("core:sanitizer:" + sig, {"mode": mode, "args": args, "report": text})
        m, fails = _parse(res)
        for f in fails[:3]:
            kind = re.search(r"kind=(\S+)", f).group(1)
            ctx.violation("core:" + kind, {"mode": mode, "args": args, "witness": f, "core": True})
        if m is None:
            if not res["reports"]:
                ctx.violation("core:harness-crash", {"mode": mode, "args": args, "rc": res["rc"], "stderr": res["err"][-2000:], "core": True})
            continue
        nseq, nchk, nf, mt, mm = map(int, m.groups())
        ctx.count("core_%s_sequences" % mode, nseq)
        ctx.count("core_checks", nchk)
        ctx.note_max("core_max_trees", mt)
        ctx.note_max("core_max_merges", mm)
        ctx.case(key="core:%s:%s" % (mode, ",".join(args) if mode.endswith("exhaustive") else "sampled"), nontrivial=True, n=1,
                 sample={"core": mode, "args": args, "sequences": nseq})
        if mode.endswith("exhaustive"):
            ctx.extra.setdefault("exhaustive_parts", []).append({"mode": mode, "args": args, "sequences": nseq, "complete": True,
                                                                 "detail": res["out"].splitlines()[:2]})


def run(ctx):
    build.ensure("rel")
    assert ref.selftest()
    run_core(ctx)
    if ctx.extra.get("core_timed_out"):
        return          # a non-terminating core would stall every pipeline worker until its timeout
    cs = cases(ctx)
    res = par.run("vf.props.c17", "worker", cs, nproc=16, timeout=ctx.pick(300, 900))
    _merge(ctx, cs, res)
    # the same pipeline oracle on a subsample under ASan (arena-allocated island arrays are red-zoned there);
    # ASan-under-Python start-up costs minutes per process, so thorough tier only
    if not ctx.quick:
        sub = [dict(c, flavour="asan") for c in cs if c["kind"] == "gen"][:160]
        build.ensure("asan")
        res = par.run("vf.props.c17", "worker", sub, nproc=16, timeout=1500, asan=True)
        _merge(ctx, sub, res, asan=True)
    ctx.min_nontrivial = ctx.pick(2000, 6000)


def _merge(ctx, cs, res, asan=False):
    for c, r in zip(cs, res):
        if r is None:
            ctx.inconclusive("worker returned nothing")
        elif "crash" in r:
            ctx.count("worker_crash")
            if asan and "AddressSanitizer" in r["crash"]:
                ctx.violation("pipeline:sanitizer-report", {"case": c, "stderr": r["crash"][-3000:]})
            elif not asan and "crash" in (par.run("vf.props.c17", "worker", [dict(c, disable_islands=True)], nproc=1, timeout=900)[0] or {}):
                # the same history crashes with island discovery disabled: not attributable to this property
                ctx.count("skipped_crash_also_with_islands_disabled")
                ctx.extra.setdefault("crashes_unrelated_to_islands", []).append({"case": c, "rc": r.get("rc")})
            elif not asan:
                ctx.violation("crash-only-with-islands-enabled", {"case": c, "rc": r.get("rc"), "stderr": r["crash"][-1500:]})
            else:
                ctx.inconclusive("worker crashed (rc=%s, %s%s): %s" % (r.get("rc"), c.get("path") or "gen:%s" % c.get("mseed"),
                                                                     ", asan" if asan else "", r["crash"][-300:]))
        elif "exception" in r:
            ctx.count("harness_exception")
            ctx.inconclusive("harness exception in worker: " + r["exception"] + r.get("trace", "")[-600:])
        else:
            if asan:
                ctx.count("asan_pipeline_cases")
            ctx.merge(r)


def replay(ctx, path):
    rec = json.load(open(path))
    det = rec["detail"]
    if det.get("core"):
        exe = build.exe("asan", "h_island", ["h_island.c"])
        args = [det["mode"]] + det["args"]
        w = det.get("witness", "")
        mm = re.search(r"ntree=(\d+) merges=(\S*)", w)
        mf = re.search(r"nr=(\d+) adj=(\S*)", w)
        if mm:
            args = ["dsu_replay", mm.group(1)] + [x for pair in mm.group(2).split(";") if pair for x in pair.split(",")]
        elif mf:
            args = ["flood_replay", mf.group(1), mf.group(2) or ";"]
        res = nat.run_exe(exe, args, "asan", timeout=3000)
        print(res["out"][-2000:], res["err"][-2000:])
        m, fails = _parse(res)
        for f in fails[:3]:
            ctx.violation("core:" + re.search(r"kind=(\S+)", f).group(1), {"witness": f, "core": True, "mode": det["mode"], "args": det["args"]})
        for kind, sig, text in res["reports"]:
            ctx.violation("core:sanitizer:" + sig, {"report": text})
        ctx.case("replay-core", sample={"args": args[:40]})
    else:
        c = det["case"]
        ctx.merge(worker(c))
        ctx.case(key="replay-pipeline", sample={"case": c})
    ctx.min_nontrivial = 0
