"""C26 The state vector API is a faithful serialization."""
import ctypes as C
import json
import os
import xml.etree.ElementTree as ET

import numpy as np

from .. import build, core, drv, par
from ..gen import corpus, model
from ..mjconst import E

LEVEL = "exploration"
RULE = ("generated models in which all 14 state components are non-empty (activations, actuator/sensor history buffers, "
        "equalities, mocap bodies, userdata, a test plugin with per-instance state, keyframes) plus shipped models; every "
        "component of a source mjData is filled with values unique to (component, index); per model ALL 2^14 signatures "
        "are enumerated in the thorough tier (quick: 0, all singles, all pairs, named composites, full, 500 random): "
        "mj_stateSize and the canary-guarded mj_getState output are compared with a Python concatenation of the mjData "
        "fields in mjtState bit order; mj_setState / mj_copyState into a differently-filled mjData are compared "
        "byte-for-byte against the expected image of the whole mjData struct + buffer + used arena; mj_extractState for "
        "sub-signature pairs; invalid signatures; mj_resetData vs fresh mj_makeData vs documented defaults; "
        "mj_resetDataKeyframe vs key_* arrays. A subsample is rerun under ASan with exact-size heap buffers. "
        "distinct = (model, signature class); non-trivial = the signature selects a non-empty component")
ASSUMPTIONS = [
    "eq_active is mjtByte in mjData and mjtNum in the state vector ('special handling' documented in mjtState/mjdata.h): compared after conversion; mjtBool is C _Bool, so only the values 0/1 are used",
    "the order of components in the vector is the bit order of mjtState ('concatenated state components specified by sig')",
    "plugin_data / threadpool (raw pointers) and arena contents beyond parena are not observable state",
    "npluginstate>0 is obtained with a test plugin registered by the harness (native/h_stateplugin.c); no first-party plugin in this tree has state",
    "history-buffer reset values are checked against doc/modeling.rst 'Delays/Initialization' (timestamps and zero values); the cursor/user slots only against a fresh mjData",
]

NSTATE = 14
COMP = ["time", "qpos", "qvel", "act", "history", "qacc_warmstart", "ctrl", "qfrc_applied", "xfrc_applied", "eq_active",
        "mocap_pos", "mocap_quat", "userdata", "plugin_state"]
ENUM = ["mjSTATE_TIME", "mjSTATE_QPOS", "mjSTATE_QVEL", "mjSTATE_ACT", "mjSTATE_HISTORY", "mjSTATE_WARMSTART",
        "mjSTATE_CTRL", "mjSTATE_QFRC_APPLIED", "mjSTATE_XFRC_APPLIED", "mjSTATE_EQ_ACTIVE", "mjSTATE_MOCAP_POS",
        "mjSTATE_MOCAP_QUAT", "mjSTATE_USERDATA", "mjSTATE_PLUGIN"]
COMPOSITES = ["mjSTATE_PHYSICS", "mjSTATE_FULLPHYSICS", "mjSTATE_USER", "mjSTATE_INTEGRATION"]
CANARY = np.frombuffer(np.array([0x7ff8dead0badbeef], dtype=np.uint64).tobytes(), dtype=np.float64)[0]
GUARD = 8
_libc = C.CDLL(None)
_libc.malloc.restype = C.c_void_p
_libc.malloc.argtypes = [C.c_size_t]
_libc.free.argtypes = [C.c_void_p]

_plugin_loaded = {}


def load_plugin(flavour):
    if flavour not in _plugin_loaded:
        so = build.exe(flavour, "libvfstateplugin.so", ["h_stateplugin.c"], ldflags=["-shared"], link_lib=False)
        lib = C.CDLL(str(so), mode=C.RTLD_GLOBAL)
        lib.vf_register_state_plugin()
        _plugin_loaded[flavour] = lib
    return _plugin_loaded[flavour]


# ---- models --------------------------------------------------------------------------------------

def build_xml(rng, level=3):
    """rich generated model + activations, history buffers, userdata, stateful plugin, mocap, equalities."""
    xml, tags = model.gen_profile(rng, "rich", mocap=0.85, nuserdata=int(rng.integers(0, 6)), equalities=3,
                                  actuators=0.8, nbody=(2, 8))
    root = ET.fromstring(xml)
    wb = root.find("worldbody")
    joints = [j for j in root.iter("joint") if j.get("type", "hinge") in ("hinge", "slide") and j.get("name")
              and j in [x for b in wb.iter("body") for x in b.findall("joint")]]
    act = root.find("actuator")
    if joints and level >= 1:
        if act is None:
            act = ET.SubElement(root, "actuator")
        jn = joints[int(rng.integers(0, len(joints)))].get("name")
        ET.SubElement(act, "general", {"name": "c26int", "joint": jn, "dyntype": "integrator", "gainprm": "0.1"})
        if rng.random() < 0.5:
            ET.SubElement(act, "motor", {"name": "c26m", "joint": jn, "nsample": "3", "delay": "0.004"})
    # multi-input actuators: the control vector has nu entries in blocks of actuator_ctrlnum, so nu != nactuator
    # (pid servo: 1-3 inputs; orientation servo on a ball joint: 3 (expmap) or 4 (quat) inputs)
    if level >= 1 and rng.random() < 0.7:
        if act is None:
            act = ET.SubElement(root, "actuator")
        if joints:
            for q in range(int(rng.integers(1, 3))):
                jn = joints[int(rng.integers(0, len(joints)))].get("name")
                ET.SubElement(act, "pid", {"name": "c26pid%d" % q, "joint": jn, "kp": "2", "kv": "0.1",
                                           "input": str(rng.choice(["pos", "pos vel", "pos vel ff", "pos ff", "vel", "ff", "vel ff"]))})
        balls = [j for b in wb.iter("body") for j in b.findall("joint") if j.get("type") == "ball" and j.get("name")]
        for j in balls[:2]:
            a = {"name": "c26ori_" + j.get("name"), "joint": j.get("name"), "kp": "1", "dampratio": "1"}
            if rng.random() < 0.5:
                a["input"] = "quat"
            ET.SubElement(act, "orientation", a)
    if act is not None and level >= 2:
        for a in list(act):
            if rng.random() < 0.4 and "nsample" not in a.attrib and a.tag not in ("pid", "orientation"):
                n = int(rng.integers(1, 6))
                a.set("nsample", str(n))
                if rng.random() < 0.6:
                    a.set("delay", repr(0.002 * n * float(rng.uniform(0.3, 1.0))))
                a.set("interp", ["zoh", "linear", "cubic"][int(rng.integers(0, 3))])
    sens = root.find("sensor")
    if level >= 2:
        if sens is None:
            sens = ET.SubElement(root, "sensor")
            ET.SubElement(sens, "clock", {"name": "c26clock"})
        for s in list(sens):
            if rng.random() < 0.4:
                n = int(rng.integers(1, 5))
                s.set("nsample", str(n))
                r = rng.random()
                if r < 0.4:
                    s.set("delay", repr(0.002 * n))
                if 0.3 < r < 0.7:
                    per = int(rng.integers(1, 6))
                    s.set("interval", "%r %r" % (0.002 * per, -0.002 * int(rng.integers(0, per))))     # -period < phase <= 0
    if level >= 3:
        bodies = list(wb.iter("body"))
        k = int(rng.integers(1, 3))
        ext = ET.Element("extension")
        pl = ET.SubElement(ext, "plugin", {"plugin": "vf.stateful"})
        for i in range(min(k, len(bodies))):
            ins = ET.SubElement(pl, "instance", {"name": "c26p%d" % i})
            ET.SubElement(ins, "config", {"key": "n", "value": str(int(rng.integers(1, 5)))})
            b = bodies[int(rng.integers(0, len(bodies)))]
            if b.find("plugin") is None:
                b.insert(0, ET.Element("plugin", {"instance": "c26p%d" % i}))
            else:
                pl.remove(ins)
        if len(pl):
            root.insert(0, ext)
    return root


def add_keys(root, m, rng):
    nkey = int(rng.integers(1, 4))
    kf = ET.SubElement(root, "keyframe")
    fmt = lambda a: " ".join(repr(float(v)) for v in np.asarray(a).ravel())
    for k in range(nkey):
        a = {"name": "k%d" % k, "time": repr(float(rng.uniform(0, 5)))}
        if rng.random() < 0.8 and m.n("nq"):
            q = m["qpos0"].copy() + rng.normal(size=m.n("nq")) * 0.1
            a["qpos"] = fmt(q)
        if rng.random() < 0.8 and m.n("nv"):
            a["qvel"] = fmt(rng.normal(size=m.n("nv")))
        if rng.random() < 0.8 and m.n("na"):
            a["act"] = fmt(rng.uniform(-0.2, 0.2, size=m.n("na")))
        if rng.random() < 0.8 and m.n("nu"):
            a["ctrl"] = fmt(rng.uniform(-0.2, 0.2, size=m.n("nu")))
        if rng.random() < 0.8 and m.n("nmocap"):
            a["mpos"] = fmt(rng.normal(size=3 * m.n("nmocap")))
            a["mquat"] = fmt(np.tile([0.5, 0.5, -0.5, 0.5], m.n("nmocap")))
        ET.SubElement(kf, "key", a)


def make_model(L, c, P):
    if c["kind"] == "corpus":
        return L.load_xml(str(build.REPO / c["path"])), None
    last = None
    for level in (3, 2, 1, 0):
        rng = np.random.default_rng(c["mseed"])
        root = build_xml(rng, level)
        try:
            m = L.load_xml_string(ET.tostring(root, encoding="unicode"))
        except drv.MjError as e:
            last = e
            P.count("augmentation_level_rejected")
            continue
        add_keys(root, m, rng)
        xml = ET.tostring(root, encoding="unicode")
        try:
            m2 = L.load_xml_string(xml)
            m.free()
            return m2, xml
        except drv.MjError as e:
            P.count("keyframes_rejected")
            return m, ET.tostring(root, encoding="unicode")
    raise last


# ---- state access (reference side) ----------------------------------------------------------------

def comp_arrays(d):
    """views of the 14 components in mjtState bit order (eq_active as its uint8 array)."""
    return [d.sv("time")] + [d[k].reshape(-1) for k in COMP[1:]]


def fill(d, rng, tag):
    """give every state element a value unique to (component, index); returns nothing."""
    arrs = comp_arrays(d)
    for k, a in enumerate(arrs):
        if COMP[k] == "eq_active":
            a[:] = rng.integers(0, 2, size=a.size).astype(np.uint8)      # mjtBool: only 0/1 are values
        else:
            a[:] = (k + 1) * 4096.0 + np.arange(a.size) + tag
    # a few special bit patterns
    if arrs[1].size and rng.random() < 0.5:
        arrs[1][int(rng.integers(0, arrs[1].size))] = -0.0
    if arrs[12].size and rng.random() < 0.5:
        arrs[12][0] = float("nan")
    if arrs[7].size and rng.random() < 0.3:
        arrs[7][-1] = float("inf")


def ref_vector(d, sig):
    parts = []
    arrs = comp_arrays(d)
    for k in range(NSTATE):
        if sig >> k & 1:
            parts.append(arrs[k].astype(np.float64))
    return np.concatenate(parts) if parts else np.zeros(0)


class Buf:
    """n doubles on the C heap; exact size (ASan red zones right behind) or with canary guards on both sides."""

    def __init__(self, n, exact):
        self.n, self.exact = n, exact
        g = 0 if exact else GUARD
        self.g = g
        self.raw = _libc.malloc(max(1, (n + 2 * g) * 8))
        self.all = drv._view(self.raw, np.float64, (n + 2 * g,)) if (n + 2 * g) else np.zeros(0)
        self.all[:] = CANARY
        self.ptr = self.raw + g * 8
        self.a = self.all[g:g + n]

    def guards_ok(self):
        if self.exact:
            return True
        g = self.g
        return _allcanary(self.all[:g]) and _allcanary(self.all[g + self.n:])

    def free(self):
        self.a = self.all = None
        _libc.free(self.raw)


def _allcanary(a):
    return bool((a.view(np.uint64) == np.uint64(0x7ff8dead0badbeef)).all())


class Image:
    """Raw byte image of an mjData: struct, buffer, used part of the arena (not under ASan: poisoned regions)."""

    def __init__(self, d):
        self.d = d
        L = d.L
        self.nstruct = L.offsetof("sizeof.mjData")
        f = d.fields()
        ptrs = [p for (p, ct, sh) in f.values() if p]
        self.buf0 = min(ptrs)
        self.nbuf = int(d.s("nbuffer"))
        end = max(p + int(np.prod(sh)) * np.dtype(L.dtype_of(ct)).itemsize for (p, ct, sh) in f.values() if p)
        assert end <= self.buf0 + self.nbuf, "field layout exceeds nbuffer"
        self.arena0 = d.arena_fields()["contact"][0]
        self.toff = L._scalars["time"][0]
        # (region, offset, nbytes) of each state component
        self.regions = [("s", self.toff, 8)]
        for k in COMP[1:]:
            p, ct, sh = f[k]
            nb = int(np.prod(sh)) * np.dtype(L.dtype_of(ct)).itemsize
            self.regions.append(("b", (p - self.buf0) if p else 0, nb))

    def grab(self):
        d = self.d
        na = int(d.s("parena"))
        return [C.string_at(d.ptr, self.nstruct), C.string_at(self.buf0, self.nbuf),
                C.string_at(self.arena0, na) if na else b""]

    def restore(self, img):
        C.memmove(self.d.ptr, img[0], self.nstruct)
        C.memmove(self.buf0, img[1], self.nbuf)

    def expected(self, dst_img, src_img, sig):
        s, b = bytearray(dst_img[0]), bytearray(dst_img[1])
        for k in range(NSTATE):
            if sig >> k & 1:
                reg, off, nb = self.regions[k]
                if reg == "s":
                    s[off:off + nb] = src_img[0][off:off + nb]
                else:
                    b[off:off + nb] = src_img[1][off:off + nb]
        return [bytes(s), bytes(b), dst_img[2]]

    def locate(self, got, exp):
        """name the first field whose bytes differ."""
        d = self.d
        if got[1] != exp[1]:
            i = next(i for i in range(len(got[1])) if got[1][i] != exp[1][i])
            for k, (p, ct, sh) in d.fields().items():
                nb = int(np.prod(sh)) * np.dtype(d.L.dtype_of(ct)).itemsize
                if p and p - self.buf0 <= i < p - self.buf0 + nb:
                    return "buffer:" + k, i - (p - self.buf0)
            return "buffer:padding", i
        if got[0] != exp[0]:
            i = next(i for i in range(len(got[0])) if got[0][i] != exp[0][i])
            for k, (off, ct, sh) in d.L._scalars.items():
                nb = int(np.prod(sh)) * np.dtype(d.L.dtype_of(ct)).itemsize
                if off <= i < off + nb:
                    return "struct:" + k, i - off
            return "struct:other", i
        return "arena", 0


# ---- signature sets --------------------------------------------------------------------------------

def signature_set(rng, tier, nrand):
    if tier == "all":
        return list(range(1 << NSTATE))
    s = [0, (1 << NSTATE) - 1]
    s += [1 << i for i in range(NSTATE)]
    s += [(1 << i) | (1 << j) for i in range(NSTATE) for j in range(i + 1, NSTATE)]
    s += [getattr(E, k) for k in COMPOSITES]
    s += [((1 << NSTATE) - 1) ^ (1 << i) for i in range(NSTATE)]
    s += [int(x) for x in rng.integers(0, 1 << NSTATE, size=nrand)]
    return list(dict.fromkeys(s))


def sig_class(sig):
    return "bits%d" % bin(sig).count("1")


# ---- the checks --------------------------------------------------------------------------------------

def check_signatures(P, L, m, src, dst, sigs, exact, label, wit, nonempty_mask):
    asan = L.flavour == "asan"
    img_src = img_dst = None
    if not asan:
        IS, ID = Image(src), Image(dst)
        img_src, img_dst = IS.grab(), ID.grab()
    sizes = [a.size for a in comp_arrays(src)]
    nviol = 0

    def viol(sig_name, sig, **kw):
        nonlocal nviol
        nviol += 1
        d = dict(wit)
        d.update(sig=sig, sig_bits=[ENUM[k] for k in range(NSTATE) if sig >> k & 1], **kw)
        P.violation(sig_name, d)

    for sig in sigs:
        if nviol > 6:
            break
        nref = sum(sizes[k] for k in range(NSTATE) if sig >> k & 1)
        n = L.call("mj_stateSize", m, sig)
        if n != nref:
            viol("stateSize-differs-from-sum-of-components", sig, got=n, expected=nref)
            continue
        ref = ref_vector(src, sig)
        # --- getState
        B = Buf(nref, exact)
        L.call("mj_getState", m, src, B.ptr, sig, ret=None)
        if not B.guards_ok():
            viol("getState-writes-outside-stateSize", sig, n=nref)
        elif B.a.tobytes() != ref.tobytes():
            i = int(np.flatnonzero(B.a.view(np.uint64) != ref.view(np.uint64))[0])
            viol("getState-content-differs-from-concatenated-fields", sig, index=i, got=float(B.a[i]), expected=float(ref[i]),
                 unwritten=bool(_allcanary(B.a[i:i + 1])))
        if img_src is not None and IS.grab() != img_src:
            viol("getState-modifies-source-data", sig, where=IS.locate(IS.grab(), img_src)[0])
            IS.restore(img_src)
        # --- setState(getState) into a differently filled mjData
        vec = Buf(nref, exact)
        vec.a[:] = ref
        L.call("mj_setState", m, dst, vec.ptr, sig, ret=None)
        if asan:
            got = ref_vector(dst, sig)
            if got.tobytes() != ref.tobytes():
                viol("setState-does-not-restore-selected-components", sig)
            # un-selected components are checked on the rel flavour (raw image)
        else:
            exp = ID.expected(img_dst, img_src, sig)
            got = ID.grab()
            if got != exp:
                w, off = ID.locate(got, exp)
                comp = w.split(":")[1]
                selected = comp in [COMP[k] for k in range(NSTATE) if sig >> k & 1]
                viol("setState-%s" % ("does-not-restore-selected-component" if selected else "changes-unselected-field"), sig,
                     where=w, byte_offset=off)
            ID.restore(img_dst)
        if vec.a.tobytes() != ref.tobytes() or not vec.guards_ok():
            viol("setState-modifies-input-vector", sig)
        vec.free()
        # --- copyState == get o set
        L.call("mj_copyState", m, src, dst, sig, ret=None)
        if asan:
            if ref_vector(dst, sig).tobytes() != ref.tobytes():
                viol("copyState-differs-from-get-then-set", sig)
            fill_restore = True
        else:
            got = ID.grab()
            if got != exp:
                w, off = ID.locate(got, exp)
                viol("copyState-differs-from-get-then-set", sig, where=w, byte_offset=off)
            ID.restore(img_dst)
            if IS.grab() != img_src:
                viol("copyState-modifies-source-data", sig)
                IS.restore(img_src)
        B.free()
        nontriv = bool(sig & nonempty_mask)
        P.case(key="%s|%s" % (label, sig_class(sig)), nontrivial=nontriv,
               sample={"model": label, "sig": sig, "size": nref, "component_sizes": sizes})
        P.count("signatures")
        if nontriv:
            P.count("signatures_nonempty")
    return nviol


def check_extract(P, L, m, src, pairs, exact, label, wit):
    sizes = [a.size for a in comp_arrays(src)]
    nviol = 0
    cache = {}
    for srcsig, dstsig in pairs:
        if nviol > 4:
            break
        if srcsig not in cache:
            cache.clear()
            cache[srcsig] = ref_vector(src, srcsig)
        sv = cache[srcsig]
        S = Buf(sv.size, exact)
        S.a[:] = sv
        nd = sum(sizes[k] for k in range(NSTATE) if dstsig >> k & 1)
        D = Buf(nd, exact)
        L.call("mj_extractState", m, S.ptr, srcsig, D.ptr, dstsig, ret=None)
        ref = ref_vector(src, dstsig)
        if not D.guards_ok():
            P.violation("extractState-writes-outside-stateSize", dict(wit, srcsig=srcsig, dstsig=dstsig))
            nviol += 1
        elif D.a.tobytes() != ref.tobytes():
            i = int(np.flatnonzero(D.a.view(np.uint64) != ref.view(np.uint64))[0])
            P.violation("extractState-differs-from-getState-of-subsignature",
                        dict(wit, srcsig=srcsig, dstsig=dstsig, index=i, got=float(D.a[i]), expected=float(ref[i])))
            nviol += 1
        if S.a.tobytes() != sv.tobytes():
            P.violation("extractState-modifies-source-vector", dict(wit, srcsig=srcsig, dstsig=dstsig))
            nviol += 1
        S.free()
        D.free()
        P.count("extract_pairs")
        P.case(key="%s|extract|%s>%s" % (label, sig_class(srcsig), sig_class(dstsig)), nontrivial=nd > 0)


def check_invalid(P, L, m, src, dst, label, wit):
    """documented: get/set fail with mju_error if sig is invalid; extract fails if dstsig is not a subset."""
    full = (1 << NSTATE) - 1
    bad = [-1, 1 << NSTATE, (1 << NSTATE) + 5, 1 << 20, -(1 << 31), (1 << 31) - 1, -(1 << NSTATE)]
    n = L.call("mj_stateSize", m, full)
    for sig in bad:
        for fn in ("mj_getState", "mj_setState", "mj_copyState", "mj_stateSize"):
            B = Buf(n, False)
            before = ref_vector(dst, full).tobytes()
            raised = False
            try:
                if fn == "mj_getState":
                    L.call(fn, m, src, B.ptr, sig, ret=None)
                elif fn == "mj_setState":
                    L.call(fn, m, dst, B.ptr, sig, ret=None)
                elif fn == "mj_copyState":
                    L.call(fn, m, src, dst, sig, ret=None)
                else:
                    L.call(fn, m, sig)
            except drv.MjError:
                raised = True
            wrote = (not _allcanary(B.all)) or ref_vector(dst, full).tobytes() != before
            B.free()
            P.count("invalid_signature_calls")
            if wrote:
                P.violation("invalid-signature-writes:%s" % fn, dict(wit, sig=sig))
            elif not raised and fn in ("mj_getState", "mj_setState"):
                P.violation("invalid-signature-not-rejected:%s" % fn, dict(wit, sig=sig))
            elif not raised:
                P.count("invalid_signature_silently_accepted:" + fn)
    # extract with dstsig not a subset of srcsig
    for srcsig, dstsig in [(0b1110, 0b0001), (0b0110, 0b1110), (full ^ 1, full), (0, 1), (full, 1 << NSTATE), (full, -1),
                           (1 << NSTATE, 0), (-1, 0), (-1, 2)]:
        S = Buf(n, False)
        D = Buf(n, False)
        S.a[:] = 1.5
        raised = False
        try:
            L.call("mj_extractState", m, S.ptr, srcsig, D.ptr, dstsig, ret=None)
        except drv.MjError:
            raised = True
        wrote = not _allcanary(D.all)
        S.free()
        D.free()
        P.count("invalid_signature_calls")
        if wrote:
            P.violation("extractState-writes-on-invalid-signature", dict(wit, srcsig=srcsig, dstsig=dstsig))
        elif not raised:
            P.violation("extractState-accepts-non-subset-signature", dict(wit, srcsig=srcsig, dstsig=dstsig))


def history_reference(m):
    """documented initial timestamps/values (doc/modeling.rst, Delays/Initialization): mask + expected."""
    nh = m.n("nhistory")
    exp = np.zeros(nh)
    mask = np.zeros(nh, dtype=bool)
    dt = m.opt["timestep"]
    for (cnt, hist, adr, dimf) in ((m["actuator_history"].reshape(-1, 2).shape[0], "actuator_history", "actuator_historyadr", None),
                                  (m.n("nsensor"), "sensor_history", "sensor_historyadr", "sensor_dim")):
        for i in range(cnt):
            n = int(m[hist].reshape(-1, 2)[i, 0])
            if n <= 0:
                continue
            a = int(m[adr][i])
            dim = int(m[dimf][i]) if dimf else 1
            period = phase = 0.0
            if dimf:
                period, phase = [float(v) for v in m["sensor_interval"].reshape(-1, 2)[i]]
            for j in range(n):
                if period > 0:
                    t0 = -period if phase == 0 else phase
                    exp[a + 2 + j] = np.ceil((t0 - (n - 1 - j) * period) / dt) * dt
                else:
                    exp[a + 2 + j] = -(n - j) * dt
            mask[a + 2:a + 2 + n + n * dim] = True
    return mask, exp


def documented_defaults(m, d_plugin_expected=None):
    """state components after mj_resetData according to the documentation."""
    out = {"time": np.zeros(1), "qpos": m["qpos0"].copy().reshape(-1), "qvel": np.zeros(m.n("nv")), "act": np.zeros(m.n("na")),
           "qacc_warmstart": np.zeros(m.n("nv")), "ctrl": np.zeros(m.n("nu")), "qfrc_applied": np.zeros(m.n("nv")),
           "xfrc_applied": np.zeros(6 * m.n("nbody")), "eq_active": m["eq_active0"].copy().reshape(-1),
           "userdata": np.zeros(m.n("nuserdata"))}
    mp, mq = np.zeros((m.n("nmocap"), 3)), np.zeros((m.n("nmocap"), 4))
    for b, k in enumerate(m["body_mocapid"]):
        if k >= 0:
            mp[k], mq[k] = m["body_pos"][b], m["body_quat"][b]
    out["mocap_pos"], out["mocap_quat"] = mp.reshape(-1), mq.reshape(-1)
    return out


def use(L, m, d, rng):
    """make d a 'used' mjData: random inputs, some steps, then scribble over every state component."""
    from .. import common
    try:
        common.random_state(rng, m, d, vel_scale=0.3)
        common.random_controls(rng, m, d)
        d.step(int(rng.integers(1, 6)))
    except drv.MjError:
        d.reset()
    return d


def snap(d):
    """all mjData arrays and struct members; structured members (timer, warning, solver) by named field, so that
    struct padding is not compared."""
    out = {}
    for k, v in d.snapshot(arena=False, skip=("plugin_data", "threadpool")).items():
        if v.dtype.names:
            for f in v.dtype.names:
                out[k + "." + f] = np.ascontiguousarray(v[f])
        else:
            out[k] = v
    return out


def check_reset(P, L, m, rng, label, wit, so3=False):
    fresh = m.make_data()
    used = m.make_data()
    use(L, m, used, rng)
    fill(used, rng, 0.375)
    used.reset()
    sf, su = snap(fresh), snap(used)
    dd = drv.diff_snapshots(sf, su)
    P.count("reset_checks")
    if dd:
        P.violation("resetData-differs-from-fresh-makeData:%s" % dd[0][0], dict(wit, fields=[x[0] for x in dd[:10]], index=dd[0][1],
                                                                              fresh=dd[0][2], reset=dd[0][3]))
    # documented defaults (independent of _resetData, which both sides share)
    if not so3:
        doc = documented_defaults(m)
        arrs = dict(zip(COMP, comp_arrays(used)))
        for k, v in doc.items():
            got = arrs[k].astype(np.float64).reshape(-1)
            if got.tobytes() != np.asarray(v, dtype=np.float64).tobytes() and not np.array_equal(got, v):
                i = int(np.flatnonzero(got != v)[0])
                P.violation("resetData-differs-from-documented-default:%s" % k, dict(wit, index=i, got=float(got[i]), expected=float(v[i])))
        mask, exp = history_reference(m)
        h = used["history"].reshape(-1)
        if mask.any():
            P.count("reset_history_slots_checked", int(mask.sum()))
            bad = np.flatnonzero(mask & ~(np.abs(h - exp) <= 1e-12 * np.maximum(1.0, np.abs(exp))))
            if len(bad):
                i = int(bad[0])
                P.violation("resetData-history-differs-from-documented-initialization", dict(wit, index=i, got=float(h[i]), expected=float(exp[i])))
    # keyframes
    nkey = m.n("nkey")
    keyed = [("time", "key_time", 1), ("qpos", "key_qpos", m.n("nq")), ("qvel", "key_qvel", m.n("nv")), ("act", "key_act", m.n("na")),
             ("mocap_pos", "key_mpos", 3 * m.n("nmocap")), ("mocap_quat", "key_mquat", 4 * m.n("nmocap")), ("ctrl", "key_ctrl", m.n("nu"))]
    for k in list(range(nkey)) + [-1, nkey, nkey + 3]:
        use(L, m, used, rng)
        fill(used, rng, 0.875)
        try:
            L.call("mj_resetDataKeyframe", m, used, k, ret=None)
        except drv.MjError as e:
            P.count("keyframe_reset_error")
            used.reset()
            continue
        exp = {kk: v.copy() for kk, v in su.items()}
        if 0 <= k < nkey:
            for f, kf, n in keyed:
                val = m[kf].reshape(nkey, -1)[k]
                if f == "time":
                    exp["s.time"] = np.array([val[0]])
                else:
                    exp[f] = val.reshape(exp[f].shape).copy()
        got = snap(used)
        dd = drv.diff_snapshots(exp, got)
        P.count("keyframe_resets")
        P.case(key="%s|key|%s" % (label, "valid" if 0 <= k < nkey else "invalid"), nontrivial=True)
        if dd:
            f = dd[0][0]
            iskeyed = f in [x[0] for x in keyed] or f == "s.time"
            P.violation("resetDataKeyframe-%s:%s" % ("keyed-field-differs-from-key" if iskeyed and 0 <= k < nkey else "unkeyed-field-differs-from-reset", f),
                        dict(wit, key=k, nkey=nkey, fields=[x[0] for x in dd[:10]], index=dd[0][1], expected=dd[0][2], got=dd[0][3]))
    fresh.free()
    used.free()


def worker(c):
    P = core.Part()
    flavour = "asan" if c.get("asan") else "rel"
    L = drv.Lib(flavour)
    load_plugin(flavour)
    rng = np.random.default_rng(c["seed"])
    try:
        m, xml = make_model(L, c, P)
    except drv.MjError as e:
        P.count("model_rejected")
        return P.result()
    label = c.get("path") or "gen:%d" % c["mseed"]
    wit = {"case": c, "model": label, "xml": xml}
    sleep = bool(int(m.opt["enableflags"]) & E.mjENBL_SLEEP)
    try:
        src, dst = m.make_data(), m.make_data()
    except drv.MjError:
        P.count("makedata_rejected")
        return P.result()
    use(L, m, src, rng)
    use(L, m, dst, rng)
    fill(src, rng, 0.125)
    fill(dst, rng, 0.625 + 2048)
    sizes = [a.size for a in comp_arrays(src)]
    nonempty = sum(1 << k for k in range(NSTATE) if sizes[k])
    for k in range(NSTATE):
        if sizes[k]:
            P.count("models_with_nonempty:" + COMP[k])
    if nonempty == (1 << NSTATE) - 1:
        P.count("models_with_all_components_nonempty")
    exact = bool(c.get("asan"))
    sigs = signature_set(rng, c["sigs"], c.get("nrand", 500))
    nv = check_signatures(P, L, m, src, dst, sigs, exact, label, wit, nonempty)
    # extract: for sampled source signatures, all (or a sample of) sub-signatures
    pairs = []
    full = (1 << NSTATE) - 1
    srcs = [full] + [int(x) for x in rng.integers(0, 1 << NSTATE, size=c.get("nsrc", 6))]
    for s in srcs:
        bits = [k for k in range(NSTATE) if s >> k & 1]
        nsub = 1 << len(bits)
        cap = c.get("nsub", 64)
        idx = range(nsub) if nsub <= cap or (s == full and c["sigs"] == "all") else [int(x) for x in rng.integers(0, nsub, size=cap)] + [0, nsub - 1]
        for t in idx:
            dsig = sum(1 << bits[i] for i in range(len(bits)) if t >> i & 1)
            pairs.append((s, dsig))
    check_extract(P, L, m, src, pairs, exact, label, wit)
    check_invalid(P, L, m, src, dst, label, wit)
    src.free()
    dst.free()
    if not c.get("asan"):
        so3 = bool((m["actuator_gaintype"] == getattr(E, "mjGAIN_SO3", -99)).any()) if m.n("nu") else False
        check_reset(P, L, m, rng, label, wit, so3=so3)
    P.count("models")
    m.free()
    return P.result()


def cases(ctx):
    rng = ctx.rng
    cs = []
    ngen = ctx.pick(30, 260)
    for i in range(ngen):
        cs.append({"kind": "gen", "mseed": int(rng.integers(0, 2 ** 31)), "seed": int(rng.integers(0, 2 ** 31)),
                   "sigs": ctx.pick("sample", "all"), "nrand": 500, "nsrc": ctx.pick(6, 16), "nsub": 64})
    corp = [c for c in corpus.loadable() if c["nv"] <= 120]
    idx = rng.permutation(len(corp))
    for i in idx[:ctx.pick(10, 40)]:
        cs.append({"kind": "corpus", "path": corp[int(i)]["path"], "seed": int(rng.integers(0, 2 ** 31)),
                   "sigs": "sample", "nrand": ctx.pick(200, 2000), "nsrc": ctx.pick(4, 16), "nsub": 64})
    return cs


def run(ctx):
    build.ensure("rel")
    build.exe("rel", "libvfstateplugin.so", ["h_stateplugin.c"], ldflags=["-shared"], link_lib=False)
    cs = cases(ctx)
    res = par.run("vf.props.c26", "worker", cs, nproc=16, timeout=ctx.pick(300, 1200), chunk=1)
    sub, res2 = [], []
    if os.environ.get("VF_SKIP_ASAN"):      # development knob for mutant screening only; recorded in the evidence
        ctx.count("asan_stage_skipped_by_env")
    else:
        build.ensure("asan")
        build.exe("asan", "libvfstateplugin.so", ["h_stateplugin.c"], ldflags=["-shared"], link_lib=False)
        sub = [dict(c, asan=True, sigs="sample", nrand=ctx.pick(60, 1500), nsrc=ctx.pick(2, 4), nsub=32) for c in cs if c["kind"] == "gen"][:ctx.pick(6, 48)]
        res2 = par.run("vf.props.c26", "worker", sub, nproc=16, timeout=ctx.pick(300, 1200), asan=True, chunk=1)
    for c, r in list(zip(cs, res)) + list(zip(sub, res2)):
        if r is None:
            ctx.inconclusive("worker returned nothing")
        elif "crash" in r:
            ctx.count("worker_crash")
            tail = r["crash"][-2000:]
            if "AddressSanitizer" in tail or "runtime error" in tail:
                ctx.violation("sanitizer-report-in-state-api", {"case": c, "stderr": tail, "rc": r.get("rc")})
            else:
                ctx.inconclusive("worker crashed: rc=%s %s" % (r.get("rc"), tail[-200:]))
        elif "exception" in r:
            ctx.count("harness_exception")
            ctx.inconclusive("harness exception in worker: " + r["exception"] + r.get("trace", "")[-600:])
        else:
            ctx.merge(r)
    ctx.count("asan_cases", len(sub))
    nm = ctx.counters.get("models", 0)
    if ctx.counters.get("models_with_all_components_nonempty", 0) < ctx.pick(5, 50):
        ctx.inconclusive("too few models with all 14 components non-empty")
    ctx.exhaustive = (not ctx.quick)
    ctx.explanation = ("all 2^14 signatures enumerated for every generated model" if not ctx.quick else
                       "signature sample per model (exhaustive enumeration in the thorough tier)")
    ctx.min_nontrivial = ctx.pick(300, 3000)


def replay(ctx, path):
    rec = json.load(open(path))
    c = rec["detail"]["case"]
    if c.get("asan"):
        res = par.run("vf.props.c26", "worker", [c], nproc=1, timeout=1200, asan=True)
        r = res[0]
        if r and "crash" in r:
            ctx.violation("sanitizer-report-in-state-api", {"case": c, "stderr": r["crash"][-2000:]})
        elif r and "exception" not in r:
            ctx.merge(r)
    else:
        ctx.merge(worker(c))
    ctx.min_nontrivial = 1
