"""C31 Binary model files round-trip exactly; corrupt files are rejected."""
import ctypes as C
import json
import os
import sys
import tempfile

import numpy as np

from .. import build, core, drv, par
from ..gen import corpus, model
from ..mjconst import E
from ..ref import model_refs

LEVEL = "fault_enumeration"
RULE = ("(1) round trip: mj_saveModel into a buffer of exactly mj_sizeModel bytes (and to a file), load, and compare every "
        "size, every array (field table from the tree's X-macros), mjOption, mjVisual and mjStatistic byte for byte; a "
        "buffer one byte smaller must fail cleanly. (2) crash points: the serialized image is truncated at EVERY length "
        "0..N for images up to 24 kB, and at a stride plus all 64-byte boundaries around the header for larger ones. "
        "(3) corruption: every 4-byte word of the header/size/option region and sampled entries of every int array that "
        "can be located in the image are overwritten with {0, -1, INT_MAX, INT_MIN, value+-1, bound, bound+1}; multi-word "
        "corruptions are drawn at random. Oracle for each mutated image: mj_loadModelBuffer returns NULL, or a model that "
        "passes an independent cross-reference validator (vf/ref/model_refs.py)  mj_makeData + mj_forward + "
        "mj_step + mjv_updateScene; an ASan subsample uses exact-size heap copies of the image so reads beyond the "
        "truncated length are reported. distinct = (model, fault kind, position class, outcome)")
ASSUMPTIONS = ["corruptions that only change real-valued data are accepted models",
               "errors raised through mju_error while simulating an accepted corrupted model are 'surfacing through the error channel', not violations",
               "the libFuzzer target of the design is not built in this session; faults are enumerated/sampled by the harness instead"]

I32MAX, I32MIN = 2 ** 31 - 1, -2 ** 31


def _load_case(L, c):
    if c["kind"] == "corpus":
        return L.load_xml(str(build.REPO / c["path"])), c["path"]
    xml, tags = model.gen_profile(np.random.default_rng(c["mseed"]), c["profile"])
    return L.load_xml_string(xml), "gen:%s:%d" % (c["profile"], c["mseed"])


def _save(L, m):
    sz = L.call("mj_sizeModel", m, ret="i64")
    buf = np.zeros(sz + 64, dtype=np.uint8)
    buf[sz:] = 0xCD
    L.call("mj_saveModel", m, None, buf, sz, ret=None)
    if not (buf[sz:] == 0xCD).all():
        return sz, buf[:sz].copy(), "mj_saveModel wrote past mj_sizeModel bytes"
    return sz, buf[:sz].copy(), None


def _model_equal(m1, m2):
    s1, s2 = m1.sizes(), m2.sizes()
    for k in s1:
        if s1[k] != s2.get(k):
            return "size %s: %s != %s" % (k, s1[k], s2.get(k))
    for k in m1.fields():
        a, b = m1[k], m2[k]
        if a.shape != b.shape or a.tobytes() != b.tobytes():
            return "array %s differs" % k
    if m1.opt_bytes() != m2.opt_bytes():
        return "mjOption differs"
    if m1.vis_bytes() != m2.vis_bytes():
        return "mjVisual differs"
    if m1.stat_bytes() != m2.stat_bytes():
        return "mjStatistic differs"
    return None


def _try_load(L, img, exact=False):
    """returns (Model|None, error message|None)"""
    a = np.array(img, dtype=np.uint8, copy=True) if exact else img
    if a.size == 0:
        a = np.zeros(1, dtype=np.uint8)
        n = 0
    else:
        n = a.size
    L.clear_messages()
    try:
        p = L.call("mj_loadModelBuffer", a, n, ret="ptr")
    except drv.MjError as e:
        return None, "error:" + str(e)[:60]
    if not p:
        return None, None
    return drv.Model(L, p), None


def _exercise(L, m2):
    """an accepted image must behave; engine errors are fine, crashes are caught by the caller's process isolation"""
    try:
        d = m2.make_data()
    except drv.MjError:
        return "makedata-error"
    try:
        d.forward()
        d.step(2)
    except drv.MjError:
        d.free()
        return "sim-error"
    # scene construction walks many cross-references
    try:
        scn = np.zeros(L.offsetof("sizeof.mjvScene") + 64, dtype=np.uint8)
        opt = np.zeros(L.offsetof("sizeof.mjvOption") + 64, dtype=np.uint8)
        cam = np.zeros(L.offsetof("sizeof.mjvCamera") + 64, dtype=np.uint8)
        L.call("mjv_defaultScene", scn, ret=None)
        L.call("mjv_defaultOption", opt, ret=None)
        L.call("mjv_defaultFreeCamera", m2, cam, ret=None)
        L.call("mjv_makeScene", m2, scn, 2000, ret=None)
        try:
            L.call("mjv_updateScene", m2, d, opt, None, cam, E.mjCAT_ALL, scn, ret=None)
        finally:
            L.call("mjv_freeScene", scn, ret=None)
    except drv.MjError:
        d.free()
        return "scene-error"
    d.free()
    return "ok"


def worker(c):
    P = core.Part()
    L = drv.Lib(c.get("flavour", "rel"))
    exact = c.get("flavour") == "asan"
    try:
        m, name = _load_case(L, c)
    except drv.MjError:
        P.count("model_rejected")
        return P.result()
    rng = np.random.default_rng(c["seed"])
    sz, img, err = _save(L, m)
    if err:
        P.violation("save-overruns-sizeModel", {"model": name, "case": c, "message": err})
    # ---- (1) round trip
    m2, e = _try_load(L, img, exact)
    if m2 is None:
        P.violation("roundtrip-load-failed", {"model": name, "case": c, "message": e})
        return P.result()
    diff = _model_equal(m, m2)
    if diff:
        P.violation("roundtrip-differs:" + diff.split(":")[0].split(" ")[0], {"model": name, "case": c, "message": diff})
    sz2, img2, _ = _save(L, m2)
    if sz2 != sz or img2.tobytes() != img.tobytes():
        P.violation("second-generation-image-differs", {"model": name, "case": c})
    m2.free()
    P.case("%s|roundtrip" % name, sample={"model": name, "image_bytes": int(sz)})
    # file variant
    with tempfile.NamedTemporaryFile(suffix=".mjb", dir=str(core.OUT), delete=False) as f:
        fn = f.name
    try:
        L.call("mj_saveModel", m, fn, None, 0, ret=None)
        if os.path.getsize(fn) != sz:
            P.violation("file-size-differs-from-sizeModel", {"model": name, "file": os.path.getsize(fn), "sizeModel": int(sz)})
        p = L.call("mj_loadModel", fn, None, ret="ptr")
        if not p:
            P.violation("roundtrip-file-load-failed", {"model": name, "case": c})
        else:
            m3 = drv.Model(L, p)
            diff = _model_equal(m, m3)
            if diff:
                P.violation("roundtrip-file-differs", {"model": name, "case": c, "message": diff})
            m3.free()
    finally:
        os.unlink(fn)
    # one byte too small must fail cleanly
    small = np.zeros(sz, dtype=np.uint8)
    try:
        L.call("mj_saveModel", m, None, small, sz - 1, ret=None)
        P.count("save_into_short_buffer_returned")
    except drv.MjError:
        P.count("save_into_short_buffer_raised")
    f = L.lib.vf_model_size_addr
    f.restype = C.c_void_p
    f.argtypes = [C.c_void_p, C.c_char_p, C.POINTER(C.c_int)]
    nbsum = 0
    for nm in m.sizes():
        nb = C.c_int()
        f(m.ptr, nm.encode(), C.byref(nb))
        nbsum += nb.value
    hdr = 20 + nbsum + L.offsetof("sizeof.mjOption") + L.offsetof("sizeof.mjVisual") + L.offsetof("sizeof.mjStatistic") + 2
    P.note_max("header_bytes", hdr)

    def judge(kind, cls, img_mut, desc):
        sys.stderr.write("C31-AT %s %s %s\n" % (name, kind, desc))
        sys.stderr.flush()
        mm, e = _try_load(L, img_mut, exact)
        if mm is None:
            out = "rejected" if e is None else "rejected-with-error"
        else:
            neg = [k for k, v in mm.sizes().items() if v < (-1 if k in ("njmax", "nconmax") else 0)]   # -1 = unlimited (documented)
            bad = model_refs.validate(mm) if not neg else []
            if neg:
                P.violation("accepted-image-with-unvalidated-size:negative:%s" % neg[0], {"model": name, "case": c, "fault": kind, "at": desc, "sizes": neg[:5]})
                out = "accepted-negative-size"
            elif bad:
                arr, idx, val, hi = bad[0]
                lo = model_refs.SIMPLE.get(arr, (None, None, 0))[2]
                cls = "minus-one-where-no-none-value" if (val == -1 and lo == 0) else ("below-range" if val < 0 else "beyond-range")
                P.violation("accepted-image-with-out-of-range-reference:%s:%s" % (cls, arr), {"model": name, "case": c, "fault": kind, "at": desc, "bad": bad[:5]})
                out = "accepted-bad-reference"
            else:
                out = "accepted-references-in-bounds"
            mm.free()
        P.case("%s|%s|%s|%s" % (name, kind, cls, out), nontrivial=True, sample={"model": name, "fault": kind, "at": desc, "outcome": out} if rng.random() < 0.01 else None)
        P.count("outcome:%s:%s" % (kind, out))

    # ---- (2) truncation at every length
    if c.get("truncate", True):
        if sz <= c["every_below"]:
            lens = range(0, sz)
        else:
            lens = sorted(set(list(range(0, min(sz, hdr + 512))) + list(range(0, sz, max(1, sz // c["ntrunc"]))) + [sz - k for k in (1, 2, 3, 4, 7, 8, 9, 63, 64, 65)]))
        for n in lens:
            cls = "hdr" if n < hdr else "buf"
            judge("truncate", cls, img[:n], "len=%d/%d" % (n, sz))
        P.count("truncation_lengths", len(lens))
    # ---- (3) corruption of header words
    words = list(range(0, min(hdr, sz) - 3, 4))
    if len(words) > c["nhdr"]:
        words = sorted(set(int(x) for x in rng.choice(words, size=c["nhdr"], replace=False)) | set(range(0, 64, 4)))
    for off in words:
        v = int(np.frombuffer(img[off:off + 4].tobytes(), dtype=np.int32)[0])
        for nv in ({0, -1, I32MAX, v + 1, v - 1} if c["nhdr"] < 100 else {0, -1, I32MAX, I32MIN, v + 1, v - 1, v * 2 + 1}):
            if nv == v or not (I32MIN <= nv <= I32MAX):
                continue
            mut = img.copy()
            mut[off:off + 4] = np.frombuffer(np.int32(nv).tobytes(), dtype=np.uint8)
            judge("header-word", "hdr", mut, "off=%d %d->%d" % (off, v, nv))
    # ---- corruption of located int arrays
    blob = img.tobytes()
    narr = 0
    # exact offsets: after the header the image is the arrays of MJMODEL_POINTERS written back to back in X-macro order (mj_saveModel),
    # so the offset of an array is the image size minus the bytes of that array and all later ones; verified against the bytes
    flds = list(m.fields().items())
    offs = {}
    tail_bytes = 0
    for k, (ptr, ct, shape) in reversed(flds):
        tail_bytes += int(m[k].nbytes) if ptr else 0
        offs[k] = sz - tail_bytes
    for k, (ptr, ct, shape) in flds:
        if ct != "int":
            continue
        a = m[k]
        if a.size == 0:
            continue
        pos = offs[k]
        if pos < hdr or blob[pos:pos + a.nbytes] != a.tobytes():
            P.count("int_array_offset_not_confirmed")
            continue
        narr += 1
        idxs = sorted(set([0, a.size - 1] + [int(x) for x in rng.integers(0, a.size, size=c["nidx"])]))
        flat = a.ravel()
        for i in idxs:
            v = int(flat[i])
            for nv in ((-1, I32MAX, int(a.max()) + 1) if c["nidx"] < 2 else (-1, -2, I32MAX, v + 1, int(a.max()) + 1, 1 << 20)):
                if nv == v:
                    continue
                mut = img.copy()
                o = pos + 4 * i
                mut[o:o + 4] = np.frombuffer(np.int32(nv).tobytes(), dtype=np.uint8)
                judge("int-array", k, mut, "%s[%d] %d->%d" % (k, i, v, nv))
    P.count("int_arrays_located", narr)
    # ---- type-like arrays: every enumerator value, not only the extremes (a validator branch taken for ONE particular type may index
    # other arrays through references that were validated for a different type)
    TYPE_ARRAYS = {"sensor_type": 64, "sensor_objtype": 32, "sensor_reftype": 32, "jnt_type": 8, "geom_type": 12, "actuator_trntype": 10,
                   "actuator_dyntype": 10, "actuator_gaintype": 10, "actuator_biastype": 10, "eq_type": 10, "eq_objtype": 32, "wrap_type": 8,
                   "cam_targetbodyid": 0, "light_type": 6, "tex_type": 6, "sensor_datatype": 6, "sensor_needstage": 6}
    for k, top in TYPE_ARRAYS.items():
        if not top or k not in offs or k not in m.fields() or m.fields()[k][1] != "int":
            continue
        a = m[k]
        if a.size == 0 or blob[offs[k]:offs[k] + a.nbytes] != a.tobytes():
            continue
        flat = a.ravel()
        for i in sorted(set([0, a.size - 1, int(rng.integers(0, a.size))])):
            for nv in range(top):
                if nv == int(flat[i]):
                    continue
                mut = img.copy()
                o = offs[k] + 4 * i
                mut[o:o + 4] = np.frombuffer(np.int32(nv).tobytes(), dtype=np.uint8)
                judge("int-array", k, mut, "%s[%d] %d->%d (type sweep)" % (k, i, int(flat[i]), nv))
        P.count("type_arrays_swept")
    # ---- random multi-byte corruptions
    for j in range(c["nrandom"]):
        mut = img.copy()
        for _ in range(int(rng.integers(1, 5))):
            o = int(rng.integers(0, sz - 8))
            w = int(rng.choice([1, 4, 8]))
            mut[o:o + w] = rng.integers(0, 256, size=w, dtype=np.uint8)
        judge("random-bytes", "any", mut, "seed=%d#%d" % (c["seed"], j))
    m.free()
    return P.result()


def run(ctx):
    rng = ctx.rng
    cs = []
    base = dict(every_below=ctx.pick(9000, 60000), ntrunc=ctx.pick(150, 3000), nhdr=ctx.pick(50, 2000), nidx=ctx.pick(1, 8), nrandom=ctx.pick(20, 400))
    for i in range(ctx.pick(8, 160)):
        cs.append(dict(base, kind="gen", profile=["rich", "contact", "smooth"][i % 3], mseed=int(rng.integers(0, 2 ** 31)), seed=int(rng.integers(0, 2 ** 31))))
    corp = [c for c in corpus.loadable() if c["nv"] < 200 and c["nmesh"] == 0 and c["nflex"] == 0 and c["ngeom"] < 60]
    idx = rng.permutation(len(corp))
    for i in idx[: ctx.pick(6, len(corp))]:
        cs.append(dict(base, kind="corpus", path=corp[int(i)]["path"], seed=int(rng.integers(0, 2 ** 31))))
    res = par.run("vf.props.c31", "worker", cs, nproc=14, timeout=ctx.pick(900, 3000), chunk=1)
    acs = [dict(c, flavour="asan", every_below=0, ntrunc=ctx.pick(60, 600), nhdr=ctx.pick(30, 300), nidx=1, nrandom=ctx.pick(8, 80)) for c in cs[: ctx.pick(4, 40)]]
    ares = par.run("vf.props.c31", "worker", acs, nproc=8, timeout=ctx.pick(1200, 3600), asan=True, chunk=1)
    timed_out = []
    for c, r in list(zip(cs, res)) + list(zip(acs, ares)):
        if r is None:
            ctx.inconclusive("worker returned nothing")
        elif "crash" in r and r.get("rc") == "timeout":
            ctx.count("worker_watchdog_timeouts")
            timed_out.append({k: c[k] for k in c if k in ("kind", "path", "mseed", "flavour")})
        elif "crash" in r:
            from .. import nat
            body = "\n".join(l for l in r["crash"].splitlines() if not l.startswith("C31-AT"))
            reps = nat.san_reports(nat.symbolize_offline(body[-12000:])) if nat.SAN_RE.search(body) else []
            at = [l for l in r["crash"].splitlines() if l.startswith("C31-AT")]
            if reps:
                ctx.violation("sanitizer-report-on-mutated-image:%s:%s" % (at[-1].split(" ")[2] if at else "unknown", reps[0][1]),
                              {"case": c, "at": at[-1] if at else None, "report": reps[0][2][:3000]})
                continue
            ctx.violation("crash-or-sanitizer-report-loading-or-using-mutated-image:" + (at[-1].split(" ")[2] if at else "unknown"),
                          {"case": c, "rc": r.get("rc"), "at": at[-1] if at else None,
                           "stderr": "\n".join([l for l in r["crash"].splitlines() if not l.startswith("C31-AT")][-40:])})
        elif "exception" in r:
            ctx.inconclusive("harness exception: " + r["exception"] + r.get("trace", "")[-500:])
        else:
            if c.get("flavour") == "asan":
                ctx.count("asan_cases")
            ctx.merge(r)
    # a worker killed by the wall-clock watchdog (loaded machine) decided nothing: its cases are simply not part of what was observed.
    # The run is inconclusive only when that removes a quarter or more of the workload.
    if 4 * len(timed_out) >= len(cs) + len(acs):
        ctx.inconclusive("wall-clock watchdog fired for %d of %d workers, e.g. %s" % (len(timed_out), len(cs) + len(acs), timed_out[0]))
    ctx.min_nontrivial = ctx.pick(200, 2000)


def replay(ctx, path):
    rec = json.load(open(path))
    ctx.merge(worker(rec["detail"]["case"]))
    ctx.min_nontrivial = 1
