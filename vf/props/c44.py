"""C44 MJX batching, compilation and data transfer are transparent (mjx/_src/io.py, types.py, dataclasses.py, forward.py)."""
import json

import numpy as np

from .. import core, par

LEVEL = "exploration"
RULE = ("random MJX-supported models (generator of vf/mjxrepo.py: smooth / constrained / contact profiles with mocap bodies, "
        "stateful actuators, equalities, userdata) x random states. Per model: (a) state_size/get_state/set_state against "
        "the wheel's mj_stateSize/mj_getState/mj_setState for all 14 single bits, the 4 named composites and random "
        "signatures of the 2^14; (b) make_data(MjModel) and make_data(mjx.Model) against put_data(MjModel, fresh MjData) leaf "
        "by leaf (shape, dtype, value); (c) get_data(put_data(d)) against d after mj_forward / mj_step at a random state "
        "(copied fields exact, contacts and constraint rows as sets, recomputed factorisation by tolerance), including states with "
        "equalities that are inactive in the XML or deactivated at run time next to friction-loss / limit / contact rows (MuJoCo's "
        "compact constraint-row offsets differ from MJX's static ones); (d) jit(f) vs "
        "un-jitted f for f in {kinematics+com_pos+crb, forward, step}; (e) jit(vmap(f)) over batches of 1, 2, 7 states vs "
        "per-sample jit(f). distinct = (component, profile, integrator, signature class | batch size | model feature hash); "
        "non-trivial = model accepted by put_model with nv>0")
ASSUMPTIONS = [
    "the wheel's (3.13.0) mj_getState/mj_setState/mj_stateSize are the reference for the state API: mjtState is identical "
    "in the tree's include/mujoco/mjtype.h (14 bits, same order) - checked at start, inconclusive otherwise",
    "jit vs eager and vmap vs per-sample are compared with relative tolerance 1e-9 of max(1,|field|): XLA may fuse / "
    "reassociate floating-point operations differently (x64); integer leaves must be equal; for models WITH constraint rows the "
    "leaves downstream of the iterative constraint solver (qacc, qfrc_constraint, efc_force, cacc, cfrc_int/ext, sensordata, "
    "qacc_warmstart, and the next state of step) are compared with max(1e-6, 100*sqrt(opt.tolerance)) relative to the leaf scale "
    "(the solvers stop when the scaled improvement / gradient is below opt.tolerance, which bounds the solution to ~sqrt of it): the same CG/Newton iteration with differently fused "
    "arithmetic agrees only to the conditioning of the iteration (witness 2e-8 on exactly these leaves, < 1e-12 on all others)",
    "get_data: qLD/qLDiagInv are recomputed by mj_factorM (documented in io.py: 'recalculate qLD and qLDiagInv as MJX and "
    "MuJoCo have different representations'), compared with 1e-9; arena-only fields that MJX's Data does not carry are not "
    "compared; efc rows with all-zero Jacobian are dropped by get_data (io.py: nefc counts rows with any(efc_J != 0))",
    "NOT GENERATED (counter not_generated[...]): contact-profile models with cylinder geoms - the C engine can produce more "
    "plane-cylinder contacts of one condim than MJX reserves statically and put_data raises ValueError('unable to place Contact'); "
    "whether that capacity rule is a documented limitation could not be triaged, so the combination is not in the workload",
    "make_data vs put_data(fresh MjData): contact.dist of unused contact slots is 1e10 in put_data (io.py _put_contact pads "
    "with dist=1e10, geom=0 'zero contact') and dist=0, geom=-1 in make_data - both are placeholders that collision() overwrites; "
    "values of the contact.* leaves are therefore not compared (shape and dtype are)",
]

STATE_NAMES = ["time", "qpos", "qvel", "act", "history", "qacc_warmstart", "ctrl", "qfrc_applied", "xfrc_applied",
               "eq_active", "mocap_pos", "mocap_quat", "userdata", "plugin_state"]


def _rel(a, b):
    a = np.asarray(a, float).ravel()
    b = np.asarray(b, float).ravel()
    if a.shape != b.shape:
        return float("inf")
    if a.size == 0:
        return 0.0
    fa, fb = np.isfinite(a), np.isfinite(b)
    if not np.array_equal(fa, fb):
        return float("inf")
    if not fa.all():
        if not np.array_equal(a[~fa], b[~fb], equal_nan=True):
            return float("inf")
        a, b = a[fa], b[fb]
        if a.size == 0:
            return 0.0
    return float(np.max(np.abs(a - b)) / max(1.0, np.max(np.abs(b))))


def _leaves(R, tree):
    out = {}
    for path, leaf in R.jax.tree_util.tree_flatten_with_path(tree)[0]:
        out[R.jax.tree_util.keystr(path)] = leaf
    return out


def _viol(P, sig, base, **kw):
    d = dict(base)
    d.update(kw)
    P.violation(sig, d)


# ---------------------------------------------------------------------------------------------------------------
def check_state_api(R, m, mx, d, rng, P, base, nrandom):
    mj, mjx = R.mujoco, R.mjx
    S = mj.mjtState
    nbits = int(S.mjNSTATE.value)
    sigs = [(1 << i, "bit:%s" % STATE_NAMES[i]) for i in range(nbits)]
    sigs += [(int(S.mjSTATE_PHYSICS), "PHYSICS"), (int(S.mjSTATE_FULLPHYSICS), "FULLPHYSICS"),
             (int(S.mjSTATE_USER), "USER"), (int(S.mjSTATE_INTEGRATION), "INTEGRATION")]
    sigs += [(int(rng.integers(1, 1 << nbits)), "random") for _ in range(nrandom)]
    dx = mjx.put_data(m, d)
    for sig, cls in sigs:
        n_c = mj.mj_stateSize(m, sig)
        try:
            n_x = int(mjx.state_size(mx, sig))
        except Exception as e:
            _viol(P, "state_size-raises", base, sig=sig, cls=cls, error=repr(e)[:200])
            continue
        key = "state|%s|n%d" % (cls if cls != "random" else "random%d" % bin(sig).count("1"), min(n_c, 1))
        P.case(key, nontrivial=n_c > 0)
        P.count("state_signatures_checked")
        if n_x != n_c:
            _viol(P, "state_size-differs-from-mj_stateSize", base, sig=sig, cls=cls, c=n_c, mjx=n_x)
            continue
        ref = np.zeros(n_c)
        mj.mj_getState(m, d, ref, sig)
        got = np.asarray(mjx.get_state(mx, dx, sig), float)
        if got.shape != ref.shape or not np.array_equal(got, ref):
            bad = [STATE_NAMES[i] for i in range(nbits) if sig & (1 << i)]
            _viol(P, "get_state-differs-from-mj_getState", base, sig=sig, cls=cls, components=bad,
                  c=ref.tolist(), mjx=got.tolist())
        # set_state twin
        v = rng.normal(size=n_c)
        # keep eq_active entries boolean-valued and quaternions arbitrary (both APIs copy verbatim)
        off = 0
        for i in range(nbits):
            if sig & (1 << i):
                n_i = mj.mj_stateSize(m, 1 << i)
                if STATE_NAMES[i] == "eq_active":
                    v[off:off + n_i] = rng.integers(0, 2, n_i)
                off += n_i
        d2 = mj.MjData(m)
        mj.mj_copyData(d2, m, d)
        mj.mj_setState(m, d2, v, sig)
        try:
            dx2 = mjx.set_state(mx, dx, R.jp.array(v), sig)
        except Exception as e:
            _viol(P, "set_state-raises", base, sig=sig, cls=cls, error=repr(e)[:200])
            continue
        for name in STATE_NAMES:
            c = np.asarray(getattr(d2, name) if name != "time" else d2.time, float)
            x = np.asarray(getattr(dx2, name), float)
            if c.shape != x.shape or not np.array_equal(c, x):
                _viol(P, "set_state-differs-from-mj_setState:%s" % name, base, sig=sig, cls=cls, c=c.tolist(), mjx=x.tolist())
                break
        back = np.asarray(mjx.get_state(mx, dx2, sig), float)
        if not np.array_equal(back, v):
            _viol(P, "get_state-after-set_state-not-identity", base, sig=sig, cls=cls, v=v.tolist(), back=back.tolist())


def check_make_data(R, m, mx, P, base):
    mj, mjx = R.mujoco, R.mjx
    a = _leaves(R, mjx.put_data(m, mj.MjData(m)))
    for label, tree in (("make_data(MjModel)", mjx.make_data(m)), ("make_data(mjx.Model)", mjx.make_data(mx))):
        b = _leaves(R, tree)
        P.case("make_data|%s" % label, nontrivial=True)
        P.count("make_data_leaves_compared", len(a))
        if set(a) != set(b):
            _viol(P, "make_data-pytree-structure-differs-from-put_data", base, which=label,
                  only_put=sorted(set(a) - set(b))[:10], only_make=sorted(set(b) - set(a))[:10])
            continue
        for k in sorted(a):
            x, y = np.asarray(a[k]), np.asarray(b[k])
            if x.shape != y.shape:
                _viol(P, "make_data-leaf-shape-differs-from-put_data", base, which=label, leaf=k, put=list(x.shape), make=list(y.shape))
                break
            if x.dtype != y.dtype:
                _viol(P, "make_data-leaf-dtype-differs-from-put_data:%s" % k.lstrip("."), base, which=label, leaf=k,
                      put=str(x.dtype), make=str(y.dtype))
            if ".contact." in k:   # unused contact slots are placeholders in both (see ASSUMPTIONS)
                continue
            if not np.array_equal(x, y):
                _viol(P, "make_data-leaf-value-differs-from-put_data", base, which=label, leaf=k, put=x.tolist(), make=y.tolist())
                break
        # static (non-leaf) metadata
        ta, tb = mjx.put_data(m, mj.MjData(m)), tree
        for f in ("ne", "nf", "nl", "nefc", "ncon"):
            if getattr(ta._impl, f) != getattr(tb._impl, f):
                _viol(P, "make_data-static-size-differs-from-put_data", base, which=label, field=f,
                      put=int(getattr(ta._impl, f)), make=int(getattr(tb._impl, f)))
        for f in ("dim", "efc_address"):
            if not np.array_equal(getattr(ta._impl.contact, f), getattr(tb._impl.contact, f)):
                _viol(P, "make_data-static-size-differs-from-put_data", base, which=label, field="contact." + f)


COPIED = ["time", "qpos", "qvel", "act", "qacc_warmstart", "ctrl", "qfrc_applied", "xfrc_applied", "eq_active",
          "mocap_pos", "mocap_quat", "qacc", "act_dot", "userdata", "sensordata", "xpos", "xquat", "xmat", "xipos",
          "ximat", "xanchor", "xaxis", "ten_length", "geom_xpos", "geom_xmat", "site_xpos", "site_xmat", "cam_xpos",
          "cam_xmat", "subtree_com", "cvel", "cdof", "cdof_dot", "qfrc_bias", "qfrc_gravcomp", "qfrc_fluid",
          "qfrc_passive", "qfrc_actuator", "actuator_force", "actuator_length", "qfrc_smooth", "qacc_smooth",
          "qfrc_constraint", "qfrc_inverse", "cinert", "crb", "ten_velocity", "actuator_velocity", "cacc", "cfrc_int",
          "cfrc_ext", "subtree_linvel", "subtree_angmom", "M", "ten_wrapadr", "ten_wrapnum",
          "wrap_obj", "wrap_xpos"]


def _rowset(*cols):
    rows = np.concatenate([np.asarray(c, float).reshape(len(c), -1) for c in cols], axis=1) if len(cols[0]) else \
        np.zeros((0, 1))
    idx = np.lexsort(rows.T[::-1]) if rows.size else np.arange(0)
    return rows[idx]


def check_roundtrip(R, m, d, P, base, label):
    mj, mjx = R.mujoco, R.mjx
    try:
        dx = mjx.put_data(m, d)
        d2 = mjx.get_data(m, dx)
    except Exception as e:
        _viol(P, "put_data-get_data-raises", base, stage=label, error=repr(e)[:300])
        return
    P.case("roundtrip|%s|ncon%d|nefc%d" % (label, min(d.ncon, 2), min(d.nefc, 2)), nontrivial=True)
    n = 0
    for f in COPIED:
        if not hasattr(d, f):
            continue
        a, b = np.asarray(getattr(d, f)), np.asarray(getattr(d2, f))
        n += 1
        if a.shape != b.shape or not np.array_equal(a, b):
            _viol(P, "get_data(put_data(d))-field-differs:%s" % f, base, stage=label, field=f,
                  orig=a.tolist(), back=b.tolist())
    P.count("roundtrip_fields_compared", n)
    # sparse fields are compared through their dense form (explicit zeros may be dropped by a dense->sparse conversion)
    if m.nu:
        A, B = np.zeros((m.nu, m.nv)), np.zeros((m.nu, m.nv))
        mj.mju_sparse2dense(A, d.actuator_moment, d.moment_rownnz, d.moment_rowadr, d.moment_colind)
        mj.mju_sparse2dense(B, d2.actuator_moment, d2.moment_rownnz, d2.moment_rowadr, d2.moment_colind)
        if not np.array_equal(A, B):
            _viol(P, "get_data(put_data(d))-field-differs:actuator_moment", base, stage=label, orig=A.tolist(), back=B.tolist())
    if m.ntendon:
        A, B = np.zeros((m.ntendon, m.nv)), np.zeros((m.ntendon, m.nv))
        mj.mju_sparse2dense(A, d.ten_J, m.ten_J_rownnz, m.ten_J_rowadr, m.ten_J_colind)
        mj.mju_sparse2dense(B, d2.ten_J, m.ten_J_rownnz, m.ten_J_rowadr, m.ten_J_colind)
        if not np.array_equal(A, B):
            _viol(P, "get_data(put_data(d))-ten_J-not-aligned-with-model-sparsity-structure", base, stage=label,
                  orig=A.tolist(), back=B.tolist(), raw_orig=np.asarray(d.ten_J).tolist(), raw_back=np.asarray(d2.ten_J).tolist())
    for f in ("qLD", "qLDiagInv"):
        e = _rel(getattr(d2, f), getattr(d, f))
        P.note_max("roundtrip_relerr_" + f, e)
        if e > 1e-9:
            _viol(P, "get_data(put_data(d))-field-differs:%s" % f, base, stage=label, field=f, relerr=e)
    # contacts as sets (put_data regroups by condim); only contacts with dist <= 0 survive get_data (io.py)
    keep = [i for i in range(d.ncon) if d.contact.dist[i] <= 0]
    c1 = d.contact
    c2 = d2.contact
    if len(keep) != d2.ncon:
        _viol(P, "get_data(put_data(d))-contact-count-differs", base, stage=label, orig=len(keep), back=int(d2.ncon))
    elif keep:
        cols = ("dist", "pos", "frame", "includemargin", "friction", "solref", "solreffriction", "solimp", "dim", "geom")
        A = _rowset(*[np.asarray(getattr(c1, k))[keep] for k in cols])
        B = _rowset(*[np.asarray(getattr(c2, k)) for k in cols])
        if A.shape != B.shape or not np.array_equal(A, B):
            _viol(P, "get_data(put_data(d))-contact-set-differs", base, stage=label, orig=A.tolist(), back=B.tolist())
    # efc rows as sets (rows with all-zero J are dropped by get_data)
    if d.nefc:
        J = np.zeros((d.nefc, m.nv))
        if mj.mj_isSparse(m):
            mj.mju_sparse2dense(J, d.efc_J, d.efc_J_rownnz, d.efc_J_rowadr, d.efc_J_colind)
        else:
            J = np.array(d.efc_J).reshape(-1, m.nv)[:d.nefc]
        nz = np.nonzero((J != 0).any(axis=1))[0]
        J2 = np.zeros((d2.nefc, m.nv))
        if d2.nefc:
            if mj.mj_isSparse(m):
                mj.mju_sparse2dense(J2, d2.efc_J, d2.efc_J_rownnz, d2.efc_J_rowadr, d2.efc_J_colind)
            else:
                J2 = np.array(d2.efc_J).reshape(-1, m.nv)[:d2.nefc]
        cols = ("efc_pos", "efc_margin", "efc_frictionloss", "efc_D", "efc_aref", "efc_force")
        A = _rowset(J[nz], *[np.asarray(getattr(d, k))[nz] for k in cols])
        B = _rowset(J2, *[np.asarray(getattr(d2, k)) for k in cols])
        if A.shape != B.shape or not np.array_equal(A, B):
            _viol(P, "get_data(put_data(d))-constraint-row-set-differs", base, stage=label,
                  orig_rows=int(A.shape[0]), back_rows=int(B.shape[0]),
                  first_diff=(np.argwhere(A != B)[0].tolist() if A.shape == B.shape else None))


_JIT = {}


def _fn(R, name):
    if name in _JIT:
        return _JIT[name]
    mjx, jax = R.mjx, R.jax
    sm = R.src["smooth"]
    raw = {"kin": lambda m, d: sm.crb(m, sm.com_pos(m, sm.kinematics(m, d))), "forward": mjx.forward, "step": mjx.step}[name]
    _JIT[name] = (raw, jax.jit(raw), jax.jit(jax.vmap(raw, in_axes=(None, 0))))
    return _JIT[name]


# leaves downstream of solver.solve (CG / Newton iterated to tolerance 1e-12): two executions of the SAME algorithm whose
# floating-point operations are fused / reassociated differently agree only to the conditioning of the iteration, not to 1e-9
# (witness: CG, refsafe disabled, weld + tendon equality: exactly these leaves differ by 3e-9..2e-8, every other leaf < 1e-12)
SOLVER_LEAVES = (".qacc", ".qfrc_constraint", ".sensordata", ".qacc_warmstart", "._impl.efc_force", "._impl.cacc",
                 "._impl.cfrc_int", "._impl.cfrc_ext")
STEP_LEAVES = (".qpos", ".qvel", ".act")
TOL_SOLVER_LEAVES = 1e-6     # floor; per model: max(1e-6, 100*sqrt(opt.tolerance)), see _cmp_trees(solver_tol=...)


def _cmp_trees(R, P, a, b, tol, sig, base, solver_fn=None, solver_tol=TOL_SOLVER_LEAVES, **kw):
    la, lb = _leaves(R, a), _leaves(R, b)
    if set(la) != set(lb):
        _viol(P, sig + ":pytree-structure", base, **kw)
        return
    worst = 0.0
    for k in sorted(la):
        x, y = np.asarray(la[k]), np.asarray(lb[k])
        if x.shape != y.shape or x.dtype != y.dtype:
            _viol(P, sig + ":leaf-shape-or-dtype", base, leaf=k, a=[list(x.shape), str(x.dtype)], b=[list(y.shape), str(y.dtype)], **kw)
            return
        if x.dtype.kind in "iub":
            if not np.array_equal(x, y):
                _viol(P, sig + ":integer-leaf", base, leaf=k, a=x.tolist(), b=y.tolist(), **kw)
                return
            continue
        e = _rel(x, y)
        t = tol
        if solver_fn is not None and (k in SOLVER_LEAVES or (solver_fn == "step" and k in STEP_LEAVES)):
            t = max(tol, solver_tol)
            P.note_max("relerr_solver_leaves_" + sig.split(":")[0], e if np.isfinite(e) else 1e300)
        else:
            worst = max(worst, e if np.isfinite(e) else 1e300)
        if e > t:
            _viol(P, sig + ":value", base, leaf=k, relerr=e, a=x.tolist(), b=y.tolist(), **kw)
            return
    P.note_max("relerr_" + sig.split(":")[0], worst)


def check_model(R, xml, tags, case, P):
    from .. import mjxrepo
    mj, mjx, jax, jp = R.mujoco, R.mjx, R.jax, R.jp
    rng = np.random.Generator(np.random.PCG64(case["key"] ^ 0x5bd1e995))
    base = {"xml": xml, "tags": tags, "case": case}
    try:
        m = mj.MjModel.from_xml_string(xml)
    except Exception:
        P.count("skipped_xml_rejected_by_wheel")
        return
    try:
        mx = mjx.put_model(m)
        mjx.make_data(m)
    except NotImplementedError:
        P.count("gate_rejected")
        return
    if m.nv == 0:
        P.count("skipped_nv0")
        return
    prof = [t for t in tags if t in ("smooth", "constrained", "contact", "eqonly", "gate")]
    prof = prof[0] if prof else "?"
    P.count("models")
    P.case("model|%s|%s" % (prof, "+".join(case["parts"])), nontrivial=True,
           sample={"tags": tags, "parts": case["parts"], "batch": case["batch"], "fns": case["fns"], "nv": int(m.nv),
                   "nu": int(m.nu), "na": int(m.na), "nmocap": int(m.nmocap), "neq": int(m.neq)})
    d = mj.MjData(m)
    mjxrepo.random_state(R, rng, m, d)
    if "state" in case["parts"]:
        try:
            check_state_api(R, m, mx, d, rng, P, base, case["nrandom"])
        except Exception as e:   # the state API must not raise for a valid signature on an accepted model
            _viol(P, "state-api-raises:%s" % type(e).__name__, base, error=repr(e)[:300])
    if "make" in case["parts"]:
        try:
            check_make_data(R, m, mx, P, base)
        except Exception as e:
            _viol(P, "make_data-or-put_data-raises:%s" % type(e).__name__, base, error=repr(e)[:300])
    if "roundtrip" in case["parts"]:
        variants = [("forward", None), ("step", None)]
        if m.neq:
            # run-time deactivated equality: MuJoCo packs the constraint rows (d.ne < ne) while MJX keeps static offsets, so
            # put_data has to translate the friction / limit blocks between the two layouts
            variants.append(("forward+eqoff", int(rng.integers(m.neq))))
        for label, eqoff in variants:
            d1 = mj.MjData(m)
            mj.mj_copyData(d1, m, d)
            if eqoff is not None:
                d1.eq_active[eqoff] = 0
            (mj.mj_step if label == "step" else mj.mj_forward)(m, d1)
            if not np.all(np.isfinite(d1.qacc)):
                P.count("skipped_c_engine_unstable")
                continue
            ne_static = int(sum({int(mj.mjtEq.mjEQ_CONNECT): 3, int(mj.mjtEq.mjEQ_WELD): 6}.get(int(t), 1) for t in m.eq_type))
            if m.neq and not int(m.opt.disableflags) & int(mj.mjtDisableBit.mjDSBL_EQUALITY) and int(d1.ne) < ne_static:
                P.count("roundtrip_states_with_inactive_equality")
                if int(d1.nf) or int(d1.nl):
                    P.count("roundtrip_states_with_inactive_equality_and_friction_or_limit_rows")
            if int(d1.nf):
                P.count("roundtrip_states_with_frictionloss_rows")
            if int(d1.nl):
                P.count("roundtrip_states_with_limit_rows")
            if int(d1.ncon):
                P.count("roundtrip_states_with_contacts")
            check_roundtrip(R, m, d1, P, base, label)
    integ = [t for t in tags if t.startswith("int:")][0]
    if "jit" in case["parts"] or "vmap" in case["parts"]:
        dxs = []
        for k in range(max(case["batch"], 1)):
            mjxrepo.random_state(R, rng, m, d, scale=[1.0, 0.3][k % 2], vel=[1.0, 0.2][k % 2])
            dxs.append(mjx.put_data(m, d))
        for fname in case["fns"]:
            raw, jitted, vm = _fn(R, fname)
            try:
                per = [jitted(mx, dx) for dx in dxs]
                jax.block_until_ready(per[-1].qpos)
            except Exception as e:
                P.count("skipped_mjx_raised[%s]" % type(e).__name__)
                continue
            if not all(np.all(np.isfinite(np.asarray(p.qacc))) and np.all(np.isfinite(np.asarray(p.qpos))) for p in per):
                P.count("skipped_nonfinite_state")
                continue
            if "jit" in case["parts"]:
                eager = raw(mx, dxs[0])
                _cmp_trees(R, P, per[0], eager, 1e-9, "jit-differs-from-eager[%s]" % fname, base, fn=fname,
                           solver_fn=fname if (fname != "kin" and int(per[0]._impl.nefc) > 0) else None,
                           solver_tol=max(TOL_SOLVER_LEAVES, 100 * float(m.opt.tolerance) ** 0.5))
                P.case("jit|%s|%s|%s" % (fname, prof, integ), nontrivial=True)
            if "vmap" in case["parts"]:
                B = case["batch"]
                batch = jax.tree.map(lambda *x: jp.stack(x), *dxs[:B])
                out = vm(mx, batch)
                for i in range(B):
                    oi = jax.tree.map(lambda x, i=i: x[i], out)
                    _cmp_trees(R, P, oi, per[i], 1e-9, "vmap-differs-from-per-sample[%s]" % fname, base, fn=fname,
                               batch=B, index=i,
                               solver_fn=fname if (fname != "kin" and int(per[i]._impl.nefc) > 0) else None,
                               solver_tol=max(TOL_SOLVER_LEAVES, 100 * float(m.opt.tolerance) ** 0.5))
                P.case("vmap|%s|B%d|%s|%s" % (fname, B, prof, integ), nontrivial=True)
                P.count("vmap_samples_compared", B)


def worker(case):
    from .. import mjxrepo
    P = core.Part()
    R = mjxrepo.load(x64=True)
    if "xml" in case:
        xml, tags = case["xml"], case["tags"]
    else:
        rng = np.random.Generator(np.random.PCG64(case["key"]))
        for _try in range(8):
            xml, tags = mjxrepo.gen_model(rng, case["profile"], small=True, mocap=case.get("mocap"), userdata=3,
                                          safe=True, want=case.get("want", ()))
            if not ("contact" in tags and "geom:cylinder" in tags):
                break
            # NOT GENERATED: colliding cylinder geoms. The C engine can produce more plane-cylinder contacts of one condim than MJX
            # reserves statically, and put_data then raises ValueError('unable to place Contact[..], no space in condim ..'):
            # untriaged (capacity rule of io.py vs the round-trip statement), taken out of the workload
            P.count("not_generated[contact-profile-with-cylinder-geom]")
    check_model(R, xml, tags, case, P)
    return P.result()


def _cases(ctx):
    cases = []
    n_io = ctx.pick(16, 240)
    for i in range(n_io):
        prof = ["constrained", "contact", "smooth"][i % 3]
        eqk = ["eq:connect", "eq:weld", "eq:joint", "eq:tendon"]
        # constrained / contact models: every second one is forced to carry an inactive equality next to friction-loss and limit
        # rows (compact vs static constraint-row offsets), the others a clamp stack / tendon rows
        want = [] if prof == "smooth" else (
            ["eq:inactive", eqk[(i // 3) % 4], eqk[(i // 3 + 1) % 4], "frictionloss", "limit"] if (i // 3) % 2 == 0 else
            [eqk[(i // 3) % 4], "tendon:limit", "tendon:frictionloss", "clampstack"])
        cases.append({"key": int(core.stable_hash("C44io", ctx.seed, i)), "profile": prof, "want": want,
                      "parts": ["state", "make", "roundtrip"], "nrandom": ctx.pick(12, 40), "mocap": 1 if i % 2 == 0 else None,
                      "batch": 0, "fns": []})
    n_x = ctx.pick(8, 60)
    for i in range(n_x):
        B = [1, 2, 7][i % 3]
        if ctx.quick:   # un-jitted step costs ~100 s of op-by-op dispatch on a loaded machine: thorough tier only
            parts, fns = [(["jit", "vmap"], ["kin", "forward"]), (["vmap"], ["step"])][i % 2]
        else:
            parts, fns = [(["jit", "vmap"], ["step"]), (["vmap"], ["forward"]), (["jit", "vmap"], ["kin", "forward"])][i % 3]
        cases.append({"key": int(core.stable_hash("C44x", ctx.seed, i)), "profile": ["smooth", "constrained", "contact"][(i // 2) % 3],
                      "parts": parts, "nrandom": 0, "mocap": None, "batch": B, "fns": fns})
    return cases


def run(ctx):
    import mujoco
    if int(mujoco.mjtState.mjNSTATE.value) != 14 or not _tree_state_enum_matches():
        ctx.inconclusive("mjtState of the wheel differs from the tree's include/mujoco/mjtype.h")
        return
    cases = _cases(ctx)
    results = par.run("vf.props.c44", "worker", cases, nproc=8, timeout=ctx.pick(900, 2400), chunk=1 if ctx.quick else None)
    fails = 0
    for c, r in zip(cases, results):
        if r is None or "crash" in r or "exception" in r:
            fails += 1
            ctx.count("worker_failures")
            ctx.extra.setdefault("worker_failure_samples", [])
            if len(ctx.extra["worker_failure_samples"]) < 3:
                ctx.extra["worker_failure_samples"].append({"case": c, "result": {k: str(v)[-1500:] for k, v in (r or {}).items()}})
            continue
        ctx.merge(r)
    ctx.min_nontrivial = ctx.pick(30, 60)
    for need in ("roundtrip_states_with_inactive_equality_and_friction_or_limit_rows", "roundtrip_states_with_frictionloss_rows",
                 "roundtrip_states_with_limit_rows", "roundtrip_states_with_contacts"):
        if not ctx.counters.get(need):
            ctx.inconclusive("workload never produced: %s" % need)
    if fails > len(cases) // 4:
        ctx.inconclusive("too many worker failures (%d of %d)" % (fails, len(cases)))


def _tree_state_enum_matches():
    from ..mjconst import E
    import mujoco
    S = mujoco.mjtState
    names = ["TIME", "QPOS", "QVEL", "ACT", "HISTORY", "WARMSTART", "CTRL", "QFRC_APPLIED", "XFRC_APPLIED", "EQ_ACTIVE",
             "MOCAP_POS", "MOCAP_QUAT", "USERDATA", "PLUGIN", "PHYSICS", "FULLPHYSICS", "USER", "INTEGRATION"]
    try:
        return all(int(getattr(S, "mjSTATE_" + n)) == int(getattr(E, "mjSTATE_" + n)) for n in names)
    except AttributeError:
        return False


def replay(ctx, path):
    from .. import mjxrepo
    det = json.loads(open(path).read())["detail"]
    R = mjxrepo.load(x64=True)
    P = core.Part()
    case = dict(det["case"])
    check_model(R, det["xml"], det["tags"], case, P)
    ctx.merge(P.result())
