"""C23 Linear algebra routines agree with their definitions."""
import ctypes as C
import json
import math
import zlib

import numpy as np

from .. import build, core, drv, par
from ..mjconst import E
from ..ref import sparse as sp

LEVEL = "exploration"
RULE = ("random inputs per routine family (blas, dense Cholesky/LU, band, sparse conversions/products/additions, "
        "sparse Cholesky/LU, M'DM squaring, eig3, QCQP, boxQP): sizes 0..70 covering every residue mod 4 and 8, "
        "densities 0..1, patterns with empty / single-entry / identical rows, compressed and poisoned 'uncompressed' "
        "CSR layouts, condition numbers 1..1e10, bounds active/inactive. Every engine result is compared with its dense "
        "numpy/LAPACK definition at 50*eps*n*kappa*scale; the same call stream is executed on the AVX ('rel') and the "
        "plain ('scalar') builds and their outputs are compared with each other; an index-heavy subsample runs on the "
        "ASan+UBSan build with exact-size malloc'ed operands. distinct = (routine family, variant, size residue mod 8 "
        "and size bucket, layout); non-trivial = size > 0 and pattern non-empty")
ASSUMPTIONS = [
    "rank-deficient inputs: only the documented return codes are decided (rank = n - #zeroed pivots, factorLU -> 0, cholFactorBand -> 0)",
    "mju_boxQP: return -1 (documented failure) is accepted; runs that end by iteration / line-search limit (status read "
    "from mju_boxQPoption's log) are only checked for feasibility",
    "QCQP radii are within [0.05,5] x the unconstrained solution norm (20 Newton iterations are the documented budget)",
    "mju_eig3 eigenvalue order: decreasing up to the routine's 1e-12 tie threshold (source comment 'sort eigenvalues in decreasing order')",
    "sparse inputs satisfy the documented preconditions: sorted duplicate-free colind, diagonal stored last in lower-triangular rows, "
    "room for fill-in where the header asks for it; mju_transposeSparse is given mat/colind offset by rowadr[0] as its callers do",
    "mju_solve3 (no pivoting) is only given diagonally dominant matrices; mju_factorLUSparse only tree-topology patterns",
]

EPS = 2.220446049250313e-16
_T = {"p": C.c_void_p, "i": C.c_int, "d": C.c_double, "b": C.c_ubyte}
_R = {"v": None, "i": C.c_int, "d": C.c_double}
_P13 = "p" * 13
SIG = {
    # blas
    "mju_scl": "v:ppdi", "mju_add": "v:pppi", "mju_sub": "v:pppi", "mju_addTo": "v:ppi", "mju_subFrom": "v:ppi",
    "mju_addToScl": "v:ppdi", "mju_addScl": "v:pppdi", "mju_dot": "d:ppi", "mju_norm": "d:pi", "mju_normalize": "d:pi",
    "mju_sum": "d:pi", "mju_L1": "d:pi", "mju_fill": "v:pdi", "mju_mulMatVec": "v:pppii", "mju_mulMatTVec": "v:pppii",
    "mju_mulVecMatVec": "d:pppi", "mju_transpose": "v:ppii", "mju_symmetrize": "v:ppi", "mju_eye": "v:pi",
    "mju_mulMatMat": "v:pppiii", "mju_mulMatMatT": "v:pppiii", "mju_mulMatTMat": "v:pppiii", "mju_sqrMatTD": "v:pppii",
    "mju_zeroInd": "v:pip", "mju_copyInd": "v:pppi", "mju_addInd": "v:ppppi", "mju_subInd": "v:ppppi",
    "mju_addToInd": "v:pppi", "mju_addToSclInd": "v:pppdi", "mju_dotInd": "d:pppi", "mju_copyRows": "v:pppii",
    "mju_gather": "v:pppi", "mju_gatherMasked": "v:pppi", "mju_scatter": "v:pppi", "mju_gatherInt": "v:pppi",
    "mju_scatterInt": "v:pppi",
    # dense solvers
    "mju_cholFactor": "i:pid", "mju_cholSolve": "v:pppi", "mju_cholUpdate": "i:ppii",
    "mju_factorLU": "i:pip", "mju_solveLU": "v:ppppi", "mju_factorLU6": "i:pp", "mju_solveLU6": "v:pppp",
    "mju_solve3": "v:ppp", "mju_eig3": "i:pppp",
    "mju_QCQP2": "i:ppppd", "mju_QCQP3": "i:ppppd", "mju_QCQP": "i:ppppdi",
    "mju_boxQP": "i:pppppipp", "mju_boxQPoption": "i:pppppippiddddpi",
    # band
    "mju_cholFactorBand": "d:piiidd", "mju_cholSolveBand": "v:pppiii", "mju_band2Dense": "v:ppiiib",
    "mju_dense2Band": "v:ppiii", "mju_bandMulMatVec": "v:pppiiiib", "mju_bandDiag": "i:iiii",
    # sparse
    "mju_dotSparse2": "d:ppippi", "mju_dotSparseX3": "v:pppppppip", "mju_dense2sparse": "i:ppiipppi",
    "mju_sparse2dense": "v:ppiippp", "mju_sym2dense": "v:ppippp", "mju_copySparse": "v:pppppi", "mju_zeroSparse": "v:ppppi",
    "mju_mulMatVecSparse": "v:pppipppp", "mju_mulMatTVecSparse": "v:pppiippp", "mju_addToMatSparse": "v:ppppipppp",
    "mju_addToSymSparse": "v:ppipppi", "mju_mulSymVecSparse": "v:pppippp", "mju_compressSparse": "i:piipppd",
    "mju_combineSparseCount": "i:iipp", "mju_combineSparseInc": "v:ppiddiipp", "mju_addToSclSparseInc": "v:ppipipd",
    "mju_addToSparseMat": "i:ppiidiipppp", "mju_addChains": "i:piiipp", "mju_transposeSparse": "v:ppiippppppp",
    "mju_superSparse": "v:ipppp",
    "mju_sqrMatTDSparse": "v:ppppii" + _P13, "mju_sqrMatTDSparse_row": "v:ppppii" + _P13,
    "mju_sqrMatTDSparseCount": "i:ppi" + "p" * 8 + "i", "mju_sqrMatTDSparseSymbolic": "i:ppppii" + "p" * 8,
    "mju_sqrMatTDSparseNumeric": "v:pi" + "p" * 15, "mju_sqrMatTDUncompressedInit": "v:pi",
    # sparse solvers
    "mju_cholFactorSparse": "i:pidpppp", "mju_cholFactorSymbolic": "i:" + "p" * 10 + "ip",
    "mju_cholFactorNumeric": "i:pid" + "p" * 12, "mju_cholSolveSparse": "v:pppippp",
    "mju_cholUpdateSparse": "i:ppiipppipp", "mju_solveLUSparse": "v:pppippppp",
}
_XML = ('<mujoco><size memory="4M"/><worldbody><body><joint type="hinge"/><geom size="0.1"/></body>'
        '</worldbody></mujoco>')


class Buf:
    __slots__ = ("a", "p")

    def __init__(self, a, p):
        self.a, self.p = a, p


class X:
    """One flavour of the library + exact-size operand allocation (so ASan sees every overrun)."""

    def __init__(self, flavour):
        self.flavour = flavour
        self.L = drv.Lib(flavour)
        self.libc = C.CDLL(None)
        self.libc.malloc.restype = C.c_void_p
        self.libc.malloc.argtypes = [C.c_size_t]
        self.libc.free.argtypes = [C.c_void_p]
        self._f = {}
        self.m = self.L.load_xml_string(_XML)
        self.data = self.m.make_data()
        self.d = self.data.ptr
        self.ptrs = []
        self.ncalls = 0

    def __getattr__(self, name):
        # X.cholFactor(...) -> mju_cholFactor
        full = "mju_" + name
        if full not in SIG:
            raise AttributeError(name)
        f = self._f.get(full)
        if f is None:
            ret, args = SIG[full].split(":")
            f = getattr(self.L.lib, full)
            f.restype = _R[ret]
            f.argtypes = [_T[c] for c in args]
            self._f[full] = f

        def call(*a):
            self.ncalls += 1
            return f(*[(x.p if isinstance(x, Buf) else x) for x in a])
        return call

    def _mk(self, a):
        nb = a.nbytes
        p = self.libc.malloc(nb)
        self.ptrs.append(p)
        if nb:
            view = np.frombuffer((C.c_char * nb).from_address(p), dtype=a.dtype, count=a.size).reshape(a.shape)
            view[...] = a
        else:
            view = np.zeros(a.shape, dtype=a.dtype)
        return Buf(view, p)

    def f(self, a):
        return self._mk(np.ascontiguousarray(a, dtype=np.float64))

    def i(self, a):
        return self._mk(np.ascontiguousarray(a, dtype=np.int32))

    def zf(self, *shape, fill=np.nan):
        return self._mk(np.full(shape, fill, dtype=np.float64))

    def zi(self, *shape, fill=-12345):
        return self._mk(np.full(shape, fill, dtype=np.int32))

    def csr(self, t):
        """(vals, rownnz, rowadr, colind) numpy -> Bufs"""
        return self.f(t[0]), self.i(t[1]), self.i(t[2]), self.i(t[3])

    def release(self):
        for p in self.ptrs:
            self.libc.free(p)
        self.ptrs = []


def _maxabs(a):
    a = np.asarray(a)
    return float(np.max(np.abs(a))) if a.size else 0.0


def tolp(n, *mags, kappa=1.0):
    t = 50.0 * EPS * max(int(n), 1) * kappa
    for m in mags:
        t *= max(float(m), 1e-300)
    return t


_W = np.cos(0.37 * np.arange(1 << 15) + 0.1)


class K:
    """Checker for one generated input (one 'call group')."""

    def __init__(self, P, case):
        self.P, self.case = P, case
        self.dig, self.digtol = [], []
        self.crc = 0

    def _viol(self, sig, d):
        dd = {"case": self.case}
        dd.update(d)
        self.P.violation(sig, dd)

    def near(self, sig, _got, _want, _tol, **detail):
        got = np.asarray(_got, dtype=float)
        want = np.asarray(_want, dtype=float)
        tol = _tol
        if got.shape != want.shape:
            self._viol(sig, dict(detail, shape_got=got.shape, shape_want=want.shape))
            return False
        if got.size == 0:
            return True
        diff = np.abs(got - want)
        err = float(diff.max()) if np.all(np.isfinite(got)) else float("inf")
        self.P.note_max("relerr:" + sig.split(":")[0], err / tol if tol > 0 else (0.0 if err == 0 else float("inf")))
        if not err <= tol:
            k = int(np.argmax(np.where(np.isfinite(diff), diff, np.inf)))
            self._viol(sig, dict(detail, err=err, tolerance=tol, at=k, got_at=got.ravel()[k], want_at=want.ravel()[k],
                                 got=got.ravel()[:40], want=want.ravel()[:40]))
            return False
        return True

    def eq(self, sig, _got, _want, **detail):
        got, want = np.asarray(_got), np.asarray(_want)
        ok = got.shape == want.shape and bool(np.array_equal(got, want))
        if not ok:
            self._viol(sig, dict(detail, got=got.ravel()[:60], want=want.ravel()[:60]))
        return ok

    def true(self, sig, _cond, **detail):
        if not _cond:
            self._viol(sig, detail)
        return bool(_cond)

    def out(self, arr, tol=0.0):
        """register an engine output for the cross-flavour comparison"""
        a = np.ascontiguousarray(arr)
        self.crc = zlib.crc32(a.tobytes(), self.crc)
        x = a.astype(np.float64).ravel()
        n = x.size
        if n == 0:
            return
        w = _W[:n] if n <= len(_W) else np.resize(_W, n)
        fin = np.isfinite(x)
        self.dig += [float(np.sum(np.where(fin, x, 0.0) * w)), float(np.sum(~fin))]
        self.digtol += [2.0 * n * tol + 1e-300, 0.0]


def _size(rng, lo=0, hi=70):
    r = rng.random()
    if r < 0.15:
        return int(rng.integers(lo, min(hi, 9) + 1))
    return int(rng.integers(lo, hi + 1))


def _skey(n):
    return "m8=%d,b=%d" % (n % 8, 0 if n == 0 else (1 if n < 4 else (2 if n < 16 else 3)))


def _cond(rng):
    return float(10.0 ** rng.choice([0, 1, 2, 4, 6, 8, 10]))


def _vec(rng, n, zeros=0.0):
    v = rng.normal(size=n) * float(rng.choice([1.0, 1.0, 1e-3, 1e3]))
    if zeros:
        v[rng.random(n) < zeros] = 0.0
    return v


# ------------------------------------------------------------------------------------------- blas

def fam_blas(x, rng, k):
    n = _size(rng)
    a, b = _vec(rng, n), _vec(rng, n)
    s = float(rng.normal())
    A, B = x.f(a), x.f(b)
    ma, mb = _maxabs(a), _maxabs(b)
    t1 = tolp(1, ma + mb + abs(s) * mb)
    for name, want, call in (
            ("scl", a * s, lambda r: x.scl(r, A, s, n)), ("add", a + b, lambda r: x.add(r, A, B, n)),
            ("sub", a - b, lambda r: x.sub(r, A, B, n)), ("addScl", a + b * s, lambda r: x.addScl(r, A, B, s, n))):
        r = x.zf(n)
        call(r)
        k.near("blas:%s-differs-from-definition" % name, r.a, want, t1, n=n)
        k.out(r.a, t1)
    for name, want, call in (
            ("addTo", a + b, lambda r: x.addTo(r, B, n)), ("subFrom", a - b, lambda r: x.subFrom(r, B, n)),
            ("addToScl", a + b * s, lambda r: x.addToScl(r, B, s, n))):
        r = x.f(a)
        call(r)
        k.near("blas:%s-differs-from-definition" % name, r.a, want, t1, n=n)
        k.out(r.a, t1)
    td = tolp(n, ma, mb)
    for name, got, want in (("dot", x.dot(A, B, n), float(a @ b)), ("norm", x.norm(A, n), float(np.linalg.norm(a))),
                            ("sum", x.sum(A, n), float(a.sum())), ("L1", x.L1(A, n), float(np.abs(a).sum()))):
        tt = td if name == "dot" else tolp(n, ma)
        k.near("blas:%s-differs-from-definition" % name, got, want, tt, n=n)
        k.out(np.array([got]), tt)
    if n > 0:
        r = x.f(a)
        nrm = x.normalize(r, n)
        if np.linalg.norm(a) >= 1e-10:
            k.near("blas:normalize-differs-from-definition", r.a, a / np.linalg.norm(a), tolp(n, 1.0), n=n)
            k.near("blas:normalize-return-differs", nrm, np.linalg.norm(a), tolp(n, ma), n=n)
    r = x.zf(n)
    x.fill(r, s, n)
    k.eq("blas:fill-differs-from-definition", r.a, np.full(n, s))
    # indexed variants
    m = int(rng.integers(0, n + 1))
    ind = np.sort(rng.permutation(n)[:m]).astype(np.int32)
    I = x.i(ind)
    base = _vec(rng, n)
    msk = np.zeros(n, dtype=bool)
    msk[ind] = True
    for name, want, call in (
            ("zeroInd", np.where(msk, 0.0, base), lambda r: x.zeroInd(r, m, I)),
            ("copyInd", np.where(msk, a, base), lambda r: x.copyInd(r, A, I, m)),
            ("addInd", np.where(msk, a + b, base), lambda r: x.addInd(r, A, B, I, m)),
            ("subInd", np.where(msk, a - b, base), lambda r: x.subInd(r, A, B, I, m)),
            ("addToInd", np.where(msk, base + a, base), lambda r: x.addToInd(r, A, I, m)),
            ("addToSclInd", np.where(msk, base + a * s, base), lambda r: x.addToSclInd(r, A, I, s, m))):
        r = x.f(base)
        call(r)
        k.near("blas:%s-differs-from-definition" % name, r.a, want, tolp(1, ma + mb + _maxabs(base) + abs(s) * ma), n=n, m=m)
        k.out(r.a, t1)
    got = x.dotInd(A, B, I, m)
    k.near("blas:dotInd-differs-from-definition", got, float(a[ind] @ b[ind]), td, n=n, m=m)
    # gather / scatter
    gi = rng.integers(0, max(n, 1), size=m).astype(np.int32) if n else np.zeros(0, np.int32)
    mm = len(gi)
    G = x.i(gi)
    r = x.zf(mm)
    x.gather(r, A, G, mm)
    k.eq("gather:differs-from-definition", r.a, a[gi])
    r = x.zf(n)
    x.gather(r, A, None, n)
    k.eq("gather:null-index-is-not-a-copy", r.a, a)
    gm = gi.copy()
    gm[rng.random(mm) < 0.3] = -1
    GM = x.i(gm)
    r = x.zf(mm)
    x.gatherMasked(r, A, GM, mm)
    k.eq("gatherMasked:differs-from-definition", r.a, np.where(gm >= 0, a[np.maximum(gm, 0)] if n else 0.0, 0.0))
    r = x.f(base)
    src = _vec(rng, m)
    x.scatter(r, x.f(src), I, m)
    want = base.copy()
    want[ind] = src
    k.eq("scatter:differs-from-definition", r.a, want)
    iv = rng.integers(-50, 50, size=n).astype(np.int32)
    r = x.zi(mm)
    x.gatherInt(r, x.i(iv), G, mm)
    k.eq("gatherInt:differs-from-definition", r.a, iv[gi])
    r = x.i(iv)
    isrc = rng.integers(-50, 50, size=m).astype(np.int32)
    x.scatterInt(r, x.i(isrc), I, m)
    wi = iv.copy()
    wi[ind] = isrc
    k.eq("scatterInt:differs-from-definition", r.a, wi)
    k.P.case("blas-vec|" + _skey(n), nontrivial=n > 0, sample={"family": "blas", "n": n})


def fam_blasmat(x, rng, k):
    nr, nc, c2 = _size(rng, 0, 40), _size(rng, 0, 70), _size(rng, 0, 30)
    M = rng.normal(size=(nr, nc))
    if rng.random() < 0.4:
        M[rng.random((nr, nc)) < 0.5] = 0.0
    v, u = _vec(rng, nc), _vec(rng, nr, zeros=0.3)
    Mb = x.f(M)
    mm = _maxabs(M)
    r = x.zf(nr)
    x.mulMatVec(r, Mb, x.f(v), nr, nc)
    t = tolp(nc, mm, _maxabs(v))
    k.near("blas:mulMatVec-differs-from-definition", r.a, M @ v, t, nr=nr, nc=nc)
    k.out(r.a, t)
    r = x.zf(nc)
    x.mulMatTVec(r, Mb, x.f(u), nr, nc)
    t = tolp(nr, mm, _maxabs(u))
    k.near("blas:mulMatTVec-differs-from-definition", r.a, M.T @ u, t, nr=nr, nc=nc)
    k.out(r.a, t)
    r = x.zf(nc, nr)
    x.transpose(r, Mb, nr, nc)
    k.eq("blas:transpose-differs-from-definition", r.a, M.T)
    B = rng.normal(size=(nc, c2))
    r = x.zf(nr, c2)
    x.mulMatMat(r, Mb, x.f(B), nr, nc, c2)
    t = tolp(nc, mm, _maxabs(B))
    k.near("blas:mulMatMat-differs-from-definition", r.a, M @ B, t, nr=nr, nc=nc, c2=c2)
    k.out(r.a, t)
    B2 = rng.normal(size=(c2, nc))
    r = x.zf(nr, c2)
    x.mulMatMatT(r, Mb, x.f(B2), nr, nc, c2)
    k.near("blas:mulMatMatT-differs-from-definition", r.a, M @ B2.T, tolp(nc, mm, _maxabs(B2)), nr=nr, nc=nc, r2=c2)
    k.out(r.a, t)
    B3 = rng.normal(size=(nr, c2))
    r = x.zf(nc, c2)
    x.mulMatTMat(r, Mb, x.f(B3), nr, nc, c2)
    t = tolp(nr, mm, _maxabs(B3))
    k.near("blas:mulMatTMat-differs-from-definition", r.a, M.T @ B3, t, nr=nr, nc=nc, c2=c2)
    k.out(r.a, t)
    dg = np.abs(_vec(rng, nr, zeros=0.2))
    for use in (0, 1):
        r = x.zf(nc, nc)
        x.sqrMatTD(r, Mb, x.f(dg) if use else None, nr, nc)
        want = M.T @ (dg[:, None] * M) if use else M.T @ M
        t = tolp(nr, mm, mm, _maxabs(dg) if use else 1.0)
        k.near("blas:sqrMatTD-differs-from-definition", r.a, want, t, nr=nr, nc=nc, diag=use)
        k.out(r.a, t)
    n = nc
    S = rng.normal(size=(n, n))
    Sb = x.f(S)
    r = x.zf(n, n)
    x.symmetrize(r, Sb, n)
    k.near("blas:symmetrize-differs-from-definition", r.a, 0.5 * (S + S.T), tolp(1, _maxabs(S)), n=n)
    w = _vec(rng, n)
    got = x.mulVecMatVec(x.f(v), Sb, x.f(w), n)
    k.near("blas:mulVecMatVec-differs-from-definition", got, float(v @ S @ w), tolp(n * n, _maxabs(S), _maxabs(v), _maxabs(w)), n=n)
    r = x.zf(n, n)
    x.eye(r, n)
    k.eq("blas:eye-differs-from-definition", r.a, np.eye(n))
    rows = np.sort(rng.permutation(nr)[:int(rng.integers(0, nr + 1))]).astype(np.int32)
    base = rng.normal(size=(nr, nc))
    r = x.f(base)
    x.copyRows(r, Mb, x.i(rows), len(rows), nc)
    want = base.copy()
    want[rows] = M[rows]
    k.eq("blas:copyRows-differs-from-definition", r.a, want)
    k.P.case("blas-mat|%s|%s" % (_skey(nc), _skey(nr)), nontrivial=nr > 0 and nc > 0, sample={"family": "blasmat", "nr": nr, "nc": nc})


# ---------------------------------------------------------------------------------- dense Cholesky

def fam_chol(x, rng, k):
    n = _size(rng)
    cond = _cond(rng)
    A = sp.spd(rng, n, cond) * float(rng.choice([1.0, 1e-2, 1e3]))
    sa = max(_maxabs(A), 1e-300)
    Ab = x.f(A)
    rank = x.cholFactor(Ab, n, float(E.mjMINVAL))
    Lf = np.tril(Ab.a)
    resid = tolp(n, sa)
    okf = k.true("cholFactor:rank-below-n-on-SPD-input", rank == n or cond * EPS * n > 1e-4, n=n, cond=cond, rank=rank)
    if rank == n:
        k.near("cholFactor:L*L'-differs-from-input", Lf @ Lf.T, A, resid, n=n, cond=cond)
        k.true("cholFactor:diagonal-not-positive", bool(np.all(np.diag(Lf) > 0)) if n else True, n=n)
        k.eq("cholFactor:upper-triangle-modified", np.triu(Ab.a, 1), np.triu(A, 1))
        k.out(Lf, resid * cond)
        b = _vec(rng, n)
        xs = x.zf(n)
        x.cholSolve(xs, Ab, x.f(b), n)
        want = np.linalg.solve(A, b) if n else np.zeros(0)
        t = tolp(n, _maxabs(want), kappa=cond)
        k.near("cholSolve:differs-from-dense-solve", xs.a, want, t, n=n, cond=cond)
        k.out(xs.a, t)
        # in-place solve (res == vec)
        bb = x.f(b)
        x.cholSolve(bb, Ab, bb, n)
        k.eq("cholSolve:aliased-solve-differs", bb.a, xs.a)
        # rank-one update / downdate against refactorisation
        u = _vec(rng, n, zeros=float(rng.choice([0.0, 0.3, 0.9]))) * math.sqrt(sa) / max(1.0, _maxabs(_vec(rng, 1)))
        u = u / max(_maxabs(u), 1e-300) * math.sqrt(sa) * float(rng.choice([0.1, 1.0, 3.0])) if n else u
        plus = int(rng.random() < 0.5)
        if plus:
            L0 = np.linalg.cholesky(A) if n else A
            target = A + np.outer(u, u)
            kap = cond
        else:
            target = A
            L0 = np.linalg.cholesky(A + np.outer(u, u)) if n else A
            kap = cond * (1 + float(u @ u) / sa)
        Lb = x.f(L0 + np.triu(rng.normal(size=(n, n)), 1))      # upper triangle is garbage by contract
        ub = x.f(u)
        r2 = x.cholUpdate(Lb, ub, n, plus)
        L1 = np.tril(Lb.a)
        t = tolp(n, _maxabs(target) + float(u @ u), kappa=(1.0 if plus else kap))
        k.near("cholUpdate:%s-differs-from-refactorisation" % ("update" if plus else "downdate"), L1 @ L1.T, target, t,
               n=n, cond=cond, plus=plus)
        if plus or kap * EPS * n < 1e-6:
            k.true("cholUpdate:rank-below-n", r2 == n, n=n, plus=plus, rank=r2)
        k.out(L1, t * cond)
    # rank-deficient: zeroed rows/cols -> documented return code only
    if n >= 2:
        z = np.sort(rng.permutation(n)[:int(rng.integers(1, n))])
        Az = sp.spd(rng, n, 10.0)
        Az[z, :] = 0.0
        Az[:, z] = 0.0
        rz = x.cholFactor(x.f(Az), n, float(E.mjMINVAL))
        k.eq("cholFactor:rank-return-on-deficient-input", rz, n - len(z), n=n, zeroed=z)
    k.P.case("chol|%s|c=%g" % (_skey(n), cond), nontrivial=n > 0, sample={"family": "chol", "n": n, "cond": cond})


def fam_lu(x, rng, k):
    n = _size(rng, 0, 50)
    cond = _cond(rng)
    A = sp.general(rng, n, cond) * float(rng.choice([1.0, 1e-2, 1e3]))
    b = _vec(rng, n)
    LU = x.f(A)
    piv = x.zi(n)
    ok = x.factorLU(LU, n, piv)
    k.true("factorLU:reports-singular-on-regular-matrix", ok == 1 or cond >= 1e10, n=n, cond=cond)
    if ok == 1:
        xs = x.zf(n)
        x.solveLU(xs, LU, x.f(b), piv, n)
        want = np.linalg.solve(A, b) if n else np.zeros(0)
        t = tolp(n * max(n, 1), _maxabs(want), kappa=cond)
        k.near("solveLU:differs-from-dense-solve", xs.a, want, t, n=n, cond=cond)
        k.near("solveLU:residual-too-large", A @ xs.a, b, tolp(n * max(n, 1), _maxabs(A) * _maxabs(xs.a) + _maxabs(b)), n=n, cond=cond)
        k.out(xs.a, t)
        # P*A = L*U with the recorded row swaps
        PA = A.copy()
        good = True
        for i in range(n):
            j = int(piv.a[i])
            if not (i <= j < n):
                good = False
                break
            PA[[i, j]] = PA[[j, i]]
        k.true("factorLU:pivot-out-of-range", good, n=n, pivot=piv.a)
        if good:
            Lm = np.tril(LU.a, -1) + np.eye(n)
            Um = np.triu(LU.a)
            k.near("factorLU:L*U-differs-from-permuted-input", Lm @ Um, PA, tolp(n * max(n, 1), _maxabs(A)), n=n)
            k.true("factorLU:multiplier-exceeds-one(not-partial-pivoting)", _maxabs(np.tril(LU.a, -1)) <= 1 + 1e-12, n=n)
    if n >= 1:
        As = A.copy()
        As[:, int(rng.integers(0, n))] = 0.0
        k.eq("factorLU:singular-matrix-not-reported", x.factorLU(x.f(As), n, x.zi(n)), 0, n=n)
    # 6x6 specialisation: documented to give identical results
    A6 = sp.general(rng, 6, cond)
    b6 = _vec(rng, 6)
    g, p1 = x.f(A6), x.zi(6)
    s, p2 = x.f(A6), x.zi(6)
    r1, r2 = x.factorLU(g, 6, p1), x.factorLU6(s, p2)
    k.true("factorLU6:differs-from-generic-factorLU", r1 == r2 and np.array_equal(g.a, s.a) and np.array_equal(p1.a, p2.a), A=A6)
    if r2 == 1:
        x1, x2 = x.zf(6), x.zf(6)
        x.solveLU(x1, g, x.f(b6), p1, 6)
        x.solveLU6(x2, s, x.f(b6), p2)
        k.eq("solveLU6:differs-from-generic-solveLU", x2.a, x1.a)
        k.near("solveLU6:differs-from-dense-solve", x2.a, np.linalg.solve(A6, b6), tolp(36, _maxabs(np.linalg.solve(A6, b6)), kappa=cond), cond=cond)
        k.out(x2.a, tolp(36, 1.0, kappa=cond))
    # 3x3 Gaussian elimination without pivoting: diagonally dominant input
    A3 = rng.normal(size=(3, 3))
    A3 += np.diag(np.sign(np.diag(A3)) * (np.abs(A3).sum(axis=1) + 0.1))
    b3 = _vec(rng, 3)
    x3 = x.zf(3)
    x.solve3(x3, x.f(A3), x.f(b3))
    w3 = np.linalg.solve(A3, b3)
    k.near("solve3:differs-from-dense-solve", x3.a, w3, tolp(9, _maxabs(w3), kappa=np.linalg.cond(A3)))
    k.out(x3.a, tolp(9, _maxabs(w3), kappa=np.linalg.cond(A3)))
    k.P.case("lu|%s|c=%g" % (_skey(n), cond), nontrivial=n > 0, sample={"family": "lu", "n": n, "cond": cond})


# ------------------------------------------------------------------------------------------- band

def fam_band(x, rng, k):
    nt = _size(rng, 1, 48)
    nd = int(rng.integers(0, nt + 1)) if rng.random() < 0.7 else 0
    ns = nt - nd
    nb = int(rng.integers(1, max(ns, 1) + 1)) if ns else int(rng.integers(0, 3))
    if rng.random() < 0.1:
        nb = nb + int(rng.integers(0, 4))          # band wider than the sparse block is legal
    cond = float(10.0 ** rng.choice([0.5, 1, 2, 4, 6]))
    i, j = np.indices((nt, nt))
    struct = (np.abs(i - j) < nb) | (np.maximum(i, j) >= ns)
    A = sp.spd_with_pattern(rng, struct, cond)
    size = ns * nb + nd * nt
    band = x.zf(size)
    x.dense2Band(band, x.f(A), nt, nb, nd)
    # independent packing from the documented layout
    ref = np.full(size, np.nan)
    for r in range(ns):
        w = min(r, nb - 1)
        ref[(r + 1) * nb - (w + 1):(r + 1) * nb] = A[r, r - w:r + 1]
    for r in range(ns, nt):
        ref[ns * nb + (r - ns) * nt: ns * nb + (r - ns) * nt + r + 1] = A[r, :r + 1]
    used = ~np.isnan(ref)
    k.eq("dense2Band:differs-from-documented-layout", band.a[used], ref[used], nt=nt, nb=nb, nd=nd)
    bref = x.f(ref)                                     # untouched slots stay NaN: reading them poisons the result
    for sym in (0, 1):
        D = x.zf(nt, nt)
        x.band2Dense(D, bref, nt, nb, nd, sym)
        k.eq("band2Dense:differs-from-dense-matrix", D.a, A if sym else np.tril(A), nt=nt, nb=nb, nd=nd, sym=sym)
    for r in range(nt):
        idx = x.bandDiag(r, nt, nb, nd)
        if not k.true("bandDiag:address-is-not-the-diagonal-element", 0 <= idx < size and ref[idx] == A[r, r], i=r, nt=nt, nb=nb, nd=nd, idx=idx):
            break
    nvec = int(rng.integers(1, 4))
    V = rng.normal(size=(nvec, nt))
    for sym in (0, 1):
        R = x.zf(nvec, nt)
        x.bandMulMatVec(R, bref, x.f(V), nt, nb, nd, nvec, sym)
        Aw = A if sym else np.tril(A)
        t = tolp(nt, _maxabs(A), _maxabs(V))
        k.near("bandMulMatVec:differs-from-dense-product", R.a, V @ Aw.T, t, nt=nt, nb=nb, nd=nd, sym=sym, nvec=nvec)
        k.out(R.a, t)
    da, dm = float(rng.choice([0.0, 0.0, 0.1])), float(rng.choice([0.0, 0.0, 0.5]))
    F = x.f(ref)
    mind = x.cholFactorBand(F, nt, nb, nd, da, dm)
    A2 = A + da * np.eye(nt) + dm * np.diag(np.diag(A))
    c2 = np.linalg.cond(A2)
    k.true("cholFactorBand:reports-rank-deficient-on-SPD-input", mind > 0, nt=nt, nb=nb, nd=nd, ret=mind)
    if mind > 0:
        Ld = x.zf(nt, nt)
        x.band2Dense(Ld, F, nt, nb, nd, 0)
        t = tolp(nt, _maxabs(A2))
        k.near("cholFactorBand:L*L'-differs-from-input", Ld.a @ Ld.a.T, A2, t, nt=nt, nb=nb, nd=nd, diagadd=da, diagmul=dm)
        dl = np.diag(Ld.a)
        k.true("cholFactorBand:return-is-not-the-minimum-factor-diagonal",
               min(abs(mind - dl.min() ** 2), abs(mind - dl.min())) <= tolp(nt, _maxabs(A2), kappa=c2), ret=mind, mindiag=dl.min())
        k.out(Ld.a, t * c2)
        b = _vec(rng, nt)
        xs = x.zf(nt)
        x.cholSolveBand(xs, F, x.f(b), nt, nb, nd)
        want = np.linalg.solve(A2, b)
        t = tolp(nt, _maxabs(want), kappa=c2)
        k.near("cholSolveBand:differs-from-dense-solve", xs.a, want, t, nt=nt, nb=nb, nd=nd, cond=c2)
        k.out(xs.a, t)
    # rank-deficient -> 0
    Az = A.copy()
    z = int(rng.integers(0, nt))
    Az[z, :] = 0
    Az[:, z] = 0
    Z = x.zf(size)
    x.dense2Band(Z, x.f(Az), nt, nb, nd)
    Z.a[np.isnan(Z.a)] = 0.0
    k.eq("cholFactorBand:rank-deficient-input-not-reported", x.cholFactorBand(Z, nt, nb, nd, 0.0, 0.0), 0.0, nt=nt, zeroed=z)
    k.P.case("band|%s|nb%%4=%d|nd=%s" % (_skey(nt), nb % 4, "0" if nd == 0 else ("all" if nd == nt else "some")),
             nontrivial=True, sample={"family": "band", "ntotal": nt, "nband": nb, "ndense": nd})


# ------------------------------------------------------------------------------------------- eig3

def fam_eig3(x, rng, k):
    kind = int(rng.integers(0, 7))
    Q, _ = np.linalg.qr(rng.normal(size=(3, 3)))
    lam = rng.normal(size=3) * float(rng.choice([1.0, 1e-3, 1e3, 1e6]))
    if kind == 1:
        lam[1] = lam[0]
    elif kind == 2:
        lam[:] = lam[0]
    elif kind == 3:
        Q = np.eye(3)
    elif kind == 4:
        lam = np.abs(lam) * np.array([1.0, 1e-8, 1e-14])
    elif kind == 5:
        lam = np.sort(lam)                       # increasing: forces the sorting branch with Q = I
        Q = np.eye(3)
    A = (Q * lam) @ Q.T
    A = 0.5 * (A + A.T)
    ev, V, q = x.zf(3), x.zf(3, 3), x.zf(4)
    it = x.eig3(ev, V, q, x.f(A))
    sa = max(_maxabs(A), 1e-300)
    # the Jacobi sweep stops when a rotation's cosine exceeds 1-1e-12 (angle < 1.5e-6): the off-diagonal left over is
    # up to 1.5e-6 * spread, the eigenvalues themselves are second-order accurate
    spread = float(lam.max() - lam.min())
    tol = 2e-11 + 200 * EPS * sa + 1e-11 * spread
    tolrec = tol + 3e-6 * spread
    if it >= 500:            # absolute 1e-12 off-diagonal threshold vs rounding noise of a large lambda*I: result still checked
        k.P.count("eig3_hit_iteration_limit")
    k.near("eig3:eigenvectors-not-orthonormal", V.a @ V.a.T, np.eye(3), 1e-13, A=A)
    k.near("eig3:V*diag(lambda)*V'-differs-from-input", (V.a * ev.a) @ V.a.T, A, tolrec, A=A, eigval=ev.a)
    k.near("eig3:eigenvalues-differ-from-LAPACK", np.sort(ev.a), np.linalg.eigvalsh(A), tol, A=A)
    k.true("eig3:eigenvalues-not-in-decreasing-order", ev.a[0] >= ev.a[1] - 2e-12 - tol and ev.a[1] >= ev.a[2] - 2e-12 - tol, eigval=ev.a, A=A)
    # quaternion output represents the same rotation
    w, xx, y, z = q.a
    Rq = np.array([[1 - 2 * (y * y + z * z), 2 * (xx * y - w * z), 2 * (xx * z + w * y)],
                   [2 * (xx * y + w * z), 1 - 2 * (xx * xx + z * z), 2 * (y * z - w * xx)],
                   [2 * (xx * z - w * y), 2 * (y * z + w * xx), 1 - 2 * (xx * xx + y * y)]])
    k.near("eig3:quaternion-differs-from-eigenvector-matrix", Rq, V.a, 1e-12, A=A, quat=q.a)
    k.out(np.sort(ev.a), tol)
    k.P.case("eig3|kind=%d|scale=%d" % (kind, int(round(math.log10(sa + 1e-300)))), nontrivial=True, sample={"family": "eig3", "A": A})


# -------------------------------------------------------------------------------------------- QPs

def fam_qcqp(x, rng, k):
    n = int(rng.integers(1, 6))
    A = sp.spd(rng, n, float(rng.choice([1.0, 3.0, 10.0]))) * 5.0         # eigenvalues in [0.5, 5]
    b = rng.normal(size=n) * float(rng.choice([0.1, 1.0, 10.0]))
    d = rng.uniform(0.5, 2.0, size=n)
    As, bs = A * np.outer(d, d), b * d
    yu = -np.linalg.solve(As, bs)
    r = float(np.linalg.norm(yu) * rng.choice([0.05, 0.3, 0.9, 0.999, 1.001, 1.5, 5.0]))
    outs = []
    calls = [("QCQP", lambda res: x.QCQP(res, x.f(A), x.f(b), x.f(d), r, n))]
    if n == 2:
        calls.append(("QCQP2", lambda res: x.QCQP2(res, x.f(A), x.f(b), x.f(d), r)))
    if n == 3:
        calls.append(("QCQP3", lambda res: x.QCQP3(res, x.f(A), x.f(b), x.f(d), r)))
    for name, call in calls:
        res = x.zf(n)
        ret = call(res)
        y = res.a / d
        g = As @ y + bs
        sc = _maxabs(bs) + _maxabs(As) * _maxabs(y) + 1e-300
        inside = np.linalg.norm(yu) <= r
        det = dict(n=n, A=A, b=b, d=d, r=r, res=res.a, ret=ret)
        k.true(name + ":return-flag-inconsistent-with-constraint-activity",
               # (near the boundary either flag is right: relative band 1e-4, and the same absolute slack on the squared norm that the
               # feasibility test below grants - for tiny problems, r ~ 1e-5, it is the absolute one that matters)
               ret == (0 if inside else 1) or abs(np.linalg.norm(yu) - r) < 1e-4 * r or abs(float(yu @ yu) - r * r) < 1e-9, **det)
        k.true(name + ":point-infeasible", float(y @ y) <= r * r * (1 + 1e-7) + 1e-9, **det)
        if ret == 0:
            k.near(name + ":unconstrained-return-but-gradient-nonzero", g, np.zeros(n), 1e-9 * sc, **det)
        else:
            lam = -float(g @ y) / max(float(y @ y), 1e-300)
            k.true(name + ":negative-multiplier", lam >= -1e-9 * sc, lam=lam, **det)
            k.near(name + ":stationarity-violated", g + lam * y, np.zeros(n), 1e-8 * sc, lam=lam, **det)
            k.near(name + ":complementary-slackness-violated", float(y @ y), r * r, 1e-6 * (r * r) + 1e-9, lam=lam, **det)
        outs.append(res.a.copy())
        k.out(res.a, 1e-8 * (_maxabs(res.a) + 1e-3))
    if len(outs) == 2:
        k.near("QCQP%d:differs-from-general-QCQP" % n, outs[1], outs[0], 1e-7 * (_maxabs(outs[0]) + 1e-6), n=n, A=A, b=b, d=d, r=r)
    k.P.case("qcqp|n=%d|%s" % (n, "in" if np.linalg.norm(yu) <= r else "out"), nontrivial=True, sample={"family": "qcqp", "n": n, "r": r})


_BOXQP_OPT = (100, 1e-16, 0.5, 1e-22, 0.1)


def fam_boxqp(x, rng, k):
    n = _size(rng, 1, 40)
    cond = float(10.0 ** rng.choice([0, 1, 2, 3, 4]))
    H = sp.spd(rng, n, cond) * float(rng.choice([1.0, 10.0]))
    g = rng.normal(size=n) * float(rng.choice([0.1, 1.0, 10.0]))
    xu = -np.linalg.solve(H, g)
    mode = int(rng.integers(0, 6))      # 0: no bounds, 1: wide (inactive), 2: tight (most active), 3: mixed, 4: lower only, 5: upper only
    w = float(np.abs(xu).max() + 1.0)
    if mode == 1:
        lo, hi = xu - w * rng.uniform(1, 3, n), xu + w * rng.uniform(1, 3, n)
    elif mode == 2:
        c = rng.normal(size=n) * w
        lo, hi = c - rng.uniform(1e-3, 0.1, n) * w, c + rng.uniform(1e-3, 0.1, n) * w
    else:
        lo, hi = xu - rng.uniform(-1, 1, n) * w - 0.01, None
        hi = np.maximum(lo + rng.uniform(1e-3, 2, n) * w, xu + rng.uniform(-1, 1, n) * w)
        if rng.random() < 0.3:
            hi[rng.random(n) < 0.3] = 1e10       # effectively unbounded above
    use_lo, use_hi = mode not in (0, 5), mode not in (0, 4)
    Hin = H.copy()
    if rng.random() < 0.5:
        Hin[np.triu_indices(n, 1)] = np.nan       # "Only the lower triangles of H ... are read"
    warm = rng.normal(size=n) * w * float(rng.choice([0.0, 1.0, 10.0]))
    with_index = rng.random() < 0.7
    res, R, idx = x.f(warm), x.zf(n * (n + 7)), (x.zi(n) if with_index else None)
    LO, HI = (x.f(lo) if use_lo else None), (x.f(hi) if use_hi else None)
    ret = x.boxQP(res, R, idx, x.f(Hin), x.f(g), n, LO, HI)
    # same problem through the explicit-option entry point, to read the solver status from its log
    res2, R2 = x.f(warm), x.zf(n * (n + 7))
    log = C.create_string_buffer(20000)
    ret2 = x.boxQPoption(res2, R2, None, x.f(Hin), x.f(g), n, LO, HI, *_BOXQP_OPT, C.cast(log, C.c_void_p).value, 20000)
    txt = log.value.decode(errors="replace")
    status = txt.split("BOXQP: ")[-1].split(".")[0] if "BOXQP: " in txt else "?"
    det = dict(n=n, cond=cond, mode=mode, H=H if n <= 6 else None, g=g if n <= 12 else None, lower=lo if use_lo else None,
               upper=hi if use_hi else None, warm=warm if n <= 12 else None, ret=ret, status=status)
    k.true("boxQP:differs-from-boxQPoption-with-default-options", ret == ret2 and np.array_equal(res.a, res2.a), **det)
    xs = res.a
    k.P.count("boxqp_status:" + status)
    if ret < 0:
        k.P.count("boxqp_returned_failure")
        k.true("boxQP:failure-on-well-conditioned-SPD-problem", cond > 1e3 or status.startswith("No descent"), **det)
        k.P.case(nontrivial=False)
        return
    lo_e = lo if use_lo else np.full(n, -np.inf)
    hi_e = hi if use_hi else np.full(n, np.inf)
    k.true("boxQP:point-outside-bounds", bool(np.all(xs >= lo_e) and np.all(xs <= hi_e)) and bool(np.all(np.isfinite(xs))), res=xs[:20], **det)
    if status.startswith("Maximum"):
        k.P.count("skipped_boxqp_iteration_limit")
        k.P.case(nontrivial=False)
        return
    grad = H @ xs + g
    tol = 2e-8 + 1e-12 * cond * (_maxabs(g) + _maxabs(H) * _maxabs(xs))
    at_lo, at_hi = xs == lo_e, xs == hi_e
    free = ~(at_lo | at_hi)
    k.true("boxQP:KKT-gradient-nonzero-on-free-coordinate", _maxabs(grad[free]) <= tol, grad=grad[:20], res=xs[:20], tol=tol, **det)
    k.true("boxQP:KKT-gradient-points-inward-at-lower-bound", bool(np.all(grad[at_lo & ~at_hi] >= -tol)), grad=grad[:20], res=xs[:20], **det)
    k.true("boxQP:KKT-gradient-points-inward-at-upper-bound", bool(np.all(grad[at_hi & ~at_lo] <= tol)), grad=grad[:20], res=xs[:20], **det)
    nfree = ret
    k.true("boxQP:returned-rank-out-of-range", 0 <= nfree <= n, **det)
    if with_index and 0 <= nfree <= n:
        ix = idx.a[:nfree]
        okix = bool(np.all(np.diff(ix) > 0)) and (nfree == 0 or (ix.min() >= 0 and ix.max() < n))
        k.true("boxQP:index-not-a-sorted-subset", okix, index=ix, **det)
        if okix:
            inset = np.zeros(n, dtype=bool)
            inset[ix] = True
            k.true("boxQP:free-coordinate-missing-from-index", bool(np.all(inset[free])), index=ix, **det)
            k.true("boxQP:clamped-coordinate-not-at-a-bound", bool(np.all((at_lo | at_hi)[~inset])), index=ix, **det)
            if nfree and not status.startswith("All"):
                Rm = np.tril(R.a[:nfree * nfree].reshape(nfree, nfree))
                Hff = H[np.ix_(ix, ix)]
                k.near("boxQP:R-is-not-the-Cholesky-factor-of-the-free-block", Rm @ Rm.T, Hff, tolp(n, _maxabs(H)), index=ix, **det)
    k.out(xs, tol / max(_maxabs(H), 1e-3) * cond + 1e-7)
    nact = int((at_lo | at_hi).sum())
    k.P.case("boxqp|%s|mode=%d|act=%s|c=%g" % (_skey(n), mode, "0" if nact == 0 else ("all" if nact == n else "some"), cond),
             nontrivial=True, sample={"family": "boxqp", "n": n, "mode": mode, "nfree": ret, "status": status})


# ----------------------------------------------------------------------------------------- sparse

_LAYOUTS = ["compressed", "uniform", "gaps"]


def _sparse_input(rng, nr=None, nc=None, lo=1):
    nr = _size(rng, lo, 40) if nr is None else nr
    nc = _size(rng, lo, 70) if nc is None else nc
    dens = float(rng.choice([0.0, 0.05, 0.2, 0.5, 0.9, 1.0]))
    mask = sp.rand_mask(rng, nr, nc, dens)
    D = rng.normal(size=(nr, nc)) * mask
    layout = _LAYOUTS[int(rng.integers(0, 3))]
    return nr, nc, dens, mask, D, layout


def _check_csr(k, name, B, _nr, _nc, want, tol, compressed=None, **detail):
    nr, nc = _nr, _nc
    """B = (vals, rownnz, rowadr, colind) Bufs produced by the engine"""
    D, bad = sp.from_csr(B[0].a, B[1].a, B[2].a, B[3].a, nr, nc)
    if not k.true(name + ":malformed-sparse-output", not bad, problems=bad[:3], **detail):
        return None
    if compressed:
        k.true(name + ":output-not-compressed", sp.is_compressed(B[1].a, B[2].a), rownnz=B[1].a[:20], rowadr=B[2].a[:20], **detail)
    k.near(name + ":differs-from-dense-counterpart", D, want, tol, **detail)
    return D


def fam_spconv(x, rng, k):
    nr, nc, dens, mask, D, layout = _sparse_input(rng)
    # stored entries that are exactly zero or exactly at the compression thresholds used below
    sel = mask & (rng.random((nr, nc)) < 0.15)
    D[sel] = rng.choice([0.0, 0.3, -0.3, 1.0, -1.0], size=int(sel.sum()))
    t = sp.to_csr(D, mask, rng, layout)
    S = x.csr(t)
    det = dict(nr=nr, nc=nc, layout=layout, density=dens)
    # sparse -> dense
    R = x.zf(nr, nc)
    x.sparse2dense(R, S[0], nr, nc, S[1], S[2], S[3])
    k.eq("sparse2dense:differs-from-dense-counterpart", R.a, D, **det)
    # dense -> sparse (exact size; one slot too few must be reported)
    nnz = int(np.count_nonzero(D))
    if nnz > 0:
        o = (x.zf(nnz), x.zi(nr), x.zi(nr), x.zi(nnz))
        ret = x.dense2sparse(o[0], x.f(D), nr, nc, o[1], o[2], o[3], nnz)
        k.eq("dense2sparse:reports-too-small-although-it-fits", ret, 0, nnz=nnz, **det)
        if ret == 0:
            _check_csr(k, "dense2sparse", o, nr, nc, D, 0.0, compressed=True, **det)
            k.true("dense2sparse:stores-explicit-zero", bool(np.all(o[0].a != 0)), **det)
            k.out(o[3].a)
        o = (x.zf(nnz - 1), x.zi(nr), x.zi(nr), x.zi(nnz - 1))
        k.eq("dense2sparse:overflow-not-reported", x.dense2sparse(o[0], x.f(D), nr, nc, o[1], o[2], o[3], nnz - 1), 1, nnz=nnz, **det)
    # transpose (+ supernodes), pattern-only variant, offset variant
    tot = int(t[1].sum())
    o = (x.zf(tot), x.zi(nc), x.zi(nc), x.zi(tot))
    rs = x.zi(nc)
    x.transposeSparse(o[0], S[0], nr, nc, o[1], o[2], o[3], rs, S[1], S[2], S[3])
    if _check_csr(k, "transposeSparse", o, nc, nr, D.T, 0.0, compressed=True, **det) is not None:
        k.eq("transposeSparse:pattern-differs", sp.pattern_from_csr(o[1].a, o[2].a, o[3].a, nc, nr), mask.T, **det)
        k.eq("transposeSparse:rowsuper-differs-from-definition", rs.a, sp.rowsuper_ref(mask.T), **det)
        k.out(o[2].a)
        k.out(rs.a)
    o2 = (None, x.zi(nc), x.zi(nc), x.zi(tot))
    x.transposeSparse(None, None, nr, nc, o2[1], o2[2], o2[3], None, S[1], S[2], S[3])
    k.true("transposeSparse:pattern-only-variant-differs", np.array_equal(o2[1].a, o[1].a) and np.array_equal(o2[2].a, o[2].a)
           and np.array_equal(o2[3].a, o[3].a), **det)
    off = int(rng.integers(1, 5))       # rows start at rowadr[0]=off; mat/colind passed offset, as engine_solver.c does
    adr2 = x.i(t[2] + off)
    o3 = (x.zf(tot), x.zi(nc), x.zi(nc), x.zi(tot))
    x.transposeSparse(o3[0], S[0], nr, nc, o3[1], o3[2], o3[3], None, S[1], adr2, S[3])
    k.true("transposeSparse:offset-rowadr-variant-differs", np.array_equal(o3[0].a, o[0].a) and np.array_equal(o3[3].a, o[3].a)
           and np.array_equal(o3[2].a, o[2].a), offset=off, **det)
    # row supernodes
    rs2 = x.zi(nr)
    x.superSparse(nr, rs2, S[1], S[2], S[3])
    k.eq("superSparse:differs-from-definition", rs2.a, sp.rowsuper_ref(mask), **det)
    k.out(rs2.a)
    # compress (in place), with and without thresholding
    if layout != "compressed" or rng.random() < 0.3:
        for minval in (-1.0, float(rng.choice([0.0, 0.3, 1.0]))):
            Sc = x.csr(t)
            total = x.compressSparse(Sc[0], nr, nc, Sc[1], Sc[2], Sc[3], minval)
            want = D if minval < 0 else np.where(np.abs(D) <= minval, 0.0, D)
            wmask = mask if minval < 0 else (mask & (np.abs(D) > minval))
            if _check_csr(k, "compressSparse", Sc, nr, nc, want, 0.0, compressed=True, minval=minval, **det) is not None:
                k.eq("compressSparse:wrong-total", total, int(wmask.sum()), minval=minval, **det)
                k.eq("compressSparse:pattern-differs", sp.pattern_from_csr(Sc[1].a, Sc[2].a, Sc[3].a, nr, nc), wmask, minval=minval, **det)
                k.out(Sc[2].a)
    # row subset copy / zero
    rows = np.sort(rng.permutation(nr)[:int(rng.integers(0, nr + 1))]).astype(np.int32)
    other = rng.normal(size=len(t[0]))
    dst = x.f(other)
    x.copySparse(dst, S[0], S[1], S[2], x.i(rows), len(rows))
    want = other.copy()
    for r in rows:
        want[t[2][r]:t[2][r] + t[1][r]] = t[0][t[2][r]:t[2][r] + t[1][r]]
    k.eq("copySparse:differs-from-row-copy", dst.a, want, **det)
    dst = x.f(other)
    x.zeroSparse(dst, S[1], S[2], x.i(rows), len(rows))
    want = other.copy()
    for r in rows:
        want[t[2][r]:t[2][r] + t[1][r]] = 0.0
    k.eq("zeroSparse:differs-from-row-zeroing", dst.a, want, **det)
    # symmetric lower-triangular -> dense
    n = nc
    lm = np.tril(sp.rand_mask(rng, n, n, dens))
    LD = rng.normal(size=(n, n)) * lm
    ts = sp.to_csr(LD, lm, rng, layout)
    Ss = x.csr(ts)
    R = x.zf(n, n)
    x.sym2dense(R, Ss[0], n, Ss[1], Ss[2], Ss[3])
    k.eq("sym2dense:differs-from-dense-counterpart", R.a, LD + np.tril(LD, -1).T, n=n, layout=layout)
    k.P.case("spconv|%s|%s|%s|d=%g" % (_skey(nc), _skey(nr), layout, dens), nontrivial=bool(mask.any()),
             sample={"family": "spconv", "nr": nr, "nc": nc, "layout": layout, "density": dens})


def fam_spmul(x, rng, k):
    nr, nc, dens, mask, D, layout = _sparse_input(rng)
    t = sp.to_csr(D, mask, rng, layout)
    S = x.csr(t)
    det = dict(nr=nr, nc=nc, layout=layout, density=dens)
    v, u = _vec(rng, nc), _vec(rng, nr, zeros=0.3)
    V = x.f(v)
    tm = tolp(nc, _maxabs(D), _maxabs(v))
    rs_ref = sp.rowsuper_ref(mask)
    rs_eng = x.zi(nr)
    x.superSparse(nr, rs_eng, S[1], S[2], S[3])
    for name, rs in (("null", None), ("reference", x.i(rs_ref)), ("engine", rs_eng)):
        R = x.zf(nr)
        x.mulMatVecSparse(R, S[0], V, nr, S[1], S[2], S[3], rs)
        k.near("mulMatVecSparse:differs-from-dense-counterpart", R.a, D @ v, tm, rowsuper=name, **det)
        k.out(R.a, tm)
    R = x.zf(nc)
    x.mulMatTVecSparse(R, S[0], x.f(u), nr, nc, S[1], S[2], S[3])
    tt = tolp(nr, _maxabs(D), _maxabs(u))
    k.near("mulMatTVecSparse:differs-from-dense-counterpart", R.a, D.T @ u, tt, **det)
    k.out(R.a, tt)
    # three rows sharing one pattern (supernode of size 3) against a dense vector
    nnz = int(rng.integers(0, min(nc, 40) + 1))
    ind = np.sort(rng.permutation(nc)[:nnz]).astype(np.int32)
    rows = rng.normal(size=(3, nnz))
    r0, r1, r2 = x.zf(1), x.zf(1), x.zf(1)
    x.dotSparseX3(r0, r1, r2, x.f(rows[0]), x.f(rows[1]), x.f(rows[2]), V, nnz, x.i(ind))
    got = np.array([r0.a[0], r1.a[0], r2.a[0]])
    k.near("dotSparseX3:differs-from-dense-counterpart", got, rows @ v[ind], tolp(nnz, _maxabs(rows), _maxabs(v)), nnz=nnz, nc=nc)
    k.out(got, tolp(nnz, _maxabs(rows), _maxabs(v)))
    # symmetric (lower triangle stored, diagonal last in every row)
    n = nc
    lm = np.tril(sp.rand_mask(rng, n, n, dens), -1) | np.eye(n, dtype=bool)
    LD = rng.normal(size=(n, n)) * lm
    Sym = LD + np.tril(LD, -1).T
    ts = sp.to_csr(LD, lm, rng, layout)
    Ss = x.csr(ts)
    R = x.zf(n)
    x.mulSymVecSparse(R, Ss[0], V, n, Ss[1], Ss[2], Ss[3])
    ts_ = tolp(n, _maxabs(LD), _maxabs(v))
    k.near("mulSymVecSparse:differs-from-dense-counterpart", R.a, Sym @ v, ts_, n=n, layout=layout)
    k.out(R.a, ts_)
    for up in (0, 1):
        base = rng.normal(size=(n, n))
        R = x.f(base)
        x.addToSymSparse(R, Ss[0], n, Ss[1], Ss[2], Ss[3], up)
        k.near("addToSymSparse:differs-from-dense-counterpart", R.a, base + (Sym if up else LD), tolp(1, _maxabs(base) + _maxabs(LD)), n=n, flg_upper=up)
    k.P.case("spmul|%s|%s|%s|d=%g|super=%d" % (_skey(nc), _skey(nr), layout, dens, int(rs_ref.any())), nontrivial=bool(mask.any()),
             sample={"family": "spmul", "nr": nr, "nc": nc, "layout": layout, "density": dens})


def _svec(rng, n, nnz=None):
    nnz = int(rng.integers(0, n + 1)) if nnz is None else nnz
    ind = np.sort(rng.permutation(n)[:nnz]).astype(np.int32)
    return ind, rng.normal(size=nnz)


def fam_spadd(x, rng, k):
    n = _size(rng, 1, 70)
    mode = int(rng.integers(0, 4))           # 0 random, 1 identical patterns, 2 disjoint, 3 one empty
    ia, va = _svec(rng, n)
    ib, vb = _svec(rng, n)
    if mode == 1:
        ib, vb = ia.copy(), rng.normal(size=len(ia))
    elif mode == 2:
        keep = ~np.isin(ib, ia)
        ib, vb = ib[keep], vb[keep]
    elif mode == 3:
        ib, vb = ib[:0], vb[:0]
    da, db = np.zeros(n), np.zeros(n)
    da[ia], db[ib] = va, vb
    a, b = float(rng.choice([1.0, -0.7, 2.5])), float(rng.normal())
    det = dict(n=n, mode=mode, nnz_a=len(ia), nnz_b=len(ib))
    IA, IB, VA, VB = x.i(ia), x.i(ib), x.f(va), x.f(vb)
    got = x.dotSparse2(VA, IA, len(ia), VB, IB, len(ib))
    td = tolp(n, _maxabs(va), _maxabs(vb))
    k.near("dotSparse2:differs-from-dense-counterpart", got, float(da @ db), td, **det)
    k.out(np.array([got]), td)
    union = np.union1d(ia, ib)
    k.eq("combineSparseCount:differs-from-union-size", x.combineSparseCount(len(ia), len(ib), IA, IB), len(union), **det)
    ch = x.zi(len(union))
    nch = x.addChains(ch, n, len(ia), len(ib), IA, IB)
    k.true("addChains:differs-from-sorted-union", nch == len(union) and np.array_equal(ch.a[:nch], union), got=ch.a[:20], **det)
    k.out(ch.a)
    # incomplete combine: only at the indices of dst
    dst = x.f(va)
    x.combineSparseInc(dst, VB, n, a, b, len(ia), len(ib), IA, IB)
    t1 = tolp(1, abs(a) * _maxabs(va) + abs(b) * _maxabs(vb))
    k.near("combineSparseInc:differs-from-dense-counterpart", dst.a, (a * da + b * db)[ia], t1, a=a, b=b, **det)
    k.out(dst.a, t1)
    dst = x.f(va)
    x.addToSclSparseInc(dst, VB, len(ia), IA, len(ib), IB, b)
    k.near("addToSclSparseInc:differs-from-dense-counterpart", dst.a, (da + b * db)[ia], t1, scl=b, **det)
    k.out(dst.a, t1)
    # column-sparse nrow x nnz blocks sharing one index vector: dst += scl*src, patterns merged
    nrow = int(rng.integers(1, 5))
    A = rng.normal(size=(nrow, len(ia)))
    Bm = rng.normal(size=(nrow, len(ib)))
    nu = len(union)
    dstm = x.zf(nrow * nu)
    dstm.a[:nrow * len(ia)] = A.ravel()
    dind = x.zi(nu)
    dind.a[:len(ia)] = ia
    buf, bind = x.zf(nrow * nu), x.zi(nu)
    nn = x.addToSparseMat(dstm, x.f(Bm), n, nrow, b, len(ia), len(ib), dind, IB, buf, bind)
    DA, DB = np.zeros((nrow, n)), np.zeros((nrow, n))
    DA[:, ia], DB[:, ib] = A, Bm
    ok = k.eq("addToSparseMat:wrong-nnz", nn, nu, **det) and k.eq("addToSparseMat:index-not-the-union", dind.a[:nu], union, **det)
    if ok:
        k.near("addToSparseMat:differs-from-dense-counterpart", dstm.a[:nrow * nu].reshape(nrow, nu), (DA + b * DB)[:, union],
               tolp(1, _maxabs(A) + abs(b) * _maxabs(Bm)), nrow=nrow, **det)
        k.out(dstm.a[:nrow * nu], t1)
    # matrix + matrix with pattern union (destination has room for the union: uncompressed layout)
    nr, nc, dens, mask, D, layout = _sparse_input(rng)
    m2 = sp.rand_mask(rng, nr, nc, float(rng.choice([0.0, 0.1, 0.5, 1.0])))
    if rng.random() < 0.3:
        m2 = mask.copy()
    D2 = rng.normal(size=(nr, nc)) * m2
    cap = max(int((mask | m2).sum(axis=1).max()), 1)
    vals = np.full(nr * cap, np.nan)
    ci = np.full(nr * cap, sp.POISON_IND, dtype=np.int32)
    for r in range(nr):
        c = np.flatnonzero(mask[r])
        vals[r * cap:r * cap + len(c)] = D[r, c]
        ci[r * cap:r * cap + len(c)] = c
    dstS = (x.f(vals), x.i(mask.sum(axis=1)), x.i(np.arange(nr) * cap), x.i(ci))
    Ms = x.csr(sp.to_csr(D2, m2, rng, _LAYOUTS[int(rng.integers(0, 3))]))
    x.addToMatSparse(dstS[0], dstS[1], dstS[2], dstS[3], nr, Ms[0], Ms[1], Ms[2], Ms[3])
    tt = tolp(1, _maxabs(D) + _maxabs(D2))
    if _check_csr(k, "addToMatSparse", dstS, nr, nc, D + D2, tt, nr=nr, nc=nc) is not None:
        k.eq("addToMatSparse:pattern-is-not-the-union", sp.pattern_from_csr(dstS[1].a, dstS[2].a, dstS[3].a, nr, nc), mask | m2, nr=nr, nc=nc)
        k.out(dstS[1].a)
    k.P.case("spadd|%s|mode=%d|%s" % (_skey(n), mode, _skey(nc)), nontrivial=len(ia) > 0,
             sample={"family": "spadd", "n": n, "mode": mode})


def fam_spsqr(x, rng, k):
    nr, nc, dens, mask, D, layout = _sparse_input(rng, nr=_size(rng, 1, 30), nc=_size(rng, 1, 40))
    t = sp.to_csr(D, mask, rng, layout)
    tT = sp.to_csr(D.T.copy(), mask.T.copy(), rng, _LAYOUTS[int(rng.integers(0, 3))])
    S, ST = x.csr(t), x.csr(tT)
    use_super = rng.random() < 0.7
    rsT = x.i(sp.rowsuper_ref(mask.T)) if use_super else None
    use_diag = rng.random() < 0.6
    dg = np.abs(_vec(rng, nr, zeros=0.2))
    DG = x.f(dg) if use_diag else None
    H = D.T @ (dg[:, None] * D) if use_diag else D.T @ D
    Hs = (mask.T.astype(float) @ mask.astype(float)) > 0          # structural pattern of M'M
    tol = tolp(nr, _maxabs(D), _maxabs(D), _maxabs(dg) if use_diag else 1.0)
    det = dict(nr=nr, nc=nc, layout=layout, density=dens, diag=use_diag, rowsuperT=use_super)
    emptyc = ~mask.any(axis=0)
    for upper in (0, 1):
        want = H if upper else np.tril(H)
        wpat = Hs if upper else np.tril(Hs)
        # (a) precount + compressed fill
        rn, ra = x.zi(nc), x.zi(nc)
        total = x.sqrMatTDSparseCount(rn, ra, nc, S[1], S[2], S[3], ST[1], ST[2], ST[3], rsT, x.d, upper)
        okc = k.eq("sqrMatTDSparseCount:row-counts-differ-from-structural-product", rn.a, wpat.sum(axis=1), upper=upper, **det)
        okc = k.eq("sqrMatTDSparseCount:wrong-total", total, int(wpat.sum()), upper=upper, **det) and okc
        okc = k.true("sqrMatTDSparseCount:rowadr-not-compressed", sp.is_compressed(rn.a, ra.a), upper=upper, **det) and okc
        k.out(rn.a)
        variants = [("sqrMatTDSparse", "compressed"), ("sqrMatTDSparse", "uncompressed"), ("sqrMatTDSparse_row", "uncompressed")]
        for fn, lay in variants:
            # mju_sqrMatTDSparse stores a (zero) diagonal entry for EMPTY columns of M, which mju_sqrMatTDSparseCount /
            # Symbolic / _row do not count: give it room so the harness itself is never corrupted (see findings)
            extra = emptyc.astype(np.int64) if fn == "sqrMatTDSparse" else np.zeros(nc, dtype=np.int64)
            if lay == "compressed":
                if not okc:
                    continue
                size, radr = int(wpat.sum()) + int(extra.sum()), x.i(ra.a)
            else:
                size, radr = nc * nc, x.zi(nc)
                x.sqrMatTDUncompressedInit(radr, nc)
                if not k.eq("sqrMatTDUncompressedInit:rowadr-differs-from-r*nc", radr.a, np.arange(nc) * nc, nc=nc):
                    continue
            o = (x.zf(size), x.zi(nc), radr, x.zi(size, fill=sp.POISON_IND))
            di = x.zi(nc) if upper else None
            getattr(x, fn)(o[0], S[0], ST[0], DG, nr, nc, o[1], o[2], o[3], S[1], S[2], S[3], None,
                           ST[1], ST[2], ST[3], rsT, x.d, di)
            dd = dict(det, variant=fn, res_layout=lay, upper=upper)
            cnt_want = wpat.sum(axis=1)
            if extra.any() and (np.array_equal(o[1].a, cnt_want + extra) or (lay == "compressed" and not np.array_equal(o[1].a, cnt_want))):
                k._viol("sqrMatTDSparse:diagonal-stored-for-empty-column(not-counted-by-sqrMatTDSparseCount)",
                        dict(dd, empty_columns=np.flatnonzero(emptyc)[:10], rownnz_filled=o[1].a[:20], rownnz_precounted=cnt_want[:20],
                             overflow_slots=int(extra.sum()) if lay == "compressed" else 0))
                if lay == "compressed":
                    continue                       # rows overlap in the precounted layout: values are not meaningful
                cnt_want = cnt_want + extra
            # rows of the result need not be sorted when the upper triangle is appended: sort before reading
            Dg, bad = _read_unsorted(o, nc)
            if not k.true(fn + ":malformed-sparse-output", not bad, problems=bad[:3], **dd):
                continue
            k.near(fn + ":differs-from-dense-counterpart", Dg, want, tol, **dd)
            k.eq(fn + ":row-counts-differ-from-structural-product", o[1].a, cnt_want, **dd)
            if upper:
                dgood = all(0 <= di.a[r] - o[2].a[r] < o[1].a[r] and o[3].a[di.a[r]] == r for r in range(nc) if Hs[r, r])
                k.true(fn + ":diagind-does-not-address-the-diagonal", dgood, diagind=di.a[:20], **dd)
            k.out(Dg, tol)
        # (b) symbolic + numeric
        rn2, ra2 = x.zi(nc), x.zi(nc)
        wantdiag = x.zi(nc) if upper else None
        tot2 = x.sqrMatTDSparseSymbolic(rn2, ra2, None, wantdiag, nr, nc, S[1], S[2], S[3], ST[1], ST[2], ST[3], rsT, x.d)
        dd = dict(det, upper=upper)
        oks = k.eq("sqrMatTDSparseSymbolic:count-mode-row-counts-differ", rn2.a, wpat.sum(axis=1), **dd)
        oks = k.eq("sqrMatTDSparseSymbolic:count-mode-wrong-total", tot2, int(wpat.sum()), **dd) and oks
        oks = k.true("sqrMatTDSparseSymbolic:rowadr-not-compressed", sp.is_compressed(rn2.a, ra2.a), **dd) and oks
        if oks:
            size = int(wpat.sum())
            ci2 = x.zi(size, fill=sp.POISON_IND)
            rn3 = x.zi(nc)
            x.sqrMatTDSparseSymbolic(rn3, ra2, ci2, wantdiag, nr, nc, S[1], S[2], S[3], ST[1], ST[2], ST[3], rsT, x.d)
            pat = np.zeros((nc, nc), dtype=bool)
            okp = True
            for r in range(nc):
                c = ci2.a[ra2.a[r]:ra2.a[r] + rn3.a[r]]
                if len(c) and (c.min() < 0 or c.max() >= nc or len(set(c.tolist())) != len(c)):
                    okp = False
                    break
                pat[r, c] = True
            okp = k.true("sqrMatTDSparseSymbolic:fill-mode-indices-malformed", okp, **dd) and \
                k.eq("sqrMatTDSparseSymbolic:fill-mode-pattern-differs", pat, wpat, **dd)
            if not upper and okp:
                k.true("sqrMatTDSparseSymbolic:lower-rows-not-sorted",
                       all(np.all(np.diff(ci2.a[ra2.a[r]:ra2.a[r] + rn3.a[r]]) > 0) for r in range(nc)), **dd)
            if okp:
                vals = x.zf(size)
                x.sqrMatTDSparseNumeric(vals, nc, rn3, ra2, ci2, wantdiag, S[0], S[1], S[2], S[3], ST[0], ST[1], ST[2], ST[3], rsT, DG, x.d)
                Dg, bad = _read_unsorted((vals, rn3, ra2, ci2), nc)
                k.true("sqrMatTDSparseNumeric:malformed-sparse-output", not bad, **dd)
                k.near("sqrMatTDSparseNumeric:differs-from-dense-counterpart", Dg, want, tol, **dd)
                k.out(Dg, tol)
    k.P.case("spsqr|%s|%s|%s|d=%g|diag=%d|super=%d" % (_skey(nc), _skey(nr), layout, dens, use_diag, use_super), nontrivial=bool(mask.any()),
             sample={"family": "spsqr", "nr": nr, "nc": nc, "layout": layout, "density": dens})


def _read_unsorted(o, n):
    D = np.zeros((n, n))
    bad = []
    for r in range(n):
        a, m = int(o[2].a[r]), int(o[1].a[r])
        if m < 0 or a < 0 or a + m > len(o[0].a):
            bad.append("row %d out of range" % r)
            continue
        c = o[3].a[a:a + m]
        if m and (c.min() < 0 or c.max() >= n or len(set(c.tolist())) != m):
            bad.append("row %d indices invalid/duplicated" % r)
            continue
        D[r, c] = o[0].a[a:a + m]
    return D, bad


# --------------------------------------------------------------------------------- sparse solvers

def _lower_csr_with_room(H, pat_lower, full_rows):
    """Lower-triangular CSR of H on pattern `pat_lower` (diagonal last), every row r owning r+1 slots (room for fill-in)."""
    n = H.shape[0]
    rowadr = np.array([r * (r + 1) // 2 for r in range(n)], dtype=np.int32)
    total = n * (n + 1) // 2
    vals = np.full(total, np.nan)
    ci = np.full(total, sp.POISON_IND, dtype=np.int32)
    rownnz = np.zeros(n, dtype=np.int32)
    for r in range(n):
        c = np.flatnonzero(pat_lower[r, :r + 1])
        rownnz[r] = len(c)
        vals[rowadr[r]:rowadr[r] + len(c)] = H[r, c]
        ci[rowadr[r]:rowadr[r] + len(c)] = c
    return vals, rownnz, rowadr, ci


def fam_spchol(x, rng, k):
    n = _size(rng, 1, 40)
    dens = float(rng.choice([0.0, 0.05, 0.2, 0.5, 1.0]))
    cond = float(10.0 ** rng.choice([0.5, 1, 2, 4, 6]))
    pm = sp.rand_mask(rng, n, n, dens)
    pm = np.tril(pm, -1)
    pm = pm | pm.T
    H = sp.spd_with_pattern(rng, pm, cond)
    c2 = float(np.linalg.cond(H))
    plow = np.tril(pm) | np.eye(n, dtype=bool)
    b = _vec(rng, n, zeros=float(rng.choice([0.0, 0.5])))
    want = np.linalg.solve(H, b)
    tres = tolp(n, _maxabs(H))
    tsol = tolp(n, _maxabs(want), kappa=c2)
    det = dict(n=n, density=dens, cond=c2)
    # (a) in-place factorisation with fill-in
    F = x.csr(_lower_csr_with_room(H, plow, True))
    rank = x.cholFactorSparse(F[0], n, float(E.mjMINVAL), F[1], F[2], F[3], x.d)
    k.eq("cholFactorSparse:rank-below-n-on-SPD-input", rank, n, **det)
    Ld = _check_csr(k, "cholFactorSparse", F, n, n, np.zeros((n, n)), float("inf"), **det)
    if Ld is not None and rank == n:
        k.true("cholFactorSparse:factor-not-lower-triangular", _maxabs(np.triu(Ld, 1)) == 0, **det)
        k.near("cholFactorSparse:L'*L-differs-from-input", Ld.T @ Ld, H, tres, **det)
        k.out(Ld, tres * c2)
        xs = x.zf(n)
        x.cholSolveSparse(xs, F[0], x.f(b), n, F[1], F[2], F[3])
        k.near("cholSolveSparse:differs-from-dense-solve", xs.a, want, tsol, **det)
        k.out(xs.a, tsol)
    # (b) symbolic + numeric (H given as full symmetric CSR, compressed or not)
    layout = _LAYOUTS[int(rng.integers(0, 3))]
    pfull = pm | np.eye(n, dtype=bool)
    Hs = x.csr(sp.to_csr(H, pfull, rng, layout))
    use_d = x.d if rng.random() < 0.7 else None
    Lnz, Ladr, LTnz, LTadr = x.zi(n), x.zi(n), x.zi(n), x.zi(n)
    nnz = x.cholFactorSymbolic(None, Lnz, Ladr, None, LTnz, LTadr, None, Hs[1], Hs[2], Hs[3], n, use_d)
    oks = k.true("cholFactorSymbolic:count-inconsistent", nnz == int(Lnz.a.sum()) == int(LTnz.a.sum()) and sp.is_compressed(Lnz.a, Ladr.a)
                 and sp.is_compressed(LTnz.a, LTadr.a), nnz=nnz, **det)
    if Ld is not None and rank == n:
        # the fill pattern of the reverse Cholesky factor is determined by H's pattern alone
        k.eq("cholFactorSymbolic:row-counts-differ-from-in-place-factor-fill", Lnz.a, F[1].a, **det)
    if oks:
        Lci, LTci, LTmap = x.zi(nnz, fill=sp.POISON_IND), x.zi(nnz, fill=sp.POISON_IND), x.zi(nnz, fill=sp.POISON_IND)
        x.cholFactorSymbolic(Lci, Lnz, Ladr, LTci, LTnz, LTadr, LTmap, Hs[1], Hs[2], Hs[3], n, use_d)
        Lpat = np.zeros((n, n), dtype=bool)
        okp = True
        for r in range(n):
            c = Lci.a[Ladr.a[r]:Ladr.a[r] + Lnz.a[r]]
            if len(c) == 0 or c[-1] != r or c.min() < 0 or np.any(np.diff(c) <= 0):
                okp = False
                break
            Lpat[r, c] = True
        okp = k.true("cholFactorSymbolic:L-rows-not-sorted-with-diagonal-last", okp, **det)
        if okp:
            k.true("cholFactorSymbolic:pattern-misses-entries-of-H", bool(np.all(Lpat[plow])), **det)
            # LT is the transpose pattern and LT_map addresses the matching entry of L
            okt = True
            for r in range(n):
                for j in range(LTnz.a[r]):
                    a = LTadr.a[r] + j
                    cidx, m = int(LTci.a[a]), int(LTmap.a[a])
                    if not (0 <= cidx < n and 0 <= m < nnz and Lci.a[m] == r and Ladr.a[cidx] <= m < Ladr.a[cidx] + Lnz.a[cidx]):
                        okt = False
            k.true("cholFactorSymbolic:LT/LT_map-inconsistent-with-L", okt and np.array_equal(LTnz.a, Lpat.sum(axis=0)), **det)
            Lv = x.zf(nnz)
            rk = x.cholFactorNumeric(Lv, n, float(E.mjMINVAL), Lnz, Ladr, Lci, LTnz, LTadr, LTci, LTmap, Hs[0], Hs[1], Hs[2], Hs[3], x.d)
            k.eq("cholFactorNumeric:rank-below-n-on-SPD-input", rk, n, **det)
            L2, bad = sp.from_csr(Lv.a, Lnz.a, Ladr.a, Lci.a, n, n)
            if k.true("cholFactorNumeric:malformed-output", not bad, **det):
                k.near("cholFactorNumeric:L'*L-differs-from-input", L2.T @ L2, H, tres, layout=layout, **det)
                k.out(L2, tres * c2)
                xs = x.zf(n)
                x.cholSolveSparse(xs, Lv, x.f(b), n, Lnz, Ladr, Lci)
                k.near("cholSolveSparse:differs-from-dense-solve", xs.a, want, tsol, variant="numeric", **det)
    # (c) rank-one update / downdate on a factor with full lower pattern (no change of sparsity allowed)
    ind, val = _svec(rng, n)
    u = np.zeros(n)
    u[ind] = val * math.sqrt(_maxabs(H)) * float(rng.choice([0.1, 1.0]))
    plus = int(rng.random() < 0.5)
    base = H if plus else H + np.outer(u, u)
    target = H + np.outer(u, u) if plus else H
    # reverse factor: base = L'L  <=>  L = flip(chol(flip(base)))'
    Lr = np.linalg.cholesky(base[::-1, ::-1])[::-1, ::-1].T
    full = np.tril(np.ones((n, n), dtype=bool))
    U = x.csr(sp.to_csr(Lr, full, rng, _LAYOUTS[int(rng.integers(0, 3))]))
    r2 = x.cholUpdateSparse(U[0], x.f(u[ind]), n, plus, U[1], U[2], U[3], len(ind), x.i(ind), x.d)
    L3, bad = sp.from_csr(U[0].a, U[1].a, U[2].a, U[3].a, n, n)
    kap = 1.0 if plus else c2 * (1 + float(u @ u) / _maxabs(H))
    tu = tolp(n, _maxabs(target) + float(u @ u), kappa=kap)
    k.near("cholUpdateSparse:%s-differs-from-refactorisation" % ("update" if plus else "downdate"), L3.T @ L3, target, tu,
           x_nnz=len(ind), **det)
    if plus or kap * EPS * n < 1e-6:
        k.eq("cholUpdateSparse:rank-below-n", r2, n, plus=plus, **det)
    k.out(L3, tu * c2)
    k.P.case("spchol|%s|d=%g|c=%d" % (_skey(n), dens, int(round(math.log10(cond)))), nontrivial=n > 1,
             sample={"family": "spchol", "n": n, "density": dens, "cond": c2})


def fam_splu(x, rng, k):
    """sparse reverse-order LU on kinematic-tree patterns (ancestors + self + descendants), as used for qLU"""
    n = _size(rng, 1, 40)
    parent = np.array([-1] + [int(rng.integers(max(-1, i - 4), i)) for i in range(1, n)])
    pat = np.eye(n, dtype=bool)
    for i in range(n):
        j = parent[i]
        while j >= 0:
            pat[i, j] = pat[j, i] = True
            j = parent[j]
    A = rng.normal(size=(n, n)) * pat
    A += np.diag(np.sign(np.diag(A) + 1e-300) * (np.abs(A).sum(axis=1) + 0.5))     # diagonally dominant: no pivoting needed
    layout = _LAYOUTS[int(rng.integers(0, 3))]
    t = sp.to_csr(A, pat, rng, layout)
    S = x.csr(t)
    diag = np.array([int(np.searchsorted(np.flatnonzero(pat[r]), r)) for r in range(n)], dtype=np.int32)
    use_index = rng.random() < 0.5
    idx = x.i(np.arange(n)) if use_index else None
    scratch = x.zi(n)
    det = dict(n=n, layout=layout, index=use_index, parent=parent[:20])
    try:
        x.ncalls += 1
        x.L.call("mju_factorLUSparse", S[0].p, n, scratch.p, S[1].p, S[2].p, S[3].p, idx.p if idx else None, ret=None)
    except drv.MjError as e:
        k.true("factorLUSparse:error-on-tree-topology-input", False, error=str(e)[:200], **det)
        x.data.reset()
        return
    LUd, bad = sp.from_csr(S[0].a, S[1].a, S[2].a, S[3].a, n, n)
    Lm, Um = np.tril(LUd), np.triu(LUd, 1) + np.eye(n)
    k.near("factorLUSparse:(U+I)*L-differs-from-input", Um @ Lm, A, tolp(n, _maxabs(A)), **det)
    b = _vec(rng, n)
    xs = x.zf(n)
    x.solveLUSparse(xs, S[0], x.f(b), n, S[1], S[2], x.i(diag), S[3], idx)
    want = np.linalg.solve(A, b)
    ts = tolp(n, _maxabs(want), kappa=float(np.linalg.cond(A)))
    k.near("solveLUSparse:differs-from-dense-solve", xs.a, want, ts, **det)
    k.out(xs.a, ts)
    k.P.case("splu|%s|%s|idx=%d" % (_skey(n), layout, use_index), nontrivial=n > 1, sample={"family": "splu", "n": n})


FAMILIES = [("blas", fam_blas, 3), ("blasmat", fam_blasmat, 3), ("chol", fam_chol, 3), ("lu", fam_lu, 2), ("band", fam_band, 3),
            ("eig3", fam_eig3, 2), ("qcqp", fam_qcqp, 2), ("boxqp", fam_boxqp, 3), ("spconv", fam_spconv, 3), ("spmul", fam_spmul, 3),
            ("spadd", fam_spadd, 3), ("spsqr", fam_spsqr, 2), ("spchol", fam_spchol, 3), ("splu", fam_splu, 2)]
_FAM = {n: f for n, f, w in FAMILIES}
ASAN_FAMILIES = ["spconv", "spmul", "spadd", "spsqr", "spchol", "splu", "band", "blas", "boxqp"]


# ------------------------------------------------------------------------------------------ driver

def _names(c):
    if c.get("fams"):
        return list(c["fams"])
    return [n for n, f, w in FAMILIES for _ in range(w)]


def worker(c):
    """c = {seed, start, n, flavour, [fams], [only]} -> Part result + per-group output digests"""
    P = core.Part()
    x = X(c["flavour"])
    names = _names(c)
    digs = []
    for i in range(c["start"], c["start"] + c["n"]):
        rng = np.random.default_rng([c["seed"], i])
        j = int(rng.integers(0, len(names)))                  # always drawn: keeps the stream identical for replays
        fam = c.get("only") or names[j]
        k = K(P, {"seed": c["seed"], "start": i, "n": 1, "only": fam, "flavour": c["flavour"], "fams": c.get("fams")})
        before = x.ncalls
        _FAM[fam](x, rng, k)
        x.release()
        P.count("engine_calls", x.ncalls - before)
        P.count("groups:" + fam)
        P.count("groups@" + c["flavour"])
        digs.append([fam, k.crc, k.dig, k.digtol])
    r = P.result()
    r["dig"] = digs
    return r


def _merge(ctx, c, r, what):
    if r is None:
        ctx.inconclusive("worker returned nothing (%s)" % what)
        return False
    if "crash" in r:
        ctx.count("worker_crash")
        err = r["crash"]
        kind = "sanitizer-report" if ("AddressSanitizer" in err or "runtime error" in err) else "crash"
        m = [l for l in err.splitlines() if "SUMMARY" in l or "runtime error" in l]
        ctx.violation("%s-in-linear-algebra-routine:%s" % (kind, c["flavour"]), {"case": c, "summary": m[:3], "stderr": err[-2500:], "rc": r.get("rc")})
        return False
    if "exception" in r:
        ctx.count("harness_exception")
        ctx.inconclusive("harness exception in worker (%s): %s %s" % (what, r["exception"], r.get("trace", "")[-700:]))
        return False
    ctx.merge(r)
    return True


def _cross(ctx, crel, rrel, rsc):
    """AVX build vs plain build, group by group."""
    for gi, (a, b) in enumerate(zip(rrel["dig"], rsc["dig"])):
        fam = a[0]
        case = {"seed": crel["seed"], "start": crel["start"] + gi, "n": 1, "only": fam, "fams": crel.get("fams"), "flavour": "both"}
        ctx.count("cross_groups_compared")
        if a[1] == b[1]:
            ctx.count("cross_groups_bit_identical")
        if a[0] != b[0] or len(a[2]) != len(b[2]):
            ctx.violation("cross-flavour:output-structure-differs:" + fam, {"case": case, "len_rel": len(a[2]), "len_scalar": len(b[2])})
            continue
        for j, (u, v, tu, tv) in enumerate(zip(a[2], b[2], a[3], b[3])):
            if not abs(u - v) <= max(tu, tv):
                ctx.violation("cross-flavour:avx-and-scalar-results-differ:" + fam,
                              {"case": case, "output_index": j, "rel": u, "scalar": v, "tolerance": max(tu, tv)})
                break


def run(ctx):
    for fl in ("rel", "scalar", "asan"):
        build.ensure(fl)
    sp.selftest()
    per = ctx.pick(750, 12500)          # few, large cases: process start-up (imports, build hash pass) dominates otherwise
    ngroups = ctx.pick(6000, 200000)
    seed = int(ctx.rng.integers(0, 2 ** 31))
    base = [{"seed": seed, "start": s, "n": min(per, ngroups - s)} for s in range(0, ngroups, per)]
    cs = [dict(b, flavour="rel") for b in base] + [dict(b, flavour="scalar") for b in base]
    res = par.run("vf.props.c23", "worker", cs, nproc=16, timeout=ctx.pick(300, 1200))
    nb = len(base)
    for i in range(nb):
        ok1 = _merge(ctx, cs[i], res[i], "rel")
        ok2 = _merge(ctx, cs[nb + i], res[nb + i], "scalar")
        if ok1 and ok2:
            _cross(ctx, cs[i], res[i], res[nb + i])
    # index handling under ASan+UBSan with exact-size operands
    aper = ctx.pick(160, 600)
    agroups = ctx.pick(640, 9600)
    aseed = int(ctx.rng.integers(0, 2 ** 31))
    acs = [{"seed": aseed, "start": s, "n": min(aper, agroups - s), "flavour": "asan", "fams": ASAN_FAMILIES} for s in range(0, agroups, aper)]
    ares = par.run("vf.props.c23", "worker", acs, nproc=16, timeout=ctx.pick(600, 1800), asan=True)
    for c, r in zip(acs, ares):
        _merge(ctx, c, r, "asan")
    ctx.extra["flavours"] = {fl: ctx.counters.get("groups@" + fl, 0) for fl in ("rel", "scalar", "asan")}
    nsk = ctx.counters.get("skipped_boxqp_iteration_limit", 0) + ctx.counters.get("boxqp_returned_failure", 0)
    if nsk > 0.2 * max(1, ctx.counters.get("groups:boxqp", 0)):
        ctx.inconclusive("too many boxQP runs without a converged answer: %d" % nsk)
    if not ctx.counters.get("groups@asan"):
        ctx.inconclusive("no ASan groups executed")
    ctx.min_nontrivial = ctx.pick(1500, 4000)


def replay(ctx, path):
    rec = json.load(open(path))
    c = rec["detail"]["case"]
    c = {kk: v for kk, v in c.items() if v is not None}
    if c.get("flavour") == "both":
        cs = [dict(c, flavour="rel"), dict(c, flavour="scalar")]
        res = par.run("vf.props.c23", "worker", cs, nproc=2, timeout=300)
        if _merge(ctx, cs[0], res[0], "rel") and _merge(ctx, cs[1], res[1], "scalar"):
            _cross(ctx, cs[0], res[0], res[1])
    else:
        res = par.run("vf.props.c23", "worker", [c], nproc=1, timeout=600, asan=(c.get("flavour") == "asan"))
        _merge(ctx, c, res[0], c.get("flavour", "rel"))
    ctx.case("replay", sample=c)
    ctx.min_nontrivial = 1
