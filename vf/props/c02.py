"""C02 Multithreaded stepping is bit-identical to single-threaded."""
import ctypes as C
import json
import os
import re
import shutil
from pathlib import Path

import numpy as np

from .. import build, common, core, drv, nat, par
from ..gen import corpus, piles
from ..mjconst import E

LEVEL = "exploration"
RULE = ("(1) bitwise comparison (rel flavour, through ctypes): for a model and option vector, one mjData per engine "
        "thread-pool size (0 and a random subset of 1,2,3,5,8) is given the same state and driven through the same call "
        "sequence (forward, inverse, steps with random controls); every deterministic output incl. contacts, efc arrays, "
        "islands, sensordata and solver statistics is compared bit for bit with the pool-0 run, while the repo's task "
        "hook injects seeded yields/spins/sleeps before each task. (2) the same scenes run in a native harness under "
        "ThreadSanitizer and ASan with pools of 1-8 workers; any report is a violation, and state digests are compared "
        "across pool sizes. Scenes: heaps of free bodies in 6-16 separate clusters (many islands), dense clouds "
        "(hundreds of narrow-phase pairs => several collision chunks), multi-island corpus models. distinct = (scene, "
        "options, pool size, delay seed); non-trivial = tasks actually ran on worker threads")
ASSUMPTIONS = ["tactile-sensor parallel site is not reached (needs mesh/SDF assets that do not load in this build)",
               "TSan observes the interleavings that occur on x86-64; weak-memory reorderings are out of reach",
               "maxuse_*, timers and warning counters are diagnostics, not outputs"]


def _scene(c):
    rng = np.random.default_rng(c["mseed"])
    if c["scene"] == "piles":
        return piles.pile_xml(rng, nclusters=c["nclusters"], per=c["per"], condim="mix" if c.get("mixdim") else None)
    if c["scene"] == "cloud":
        return piles.cloud_xml(rng, n=c["n"])
    return None


def worker(c):
    P = core.Part()
    L = drv.Lib("rel")
    lib = L.lib
    try:
        if c["scene"] == "corpus":
            m = L.load_xml(str(build.REPO / c["path"]))
            name = c["path"]
        else:
            m = L.load_xml_string(_scene(c))
            name = "%s:%d" % (c["scene"], c["mseed"])
    except drv.MjError as e:
        P.count("model_rejected")
        return P.result()
    rng = np.random.default_rng(c["seed"])
    opts = {"solver": str(rng.choice(common.SOLVERS)), "cone": str(rng.choice(common.CONES)), "jacobian": str(rng.choice(common.JACOBIANS))}
    if rng.random() < 0.3:
        opts["noslip"] = int(rng.integers(1, 4))
    common.apply_options(m, opts)
    pools = [0] + sorted(set(int(x) for x in rng.choice([1, 2, 3, 5, 8], size=c["npools"], replace=False)))
    seq = [("forward",), ("inverse",)] + [("step", int(rng.integers(1, 6))) for _ in range(c["nseg"])] + [("forward",), ("inverse",)]
    ctrl_seeds = [int(rng.integers(0, 2 ** 31)) for _ in seq]
    st = (C.c_longlong * 4)()
    ref = None
    for p in pools:
        lib.vf_taskhook_install(c["delay"], c["seed"] * 7 + p)
        lib.vf_taskhook_stats(st)
        w0, t0 = st[2], st[0]
        d = m.make_data()
        if p:
            L.call("mju_threadpool", d, p, ret=None)
        common.random_state(np.random.default_rng(c["seed"] + 1), m, d, vel_scale=0.3) if c["scene"] == "corpus" and c.get("randstate") else None
        outs = []
        try:
            for op, cs in zip(seq, ctrl_seeds):
                if m.n("nu"):
                    d["ctrl"][:] = np.random.default_rng(cs).uniform(-1, 1, size=m.n("nu"))
                if op[0] == "forward":
                    d.forward()
                elif op[0] == "inverse":
                    d.inverse()
                else:
                    d.step(op[1])
                outs.append((op, common.outputs(d, include=("qfrc_inverse",) if op[0] == "inverse" else ())))
                if d.s("nisland") > 1:
                    P.count("calls_with_multiple_islands")
                if d.s("ncon") > 16:
                    P.count("calls_with_many_contacts")
        except drv.MjError as e:
            P.count("engine_error_skipped")
            if p:
                L.call("mju_threadpool", d, 0, ret=None)
            d.free()
            ref = None if p == 0 else ref
            if p == 0:
                break
            continue
        lib.vf_taskhook_stats(st)
        on_workers = st[2] - w0
        if p == 0:
            ref = outs
        else:
            key = "%s|%s|pool%d|delay%d" % (name, json.dumps(opts, sort_keys=True), p, c["delay"])
            P.case(key, nontrivial=on_workers > 0, sample={"scene": name, "options": opts, "pool": p, "calls": [list(o) for o in seq],
                                                          "tasks": int(st[0] - t0), "tasks_on_workers": int(on_workers), "thread_mask": int(st[3])})
            P.count("tasks_total", int(st[0] - t0))
            P.count("tasks_on_workers", int(on_workers))
            for (op, o_ref), (_, o) in zip(ref, outs):
                # efc_b is written by mj_fwdConstraint only: after an inverse call it is engine-undefined arena memory (see C01), not an output
                fd = common.first_diff(o_ref, o, skip=("arena.efc_b",) if op and op[0] == "inverse" else ())
                if fd is not None:
                    P.violation("pool-differs-from-single-thread:%s" % fd["field"].split("[")[0].split(".")[0],
                                {"scene": name, "case": c, "options": opts, "pool": p, "after_op": list(op), "diff": fd})
                    break
        if p:
            L.call("mju_threadpool", d, 0, ret=None)
        d.free()
    lib.vf_taskhook_uninstall()
    m.free()
    return P.result()


def _summary(out, tag="SUMMARY"):
    m = re.search(tag + r" (.*)", out)
    return dict(kv.split("=") for kv in m.group(1).split()) if m else None


PGS_RACE = "data-race:dense-PGS-island-task-reads-global-efc_force-in-residual"


def _tsan_accesses(text):
    """[(is_write, thread, [function names of the stack], address)] for the racing accesses of a ThreadSanitizer data-race report"""
    acc = []
    for block in re.split(r"\n\s*\n", text):
        lines = block.strip().splitlines()
        hm = None
        for k, ln in enumerate(lines):
            hm = re.match(r"\s*(?:Previous )?(?:atomic )?(read|write) of size \d+ at (0x[0-9a-f]+) by (.+?):", ln, re.I)
            if hm:
                lines = lines[k + 1:]
                break
        if not hm:
            continue
        fns = []
        for ln in lines:
            fm = re.match(r"\s*#\d+ (?:0x[0-9a-f]+ in )?(\S+)", ln)
            if fm:
                fns.append(re.sub(r"\(.*", "", fm.group(1)))
        acc.append((hm.group(1).lower() == "write", hm.group(3), fns, int(hm.group(2), 16)))
    return acc


def classify_tsan(kind, text, cfg):
    """mechanism key for the one known race, or None (=> the report keeps its generic raw-frame signature).

    Known mechanism (audit B1): with the PGS solver, islands and a thread pool, mj_fwdConstraint dispatches one solveIslandTask per
    island; with a DENSE Jacobian residual() computes mju_dot(efc_AR row, d->efc_force, d->nefc) over the whole (global) efc_force
    while the other islands' tasks write their own entries of it. The key is used only if ALL of the following are confirmed:
    (a) the engine's solver is PGS, (b) the dense path is active (mj_isSparse(m) == 0 as printed by the harness before stepping),
    (c) islands are enabled and a pool with >= 1 worker is attached, and both racing accesses are inside solveIslandTask ->
    mj_solPGS_island running on different threads, (d) one access is a READ whose stack is mju_dot <- residual <- solPGS and the
    other is a WRITE issued from solPGS (directly or via a helper it calls, e.g. mju_copy in solveQCQP), (e) both racing addresses lie
    inside the mjData arena (the block that holds efc_force; range printed by the harness). The raw-frame signature of this one
    mechanism varies with the schedule and the symboliser (which access is reported first; the write frame '#0 solPGS' sometimes has
    no line number, so the first in-repo frame is mj_solPGS_island; the write may go through an out-of-line mju_copy; a third frame
    is the allocation stack mju_alignedMalloc of the arena): all of these are covered because the test looks at the full stacks and
    access types, not at the raw-frame key."""
    head = (text.splitlines() or [""])[0]
    if "ThreadSanitizer: data race" not in head or not cfg:
        return None
    if not (cfg.get("solver_pgs") == "1" and cfg.get("sparse") == "0" and cfg.get("islands_enabled") == "1" and int(cfg.get("nthread", 0)) >= 1):
        return None
    acc = _tsan_accesses(text)
    if len(acc) != 2 or acc[0][1] == acc[1][1]:
        return None
    reads = [a for a in acc if not a[0]]
    writes = [a for a in acc if a[0]]
    if len(reads) != 1 or len(writes) != 1:
        return None
    # (e) the racing location lies inside the mjData arena, the block that holds efc_force (address range printed by the harness)
    try:
        lo, hi = int(cfg["arena_lo"]), int(cfg["arena_hi"])
    except (KeyError, ValueError):
        return None
    if not all(lo <= a[3] < hi for a in acc):
        return None

    def island_task(fns):
        # ... solPGS <- mj_solPGS_island <- solveIslandTask (solPGS may be inlined into mj_solPGS_island by the optimiser)
        if "solveIslandTask" not in fns or "mj_solPGS_island" not in fns:
            return False
        return fns.index("mj_solPGS_island") < fns.index("solveIslandTask")

    rf, wf = reads[0][2], writes[0][2]
    if not (island_task(rf) and island_task(wf)):
        return None
    # read side: mju_dot called from residual, below the island PGS solver
    if not (len(rf) >= 2 and rf[0] == "mju_dot" and rf[1] == "residual" and rf.index("residual") < rf.index("mj_solPGS_island")):
        return None
    # write side: issued by the PGS sweep itself (solPGS / its QCQP helper), never from residual / mju_dot
    k = wf.index("mj_solPGS_island")
    if "residual" in wf or "mju_dot" in wf or not all(f in ("solPGS", "solveQCQP", "mju_copy", "mju_zero", "memcpy", "__tsan_memcpy", "memset", "__tsan_memset", "mju_scl", "mju_addTo", "mju_addToScl", "mju_subFrom") for f in wf[:k]):
        return None
    return PGS_RACE


def run(ctx):
    rng = ctx.rng
    cs = []
    for i in range(ctx.pick(60, 600)):
        k = i % 3
        base = {"seed": int(rng.integers(0, 2 ** 31)), "mseed": int(rng.integers(0, 2 ** 31)), "npools": ctx.pick(2, 4), "nseg": ctx.pick(4, 8),
                "delay": i % 3}
        if k == 0:
            cs.append(dict(base, scene="piles", nclusters=int(rng.integers(6, 17)), per=int(rng.integers(3, 7)), mixdim=bool(i % 2)))
        elif k == 1:
            cs.append(dict(base, scene="cloud", n=int(rng.integers(60, 160))))
        else:
            cs.append(dict(base, scene="piles", nclusters=int(rng.integers(2, 5)), per=int(rng.integers(10, 25)), mixdim=True))
    corp = [c for c in corpus.loadable() if (c["ncon"] >= 8 or c["ntree"] >= 4) and c["nv"] < 3000]
    for i, c in enumerate(corp[: ctx.pick(40, len(corp))]):
        cs.append({"scene": "corpus", "path": c["path"], "seed": int(rng.integers(0, 2 ** 31)), "npools": 2, "nseg": ctx.pick(3, 6), "delay": i % 3})
    res = par.run("vf.props.c02", "worker", cs, nproc=8, timeout=ctx.pick(600, 1800))
    for c, r in zip(cs, res):
        if r is None:
            ctx.inconclusive("worker returned nothing")
        elif "crash" in r:
            ctx.violation("crash-with-thread-pool", {"case": c, "stderr": r["crash"][-2000:], "rc": r.get("rc")})
        elif "exception" in r:
            ctx.inconclusive("harness exception: " + r["exception"] + r.get("trace", "")[-400:])
        else:
            ctx.merge(r)
    # sanitizer part: native harness on scene files
    tmp = Path(core.OUT) / ("c02-%d" % os.getpid())
    tmp.mkdir(parents=True, exist_ok=True)
    try:
        exes = {f: build.exe(f, "h_step", ["h_step.c"]) for f in ("tsan", "asan", "rel")}
        scenes = []
        for i in range(ctx.pick(6, 40)):
            c = {"scene": ["piles", "cloud"][i % 2], "mseed": int(rng.integers(0, 2 ** 31)), "nclusters": int(rng.integers(6, 12)), "per": int(rng.integers(3, 6)),
                 "n": int(rng.integers(50, 110)), "mixdim": True}
            p = tmp / ("scene%d.xml" % i)
            p.write_text(_scene(c))
            scenes.append((str(p), c))
        for c in [c for c in corp if c["nv"] < 400][: ctx.pick(4, 30)]:
            scenes.append((str(build.REPO / c["path"]), {"scene": "corpus", "path": c["path"]}))
        jobs = []
        for si, (path, c) in enumerate(scenes):
            for sol in (0, 1, 2):
                cone, jac, noslip = int(rng.integers(0, 2)), int(rng.integers(0, 3)), int(rng.integers(0, 2)) * 2
                seed = int(rng.integers(1, 2 ** 31))
                for fl, nt in (("tsan", int(rng.integers(1, 9))), ("asan", int(rng.integers(1, 9))), ("rel", 0), ("rel", int(rng.integers(1, 9)))):
                    if fl == "asan" and sol != si % 3:
                        continue
                    jobs.append((si, sol, fl, [path, nt, ctx.pick(12, 40), (si + sol) % 3, seed, sol, cone, jac, noslip], c))

        def go(j):
            return j, nat.run_exe(exes[j[2]], j[3], j[2], timeout=ctx.pick(600, 1800), leaks=False, symbolize=(j[2] != "asan"))

        digests = {}
        for (si, sol, fl, args, c), res in nat.pmap(go, jobs, nthreads=10):
            detail = {"scene": c, "flavour": fl, "args": [str(a) for a in args[1:]]}
            if res["timed_out"]:
                ctx.inconclusive("watchdog fired: %s" % detail)
                continue
            cfg = _summary(res["out"], "CONFIG")
            for k, sig, text in res["reports"]:
                known = classify_tsan(k, text, cfg) if fl == "tsan" else None
                if known:
                    ctx.count("tsan_reports_classified:dense-PGS-island-residual")
                elif "Thread" in k:
                    ctx.count("tsan_reports_generic_signature")
                ctx.violation(known or (("data-race:" if "Thread" in k else "sanitizer:") + sig),
                              dict(detail, config=cfg, report=text, xml=open(args[0]).read()[:20000]))
            s = _summary(res["out"])
            if s is None:
                if "LOADFAIL" in res["out"] or "VF-UNSCOPED-ERROR" in res["err"]:
                    ctx.count("native_scene_skipped")
                elif not res["reports"]:
                    ctx.violation("crash-with-thread-pool:native", dict(detail, rc=res["rc"], stderr=res["err"][-1500:]))
                continue
            ctx.case("native|%s|%s|%s" % (json.dumps(c, sort_keys=True), fl, ",".join(str(a) for a in args[1:])),
                     nontrivial=int(s["tasks_on_workers"]) > 0, sample=dict(detail, summary=s))
            ctx.count("native_runs_" + fl)
            ctx.count("native_tasks_on_workers_" + fl, int(s["tasks_on_workers"]))
            digests.setdefault((si, sol), {})[(fl, args[1])] = s["digest"]
        for key, dd in digests.items():
            # rel pool-0 vs rel pool-n digests (same flavour => same floating point)
            rel = {k: v for k, v in dd.items() if k[0] == "rel"}
            if len(set(rel.values())) > 1:
                ctx.violation("pool-differs-from-single-thread:digest", {"scene": scenes[key[0]][1], "solver": key[1], "digests": {str(k): v for k, v in rel.items()}})
    finally:
        shutil.rmtree(tmp, ignore_errors=True)
    ctx.min_nontrivial = ctx.pick(150, 1500)


def replay(ctx, path):
    rec = json.load(open(path))
    d = rec["detail"]
    if "case" in d:
        ctx.merge(worker(d["case"]))
    else:
        ctx.inconclusive("native replays: re-run the quick tier with the same VERIF_SEED (scene files are regenerated from the seed)")
    ctx.min_nontrivial = 1
