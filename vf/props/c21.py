"""C21 Allocation failure never causes undefined behaviour."""
import json
import os
import re
import shutil
from pathlib import Path

import numpy as np

from .. import build, core, nat
from ..gen import corpus, model

LEVEL = "fault_enumeration"
RULE = ("fault plan: for each (scenario, model) the number N of allocations made through mju_malloc is counted, then the "
        "k-th allocation is made to fail for k = 1..N (every k in thorough when N <= 400, a stride covering first/last and "
        "<= 40 values in quick), plus seeded multi-fault runs (each allocation fails with p = 5%..50%); scenarios: parse, "
        "loadxml, compile, makedata, copydata, copymodel, save+loadModelBuffer, copyspec, recompile, step/forward/inverse, "
        "makeScene, print, reset+keyframe. The harness runs under ASan+UBSan with an interposed allocator (shadow table: "
        "double/foreign free, leaked blocks with the function that allocated them); the error handler longjmps "
        "(documented: handlers do not return). distinct = (scenario, model, k) with an injected failure that was reached")
ASSUMPTIONS = ["only allocations routed through mju_malloc are faulted (the statement's scope); std::bad_alloc paths are out of scope",
               "a failure that is absorbed (call succeeds without the block) is counted, not flagged",
               "LeakSanitizer is off: blocks lost when the non-returning error handler unwinds are measured by the shadow table instead",
               "objects whose struct is owned by the caller (mjvScene) are released with their documented destructor (mjv_freeScene) "
               "also after a trapped error - mjv_makeScene stores every block in the struct before the next request, so only what "
               "survives the destructor is a leak; objects the engine returns by pointer (mjModel/mjData/mjSpec) cannot be released "
               "by the caller after a trapped error and whatever they held is counted",
               "leak signatures carry the allocating function and the outcome (trapped-error | error-return | ok); outcome `ok` "
               "(call succeeded, blocks left) is a different defect from the known raising-mju_malloc mechanism and is never "
               "matched by a known-finding entry"]

SCENARIOS = ["parse", "loadxml", "compile", "makedata", "copydata", "copymodel", "saveload", "copyspec", "recompile", "step",
             "scene", "print", "resetkey"]

CORPUS_PICKS = ["model/humanoid/humanoid.xml", "model/plugin/actuator/pid.xml", "model/plugin/elasticity/cable.xml",
                "model/tendon_arm/arm26.xml", "model/flex/trampoline.xml", "model/replicate/bunnies.xml",
                "test/engine/testdata/island/humanoid.xml", "model/mug/mug.xml", "model/car/car.xml",
                "test/user/testdata/mesh_stl.xml" if False else "model/cube/cube_3x3x3.xml"]


def _models(ctx, tmp):
    out = []
    ok = {c["path"] for c in corpus.loadable()}
    for p in CORPUS_PICKS:
        if p in ok:
            out.append((p, str(build.REPO / p)))
    rng = ctx.rng
    for i in range(ctx.pick(2, 12)):
        xml, tags = model.gen_profile(np.random.default_rng(int(rng.integers(0, 2 ** 31))), ["rich", "contact"][i % 2])
        # a keyframe-less generated model is fine; write it to a file so that loadxml works too
        f = tmp / ("gen%d.xml" % i)
        f.write_text(xml)
        out.append(("gen:%d" % i, str(f)))
    return (out[:3] + out[-1:]) if ctx.quick else out[:40]


def _parse(out):
    outcomes, leaks, fails = [], [], []
    for l in out.splitlines():
        if l.startswith("OUTCOME "):
            m = re.match(r"OUTCOME (\S+) k=(-?\d+) (\S+)", l)
            outcomes.append((m.group(1), int(m.group(2)), m.group(3)))
        elif l.startswith("LEAK "):
            m = re.match(r"LEAK (\S+) k=(-?\d+) blocks=(\d+) outcome=(\S+) allocated_in=(\S*)", l)
            leaks.append((m.group(1), int(m.group(2)), int(m.group(3)), m.group(4), m.group(5)))
        elif l.startswith("FAIL "):
            fails.append(l)
    return outcomes, leaks, fails


_SYM = {}


def _resolve(fn):
    """'@module+0xoff' (caller without a dynamic symbol) -> function name via llvm-symbolizer."""
    if not fn.startswith("@"):
        return fn
    if fn not in _SYM:
        import subprocess
        mod, off = fn[1:].rsplit("+", 1)
        name = "unresolved-caller"
        try:
            r = subprocess.run(["/usr/lib/llvm-14/bin/llvm-symbolizer", "-e", mod, off], stdout=subprocess.PIPE, timeout=30)
            first = r.stdout.decode(errors="replace").strip().splitlines()[0]
            if first and first != "??":
                name = re.sub(r"\(.*", "", first)
        except Exception:
            pass
        _SYM[fn] = name
    return _SYM[fn]


def run(ctx):
    tmp = Path(core.OUT) / ("c21-%d" % os.getpid())
    tmp.mkdir(parents=True, exist_ok=True)
    try:
        exe = build.exe("asan", "h_oom", ["h_oom.cc"], ldflags=["-ldl"])
        models = _models(ctx, tmp)
        pairs = [(s, name, path) for (name, path) in models for s in SCENARIOS]

        def count(p):
            s, name, path = p
            r = nat.run_exe(exe, [s, path, "count"], "asan", timeout=300, leaks=False)
            m = re.search(r"COUNT (-?\d+)", r["out"])
            return p, (int(m.group(1)) if m else None), r

        jobs = []
        for p, n, r in nat.pmap(count, pairs, nthreads=12):
            s, name, path = p
            if n is None or n < 0:
                ctx.count("scenario_setup_failed")
                continue
            ctx.count("allocations_counted", n)
            if n == 0:
                ctx.count("scenarios_without_allocation")
                continue
            if ctx.quick:
                ks = sorted(set([1, 2, 3, n - 1, n] + [int(x) for x in np.linspace(1, n, min(n, 6))]))
            else:
                ks = list(range(1, min(n, 400) + 1)) + ([int(x) for x in np.linspace(400, n, 60)] if n > 400 else [])
            ks = [k for k in sorted(set(ks)) if 1 <= k <= n]
            for a in range(0, len(ks), 60):
                jobs.append((s, name, path, ["list", ",".join(str(k) for k in ks[a:a + 60])], n))
            for pm in (((50,) if n > 3 else ()) if ctx.quick else (50, 200, 500)):
                jobs.append((s, name, path, ["multi", str(ctx.seed + 1), str(ctx.pick(4, 40)), str(pm)], n))

        def go(j):
            s, name, path, args, n = j
            return j, nat.run_exe(exe, [s, path] + args, "asan", timeout=ctx.pick(600, 1800), leaks=False)

        for (s, name, path, args, n), res in nat.pmap(go, jobs, nthreads=14):
            detail = {"scenario": s, "model": name, "args": args, "allocations": n}
            last_k = re.findall(r"^K (-?\d+)$", res["out"], flags=re.M)
            at = {"k": int(last_k[-1])} if last_k else {}
            if res["timed_out"]:
                ctx.count("watchdog_timeouts")
                ctx.inconclusive("wall-clock watchdog fired for %s (not a verdict: the statement has no termination clause)" % detail)
                continue
            if res["rc"] == 127:
                ctx.inconclusive("harness executable could not start: " + res["err"][-200:])
                continue
            for kind, sig, text in res["reports"]:
                ctx.violation("sanitizer-after-failed-allocation:%s:%s" % (s, sig), dict(detail, report=text, **at))
            outcomes, leaks, fails = _parse(res["out"])
            for f in fails:
                ctx.violation("contract-after-failed-allocation:%s:%s" % (s, re.sub(r"k=-?\d+", "k=N", f[5:])[:60]), dict(detail, witness=f))
            if "SUMMARY" not in res["out"] and not res["reports"]:
                ctx.violation("crash-after-failed-allocation:" + s, dict(detail, rc=res["rc"], stderr=res["err"][-1500:], **at))
            for (sc, k, oc) in outcomes:
                ctx.case("%s|%s|%d" % (s, name, k), nontrivial=True, sample={"scenario": s, "model": name, "k": k, "outcome": oc})
                ctx.count("outcome_" + oc)
            for (sc, k, nb, oc, where) in leaks:
                ctx.count("leaked_blocks", nb)
                for fn in (where.split(",") if where else ["?"]):
                    fn = _resolve(fn)
                    ctx.violation("leak-after-failed-allocation:block-allocated-in:%s:%s" % (fn, oc), dict(detail, k=k, blocks=nb, outcome=oc))
    finally:
        shutil.rmtree(tmp, ignore_errors=True)
    ctx.min_nontrivial = ctx.pick(120, 3000)


def replay(ctx, path):
    rec = json.load(open(path))
    d = rec["detail"]
    ctx.inconclusive("replay: run ./check C21 with the same VERIF_SEED; failing (scenario, model, k) = %s %s %s" % (d.get("scenario"), d.get("model"), d.get("k")))
