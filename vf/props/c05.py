"""C05 Time integration follows the documented schemes."""
import json
import xml.etree.ElementTree as ET

import numpy as np

from .. import build, core, drv, par
from ..gen import model
from ..mjconst import E
from ..ref import integrate as ri
from ..ref import rbd
from .c06 import make_tree

LEVEL = "exploration"
RULE = ("reference-model oracle: a generated smooth-dynamics model (random tree with hinge/slide/ball/free joints, linear and polynomial "
        "joint/tendon/actuator damping, springs, armature, joint limits and friction loss, actuators of every built-in activation type) "
        "x random state/control x integrator (Euler with and without implicit damping, implicit, implicitfast, RK4) x timestep "
        "(1e-4..2e-2). After mj_forward the state produced by mj_step on a twin mjData is compared with reference integrators "
        "(vf/ref/integrate.py, dense numpy) fed with the engine's post-forward M (mj_fullM), qfrc_smooth, qfrc_constraint, qacc, act_dot and "
        "force-velocity derivatives obtained by centred finite differences of the engine's forces at two step sizes. distinct = (model, "
        "state index, integrator); non-trivial = nv>0 and the update differs from the explicit one or the model has a quaternion / "
        "activation state")
ASSUMPTIONS = [
    "the force-velocity derivative D is the finite difference of the engine's own qfrc_passive / qfrc_actuator / qfrc_bias (Euler: of "
    "qfrc_damper with tendon-level damping switched off, since 'D only includes derivatives of joint damping'); cases where the "
    "updates from two FD step sizes disagree (non-smooth point) are skipped and counted",
    "D is restricted to the sparsity pattern of the engine's mass matrix as documented ('we restrict D to have the same sparsity pattern as "
    "M ... will exclude damping in tendons which connect bodies that are on different branches'); implicitfast drops the RNE term and "
    "symmetrises, except for standalone free bodies where the full unsymmetric 6x6 block is used (doc: geFreeBody)",
    "states in which a force saturation is active or adjacent (actuator forcerange, joint actuatorfrcrange, ctrl clamped by ctrlrange) are "
    "excluded from the implicit/implicitfast comparison and counted: mjd_actuator_vel documents that saturations are treated "
    "approximately ('Vmax clipping is ignored here, matching the treatment of the other saturations')",
    "RK4 stage derivatives are evaluated with the engine's mj_forward on a twin mjData (same warm start), the tableau, the stage states "
    "and the final combination are computed by the reference; for filterexact activations under RK4 the closed-form rule is applied to "
    "the B-weighted derivative (the documentation defines the rule per step: mj_nextActivation)",
    "integrator-type activations of wrap-eligible rotational servos (ball joint / refsite transmissions, a feature of this tree) may differ "
    "from the documented Euler rule by a whole number of periods; pid/dcmotor/so3 families are not generated (their rules belong to C27)",
    "tolerances: 1e-7 relative on the velocity increment for Euler and RK4, 1e-5 for the implicit family (design), plus 1e-13*cond of the "
    "factorised matrix; position update, time, activations and quaternion norms are compared at 1e-12; sleeping disabled, no flexes",
]

RTOL = {"euler": 1e-7, "rk4": 1e-7, "implicit": 1e-5, "implicitfast": 1e-5}
INTS = ["euler", "implicit", "implicitfast", "rk4"]
INT_ENUM = {"euler": "mjINT_EULER", "rk4": "mjINT_RK4", "implicit": "mjINT_IMPLICIT", "implicitfast": "mjINT_IMPLICITFAST"}
DYN_NAME = {0: "none", 1: "integrator", 2: "filter", 3: "filterexact", 4: "muscle"}


# ---- model generation ---------------------------------------------------------------------------------------------
def gen_case_xml(c):
    rng = np.random.default_rng(c["mseed"])
    over = dict(nbody=(1, 9), ntree=(1, 3), free=c.get("pfree", 0.4), ball=c.get("pball", 0.25), slide=0.2, tendons=2,
                tendon_armature=0.0, tendon_wrap=0.0, actuators=0.6, damping=c.get("pdamp", 0.6), armature=0.4, gravcomp=0.1,
                tendon_damping=0.4, actlimited=0.7, explicit_inertial=0.3)
    over.update(c.get("over", {}))
    xml, tags = model.gen_profile(rng, "smooth", **over)
    root = ET.fromstring(xml)
    # polynomial damping on joints / tendons, damping contributed by actuators (doc: gePolynomial, actuator-general-damping)
    for el in list(root.iter("joint")) + list(root.find("tendon") if root.find("tendon") is not None else []):
        if "damping" in el.attrib and " " not in el.attrib["damping"] and rng.random() < 0.4:
            a = float(el.attrib["damping"])
            el.set("damping", "%r %r %r" % (a, float(rng.uniform(0, 1.0) * a), float(rng.uniform(0, 0.5) * a)))
    act = root.find("actuator")
    if act is not None:
        for a in act:
            if ("joint" in a.attrib or "jointinparent" in a.attrib or "tendon" in a.attrib) and rng.random() < 0.3:
                b = float(np.exp(rng.uniform(np.log(0.01), np.log(2))))
                a.set("damping", "%r" % b if rng.random() < 0.5 else "%r %r %r" % (b, float(rng.uniform(0, b)), float(rng.uniform(0, b / 2))))
    return ET.tostring(root, encoding="unicode")


def case_name(c):
    return "gen:smooth:%d" % c["mseed"]


# ---- helpers ------------------------------------------------------------------------------------------------------
def ancestor_mask(T):
    nv = T.nv
    rel = np.zeros((nv, nv), dtype=bool)
    for i in range(nv):
        ch = [c for c in T.chain[T.dof_body[i]] if c <= i]
        rel[i, ch] = True
        rel[ch, i] = True
    return rel


def csr_mask(nv, nnz, adr, col, symmetric):
    mk = np.zeros((nv, nv), dtype=bool)
    for i in range(nv):
        cols = col[adr[i]:adr[i] + nnz[i]]
        mk[i, cols] = True
        if symmetric:
            mk[cols, i] = True
    return mk


def standalone_free_blocks(m, T):
    """dof start addresses of free joints whose body has no other joint and no child body (doc: geFreeBody)"""
    out = []
    nchild = np.bincount(T.parent[1:], minlength=T.nbody)
    for j in range(T.njnt):
        b = int(m["jnt_bodyid"][j])
        if T.jnt_type[j] == rbd.FREE and T.body_jntnum[b] == 1 and nchild[b] == 0:
            out.append(int(T.jnt_dofadr[j]))
    return out


def wrap_period(m, i):
    """period of the setpoint wrap for integrator-type rotational servos (feature of this tree), 0 if not eligible"""
    nu = len(m["actuator_gaintype"])
    gear = m["actuator_gear"].reshape(-1, 6)[m["actuator_outadr"][i]]
    gp, bp = m["actuator_gainprm"].reshape(nu, -1), m["actuator_biasprm"].reshape(nu, -1)
    servo = (m["actuator_gaintype"][i] == E.mjGAIN_FIXED and m["actuator_biastype"][i] == E.mjBIAS_AFFINE and gp[i, 0] == -bp[i, 1])
    if not servo:
        return 0.0
    trn = m["actuator_trntype"][i]
    tid = m["actuator_trnid"].reshape(-1, 2)[i]
    if trn == E.mjTRN_SITE and tid[1] >= 0 and not gear[:3].any():
        return 2 * np.pi * np.linalg.norm(gear[3:])
    if trn in (E.mjTRN_JOINT, E.mjTRN_JOINTINPARENT) and m["jnt_type"][tid[0]] == E.mjJNT_BALL:
        return 2 * np.pi * np.linalg.norm(gear[:3])
    return 0.0


class TendonDampingOff:
    """temporarily removes tendon-level damping (tendon damping and damping contributed by tendon actuators) from the model"""

    def __init__(self, m):
        self.m = m
        self.saved = {}

    def __enter__(self):
        m = self.m
        for k in ("tendon_damping", "tendon_dampingpoly"):
            if k in m and m[k].size:
                self.saved[k] = m[k].copy()
                m[k][...] = 0
        if m["actuator_trntype"].size:
            rows = np.nonzero(m["actuator_trntype"] == E.mjTRN_TENDON)[0]
            for k in ("actuator_damping", "actuator_dampingpoly"):
                if k in m and len(rows):
                    self.saved[k] = m[k].copy()
                    v = m[k].reshape(len(m["actuator_trntype"]), -1)
                    v[rows] = 0
        return self

    def __exit__(self, *a):
        for k, v in self.saved.items():
            self.m[k][...] = v


def set_state(m, d, st):
    d["qpos"][:] = st["qpos"]
    d["qvel"][:] = st["qvel"]
    if m.n("na"):
        d["act"][:] = st["act"]
    if m.n("nu"):
        d["ctrl"][:] = st["ctrl"]
    d["qfrc_applied"][:] = st["qfrc_applied"]
    d["xfrc_applied"][:] = np.asarray(st["xfrc_applied"]).reshape(d["xfrc_applied"].shape)
    d.set_s("time", st["time"])


def random_state(rng, m, T, denorm):
    nv, na, nu = m.n("nv"), m.n("na"), m.n("nu")
    st = {}
    vq = rng.normal(size=nv)
    jt, da, qa = m["jnt_type"], m["jnt_dofadr"], m["jnt_qposadr"]
    for j in range(m.n("njnt")):
        if jt[j] == E.mjJNT_SLIDE:
            vq[da[j]] *= 0.2
        elif jt[j] == E.mjJNT_FREE:
            vq[da[j]:da[j] + 3] *= 0.3
    q = T.integrate_pos(np.array(m["qpos0"]), vq, 1.0)
    lim, rg = m["jnt_limited"], m["jnt_range"].reshape(-1, 2)
    for j in range(m.n("njnt")):
        if jt[j] in (E.mjJNT_HINGE, E.mjJNT_SLIDE) and lim[j] and rng.random() < 0.8:
            w = rg[j, 1] - rg[j, 0]
            q[qa[j]] = rng.uniform(rg[j, 0] - 0.05 * w, rg[j, 1] + 0.05 * w)
        if denorm and jt[j] in (E.mjJNT_FREE, E.mjJNT_BALL):
            a = qa[j] + (3 if jt[j] == E.mjJNT_FREE else 0)
            q[a:a + 4] *= 1 + rng.uniform(-1e-3, 1e-3)
    st["qpos"] = q
    st["qvel"] = rng.normal(size=nv) * rng.choice([0.3, 1.5, 4.0])
    act = rng.uniform(-0.5, 0.5, size=na)
    ctrl = rng.normal(size=nu) * rng.choice([0.5, 2.0])
    if na:
        aadr, anum = m["actuator_actadr"], m["actuator_actnum"]
        alim, arng, dyn = m["actuator_actlimited"], m["actuator_actrange"].reshape(-1, 2), m["actuator_dyntype"]
        for i in range(len(aadr)):
            if aadr[i] < 0:
                continue
            k = aadr[i] + anum[i] - 1
            if dyn[i] == E.mjDYN_MUSCLE:
                act[k] = rng.uniform(0, 1)
            if alim[i]:
                r = rng.random()
                if r < 0.35:        # at / next to a bound, moving outwards for some of them
                    side = int(rng.integers(0, 2))
                    act[k] = arng[i, side] + rng.choice([0.0, 1e-4, -1e-4, 1e-2, -1e-2])
                elif r < 0.45:      # outside
                    act[k] = arng[i, int(rng.integers(0, 2))] + rng.normal() * 0.3
                else:
                    act[k] = rng.uniform(arng[i, 0], arng[i, 1])
    st["act"] = act
    st["ctrl"] = ctrl
    st["qfrc_applied"] = rng.normal(size=nv) * 0.3 * (rng.random(nv) < 0.3)
    xf = np.zeros((m.n("nbody"), 6))
    if m.n("nbody") > 1 and rng.random() < 0.4:
        xf[int(rng.integers(1, m.n("nbody")))] = rng.normal(size=6)
    st["xfrc_applied"] = xf
    st["time"] = float(rng.uniform(0, 50)) if rng.random() < 0.8 else 0.0
    return st


def saturation_kinds(m, d):
    """which documented force saturations are active in the post-forward state:
    'ctrl_velgain'  a control outside ctrlrange (clamped at run time) on a stateless actuator whose gain depends on velocity
    'jntfrc'        total actuator force on a joint at (or within 1e-6 of) its actuatorfrcrange bound"""
    out = set()
    nu = m.n("nu")
    if not nu:
        return out
    ctrl = np.array(d["ctrl"])
    cl, cr = m["actuator_ctrllimited"], m["actuator_ctrlrange"].reshape(-1, 2)
    gp = m["actuator_gainprm"].reshape(nu, -1)
    gt, dt = m["actuator_gaintype"], m["actuator_dyntype"]
    for i in range(nu):
        if cl[i] and not (cr[i, 0] <= ctrl[i] <= cr[i, 1]) and dt[i] == E.mjDYN_NONE and \
                (gt[i] == E.mjGAIN_MUSCLE or (gt[i] == E.mjGAIN_AFFINE and gp[i, 2] != 0)):
            out.add("ctrl_velgain")
    jl, jr = m["jnt_actfrclimited"], m["jnt_actfrcrange"].reshape(-1, 2)
    qa = np.array(d["qfrc_actuator"])
    da = m["jnt_dofadr"]
    for j in range(m.n("njnt")):
        if jl[j] and m["jnt_type"][j] in (E.mjJNT_HINGE, E.mjJNT_SLIDE):
            f = qa[da[j]]
            tol = 1e-6 * (1 + abs(f))
            if not (jr[j, 0] + tol < f < jr[j, 1] - tol):
                out.add("jntfrc")
    return out


def clip_ctrl(m, ctrl):
    c = np.array(ctrl, dtype=float)
    cl, cr = m["actuator_ctrllimited"], m["actuator_ctrlrange"].reshape(-1, 2)
    for i in range(len(c)):
        if cl[i]:
            c[i] = min(max(c[i], cr[i, 0]), cr[i, 1])
    return c


def fd_forces(L, m, d2, v0, eps, names):
    """centred FD of the listed mjData force vectors w.r.t. qvel on the twin data (position stage is up to date)"""
    def fun(v):
        d2["qvel"][:] = v
        L.call("mj_fwdVelocity", m, d2, ret=None)
        L.call("mj_fwdActuation", m, d2, ret=None)
        return tuple(np.array(d2[k]) for k in names)
    J = ri.fd_jacobian(fun, v0, eps)
    d2["qvel"][:] = v0
    L.call("mj_fwdVelocity", m, d2, ret=None)
    L.call("mj_fwdActuation", m, d2, ret=None)
    return J if isinstance(J, tuple) else (J,)


# ---- one (state, integrator) case ------------------------------------------------------------------------------------
def check_case(L, m, T, P, st, integ, h, flags, info, witness):
    nv, na, nq = m.n("nv"), m.n("na"), m.n("nq")

    def viol(sig, **kw):
        P.violation(sig, dict(witness, **{k: (v.tolist() if isinstance(v, np.ndarray) else v) for k, v in kw.items()}))

    m.opt["integrator"] = getattr(E, INT_ENUM[integ])
    m.opt["timestep"] = h
    dis0 = int(m.opt["disableflags"])
    dis = dis0
    if "noeulerdamp" in flags:
        dis |= int(E.mjDSBL_EULERDAMP)
    if "nodamper" in flags:
        dis |= int(E.mjDSBL_DAMPER)
    m.opt["disableflags"] = dis
    d = m.make_data()
    d2 = None
    try:
        set_state(m, d, st)
        d.forward()
        q0, v0 = np.array(d["qpos"]), np.array(d["qvel"])
        w0 = np.array(d["act"]) if na else np.zeros(0)
        t0 = d.s("time")
        qacc, wdot = np.array(d["qacc"]), (np.array(d["act_dot"]) if na else np.zeros(0))
        fsm, fcn = np.array(d["qfrc_smooth"]), np.array(d["qfrc_constraint"])
        M = np.zeros((nv, nv))
        L.call("mj_fullM", m, d, M, ret=None)
        alen = np.array(d["actuator_length"]).ravel() if m.n("nu") else np.zeros(0)
        if not (np.isfinite(qacc).all() and np.isfinite(M).all()):
            P.count("skipped_nonfinite_forward")
            return None
        # ---- the step under test, on a twin
        ds = d.copy()
        ds.step(1)
        q1, v1 = np.array(ds["qpos"]), np.array(ds["qvel"])
        w1 = np.array(ds["act"]) if na else np.zeros(0)
        t1 = ds.s("time")
        ds.free()
        if not (np.isfinite(q1).all() and np.isfinite(v1).all()):
            viol("step-produced-nonfinite-state:" + integ)
            return None
        nontrivial = False

        # ---- time (bitwise)
        if t1 != t0 + h:
            viol("time-not-advanced-by-exactly-one-timestep:" + integ, t0=t0, t1=t1, h=h)

        # ---- velocity update
        f = fsm + fcn
        dv_eng = v1 - v0
        wbar = wdot
        vel_for_pos = v1
        a_ref = None
        tol_extra = 0.0
        if integ == "euler":
            D = np.zeros((nv, nv))
            damped = False
            if "noeulerdamp" not in flags and "nodamper" not in flags:
                d2 = d.copy()
                with TendonDampingOff(m):
                    (Dd1,) = fd_forces(L, m, d2, v0, 1e-6, ["qfrc_damper"])
                    (Dd2,) = fd_forces(L, m, d2, v0, 1e-5, ["qfrc_damper"])
                D = -Dd1
                offd = np.abs(D - np.diag(np.diag(D))).max() if nv else 0.0
                if offd > 1e-6 * (np.abs(D).max() + 1e-300):
                    viol("joint-damper-force-depends-on-other-dofs", offdiag=float(offd))
                damped = bool(np.abs(D).max() > 0)
            if damped:
                Mh = M + h * D
                cond = np.linalg.cond(Mh)
                if cond > 1e10:
                    P.count("skipped_illconditioned_Mhat")
                    return None
                a_ref = np.linalg.solve(Mh, f)
                a_alt = np.linalg.solve(M - h * Dd2, f)
                tol_extra = 1e-13 * cond
                if np.abs(a_ref - a_alt).max() > 0.1 * RTOL[integ] * (np.abs(a_ref).max() + 1e-300):
                    P.count("skipped_nonsmooth_fd")
                    return None
                P.count("euler_implicit_damping_cases")
                if np.abs(a_ref - qacc).max() > 1e-6 * (np.abs(qacc).max() + 1e-300):
                    nontrivial = True
                    P.count("euler_implicit_damping_differs_from_explicit")
            else:
                a_ref = qacc
                P.count("euler_explicit_cases")
        elif integ in ("implicit", "implicitfast"):
            sat = saturation_kinds(m, d)
            if "ctrl_velgain" in sat:
                # doc (ctrllimited): the control is clamped to ctrlrange at run time, so clamping it beforehand must not change the step
                P.count("cases_ctrl_outside_ctrlrange_on_velocity_dependent_gain")
                dc = d.copy()
                dc["ctrl"][:] = clip_ctrl(m, dc["ctrl"])
                dc.step(1)
                v1c = np.array(dc["qvel"])
                dc.free()
                e = np.abs(v1c - v1).max()
                if e > 1e-9 * (np.abs(v1c - v0).max() + 1e-300) + 1e-14:
                    viol("implicit-derivative-uses-unclamped-ctrl-for-velocity-dependent-gain", integrator=integ, h=h,
                         dv_raw_ctrl=v1 - v0, dv_clamped_ctrl=v1c - v0, ctrl=np.array(d["ctrl"]))
                    dv_eng = v1c - v0      # continue with the step that is free of this mechanism
            if a_ref is None:
                d2 = d.copy()
                Js = [fd_forces(L, m, d2, v0, e, ["qfrc_passive", "qfrc_actuator", "qfrc_bias"]) for e in (1e-6, 1e-5)]
                sols = []
                cond = 1.0
                for (Dp, Da, Db) in Js:
                    if integ == "implicit":
                        Dm = np.where(info["maskD"], Dp + Da - Db, 0.0)
                    else:
                        Dm = np.where(info["maskM"], ri.symmetrize(Dp + Da), 0.0)
                        for adr in info["freeblocks"]:
                            s = slice(adr, adr + 6)
                            Dm[s, :] = 0
                            Dm[:, s] = 0
                            Dm[s, s] = (Dp + Da - Db)[s, s]
                    Mh = M - h * Dm
                    cond = np.linalg.cond(Mh)
                    if cond > 1e10:
                        break
                    sols.append(np.linalg.solve(Mh, f))
                if cond > 1e10:
                    P.count("skipped_illconditioned_Mhat")
                    return None
                a_ref = sols[0]
                tol_extra = 1e-13 * cond
                if np.abs(sols[0] - sols[1]).max() > 0.1 * RTOL[integ] * (np.abs(a_ref).max() + 1e-300):
                    P.count("skipped_nonsmooth_fd")
                    return None
                if np.abs(a_ref - qacc).max() > 1e-6 * (np.abs(qacc).max() + 1e-300):
                    nontrivial = True
                    P.count(integ + "_update_differs_from_explicit")
                if "jntfrc" in sat:
                    # diagnose: does the engine's update equal the one whose D ignores the joint-level actuator force clamp?
                    P.count("cases_joint_actuatorfrcrange_active")
                    keep = m["jnt_actfrclimited"].copy()
                    m["jnt_actfrclimited"][:] = 0
                    try:
                        (Dp, Da, Db) = fd_forces(L, m, d2, v0, 1e-6, ["qfrc_passive", "qfrc_actuator", "qfrc_bias"])
                    finally:
                        m["jnt_actfrclimited"][:] = keep
                    if integ == "implicit":
                        Dm = np.where(info["maskD"], Dp + Da - Db, 0.0)
                    else:
                        Dm = np.where(info["maskM"], ri.symmetrize(Dp + Da), 0.0)
                        for adr in info["freeblocks"]:
                            s_ = slice(adr, adr + 6)
                            Dm[s_, :] = 0
                            Dm[:, s_] = 0
                            Dm[s_, s_] = (Dp + Da - Db)[s_, s_]
                    a_noclamp = np.linalg.solve(M - h * Dm, f)
                    sc_ = np.abs(h * a_ref).max() + 1e-300
                    tol_ = (RTOL[integ] + tol_extra) * sc_ + 8 * np.finfo(float).eps * (np.abs(v0).max() + sc_)
                    if np.abs(dv_eng - h * a_ref).max() > tol_ and np.abs(dv_eng - h * a_noclamp).max() <= tol_:
                        viol("implicit-derivative-ignores-joint-actuatorfrcrange-clamp", integrator=integ, h=h, dv_engine=dv_eng,
                             dv_documented=h * a_ref, dv_if_clamp_ignored=h * a_noclamp)
                        a_ref = a_noclamp
                full = Js[0][0] + Js[0][1] - (Js[0][2] if integ == "implicit" else 0)
                if np.abs(np.where(info["maskD" if integ == "implicit" else "maskM"], 0.0, full)).max() > 1e-9:
                    P.count(integ + "_cases_with_derivative_outside_M_pattern")
                if info["freeblocks"] and integ == "implicitfast":
                    P.count("implicitfast_cases_with_standalone_free_body")
        else:   # rk4
            d2 = d.copy()
            oplus = ri.make_oplus(T)

            def deriv(q, v, w, t):
                d2["qpos"][:] = q
                d2["qvel"][:] = v
                if na:
                    d2["act"][:] = w
                d2.set_s("time", t)
                d2.forward()
                return np.array(d2["qacc"]), (np.array(d2["act_dot"]) if na else np.zeros(0))

            q_ref, v_ref, wbar, stages = ri.rk4(q0, v0, w0, t0, h, deriv, oplus, first=(qacc, wdot))
            vmax = max(np.abs(sv).max() for (_, sv, _) in stages) if nv else 0.0
            if not np.isfinite(vmax) or vmax > 100 * (1 + np.abs(v0).max()):
                # the step is far outside the stability region (stage velocities explode): rounding differences between the
                # reference and the engine's manifold update are amplified without bound, nothing can be decided
                P.count("skipped_rk4_step_unstable")
                a_ref = None
            else:
                a_ref = (v_ref - v0) / h
                # position update: combination of the stage velocities
                err = np.abs(q1 - q_ref).max()
                P.note_max("abserr_rk4_qpos", err)
                if err > 1e-9 * (1 + h * vmax):
                    viol("rk4-position-differs-from-classical-tableau", err=float(err), h=h)
                nontrivial = True
            vel_for_pos = None

        if a_ref is not None:
            dv_ref = h * a_ref
            sc = np.abs(dv_ref).max() + 1e-300
            tol = (RTOL[integ] + tol_extra) * sc + 8 * np.finfo(float).eps * (np.abs(v0).max() + sc)
            err = np.abs(dv_eng - dv_ref).max()
            P.note_max("relerr_dv_" + integ, err / sc)
            if err > tol:
                i = int(np.argmax(np.abs(dv_eng - dv_ref)))
                kind = {"euler": "euler-velocity-update-differs-from-(M+hD)-solve" if (integ == "euler" and a_ref is not qacc) else
                        "euler-velocity-update-differs-from-v+h*qacc", "implicit": "implicit-velocity-update-differs-from-(M-h*dfdv)-solve",
                        "implicitfast": "implicitfast-velocity-update-differs-from-symmetrised-solve",
                        "rk4": "rk4-velocity-differs-from-classical-tableau"}[integ]
                viol(kind, dof=i, engine=float(dv_eng[i]), ref=float(dv_ref[i]), relerr=float(err / sc), h=h,
                     jnt_type=int(m["jnt_type"][m["dof_jntid"][i]]))
            P.count("velocity_updates_checked_" + integ)

        # ---- position update on the manifold with the NEW velocity (semi-implicit)
        if vel_for_pos is not None:
            q_ref = T.integrate_pos(q0, v1, h)
            err = np.abs(q1 - q_ref).max()
            P.note_max("abserr_qpos_single_step", err)
            if err > 1e-12 * (1 + np.abs(q0).max()):
                i = int(np.argmax(np.abs(q1 - q_ref)))
                old = np.abs(q1 - T.integrate_pos(q0, v0, h)).max()
                viol("position-not-integrated-with-new-velocity-on-manifold:" + integ, qadr=i, engine=float(q1[i]), ref=float(q_ref[i]),
                     err=float(err), err_if_old_velocity=float(old), h=h)

        # ---- quaternion norms
        jt, qa = m["jnt_type"], m["jnt_qposadr"]
        for j in range(m.n("njnt")):
            if jt[j] in (E.mjJNT_FREE, E.mjJNT_BALL):
                a = qa[j] + (3 if jt[j] == E.mjJNT_FREE else 0)
                nrm = np.linalg.norm(q1[a:a + 4])
                P.note_max("quat_norm_error", abs(nrm - 1))
                P.count("quaternions_checked")
                nontrivial = True
                if abs(nrm - 1) > 1e-12:
                    viol("quaternion-not-unit-after-step:" + integ, joint=j, norm=float(nrm), norm_before=float(np.linalg.norm(q0[a:a + 4])))

        # ---- activations
        if na:
            aadr, anum, dyn = m["actuator_actadr"], m["actuator_actnum"], m["actuator_dyntype"]
            alim, arng = m["actuator_actlimited"], m["actuator_actrange"].reshape(-1, 2)
            dynprm = m["actuator_dynprm"].reshape(len(dyn), -1)
            for i in range(len(dyn)):
                if aadr[i] < 0 or anum[i] == 0:
                    continue
                nontrivial = True
                kind = DYN_NAME.get(int(dyn[i]))
                if kind is None or kind == "none":
                    P.count("skipped_activation_of_unsupported_dyntype")
                    continue
                for k in range(aadr[i], aadr[i] + anum[i]):
                    ref = ri.next_activation(kind, w0[k], wbar[k], h, tau=dynprm[i, 0], limited=bool(alim[i]), lo=arng[i, 0], hi=arng[i, 1],
                                             minval=E.mjMINVAL)
                    unclamped = ri.next_activation(kind, w0[k], wbar[k], h, tau=dynprm[i, 0])
                    P.count("activations_checked_" + kind)
                    if alim[i] and unclamped != ref:
                        P.count("activations_clamped_to_actrange")
                    diff = w1[k] - ref
                    per = wrap_period(m, i) if kind == "integrator" else 0.0
                    if per > 0:
                        P.count("activations_wrap_eligible")
                        diff = diff - per * np.round(diff / per)
                    if abs(diff) > 1e-12 * (1 + abs(ref)):
                        viol("activation-update-differs-from-documented-rule:%s:%s%s" % (kind, integ, ":actlimited" if alim[i] else ""),
                             actuator=i, act0=float(w0[k]), act_dot=float(wbar[k]), engine=float(w1[k]), ref=float(ref), h=h,
                             actrange=arng[i].tolist(), tau=float(dynprm[i, 0]))
                    if alim[i] and not (arng[i, 0] <= w1[k] <= arng[i, 1]) and per == 0:
                        viol("activation-outside-actrange-after-step:" + kind, actuator=i, engine=float(w1[k]), actrange=arng[i].tolist())
        return nontrivial
    finally:
        m.opt["disableflags"] = dis0
        d.free()
        if d2 is not None:
            d2.free()


def check_integrate_pos(L, m, T, P, rng, witness):
    """mj_integratePos against the reference manifold update (large rotations included)"""
    nq, nv = m.n("nq"), m.n("nv")
    q = T.integrate_pos(np.array(m["qpos0"]), rng.normal(size=nv), 1.0)
    v = rng.normal(size=nv) * rng.choice([0.1, 3.0, 30.0])
    h = float(np.exp(rng.uniform(np.log(1e-4), np.log(0.2))))
    q_eng = np.array(q)
    L.call("mj_integratePos", m, q_eng, v, h, ret=None)
    q_ref = T.integrate_pos(q, v, h)
    err = np.abs(q_eng - q_ref).max()
    P.note_max("abserr_mj_integratePos", err)
    if err > 1e-12 * (1 + np.abs(q).max()):
        P.violation("mj_integratePos-differs-from-exponential-map", dict(witness, qpos=q.tolist(), qvel=v.tolist(), h=h, err=float(err)))
    P.count("integratePos_checked")


def worker(c):
    P = core.Part()
    L = drv.Lib("rel")
    xml = c.get("xml") or gen_case_xml(c)
    try:
        m = L.load_xml_string(xml)
    except drv.MjError as e:
        P.count("model_rejected")
        P.count("model_rejected:" + str(e)[:50])
        return P.result()
    nv = m.n("nv")
    name = case_name(c)
    if nv == 0 or m.n("nflex") > 0:
        P.count("skipped_nv0_or_flex")
        P.case(nontrivial=False)
        m.free()
        return P.result()
    m.opt["enableflags"] = int(m.opt["enableflags"]) & ~int(E.mjENBL_SLEEP)
    T = make_tree(m)
    info = {"maskM": csr_mask(nv, m["M_rownnz"], m["M_rowadr"], m["M_colind"], True),
            "maskD": csr_mask(nv, m["D_rownnz"], m["D_rowadr"], m["D_colind"], False),
            "freeblocks": standalone_free_blocks(m, T)}
    anc = ancestor_mask(T)
    P.count("models")
    if (info["maskD"] != anc).any():
        P.count("models_D_pattern_differs_from_ancestor_relation")
    if (info["maskM"] != anc).any():
        P.count("models_M_pattern_smaller_than_ancestor_relation(simple dofs)")
    dyn = m["actuator_dyntype"]
    for k, nm in DYN_NAME.items():
        if k and (dyn == k).any():
            P.count("models_with_dyn_" + nm)
    if (m["dof_damping"] != 0).any() or (m["dof_dampingpoly"] != 0).any():
        P.count("models_with_joint_damping")
    if (m["dof_dampingpoly"] != 0).any():
        P.count("models_with_polynomial_joint_damping")
    if m.n("ntendon") and ((m["tendon_damping"] != 0).any() or (m["tendon_dampingpoly"] != 0).any()):
        P.count("models_with_tendon_damping")
    if m.n("nu") and ((m["actuator_damping"] != 0).any() or (m["actuator_dampingpoly"] != 0).any()):
        P.count("models_with_actuator_damping")
    rng = np.random.default_rng(c["seed"])
    base_opt = {"density": float(m.opt["density"]), "viscosity": float(m.opt["viscosity"])}
    for k, spec in enumerate(c["states"]):
        integ, h, flags = spec["integ"], spec["h"], spec.get("flags", [])
        sseed = int(rng.integers(0, 2 ** 31))
        r = np.random.default_rng(sseed)
        st = random_state(r, m, T, denorm=spec.get("denorm", False))
        m.opt["density"], m.opt["viscosity"] = base_opt["density"], base_opt["viscosity"]
        if spec.get("fluid"):
            m.opt["density"] = float(np.exp(r.uniform(np.log(1.0), np.log(1000.0))))
            m.opt["viscosity"] = float(np.exp(r.uniform(np.log(1e-3), np.log(1.0))))
        witness = {"model": name, "xml": xml, "state_index": k, "spec": spec,
                   "case": {kk: vv for kk, vv in c.items() if kk != "xml"}}
        try:
            nt = check_case(L, m, T, P, st, integ, h, flags, info, witness)
            if k == 0:
                check_integrate_pos(L, m, T, P, r, witness)
        except drv.MjError as e:
            P.count("engine_error_skipped")
            P.count("engine_error:" + str(e).split(":")[0][:40])
            P.case(nontrivial=False)
            continue
        if nt is None:
            P.case(nontrivial=False)
            continue
        P.count("cases_" + integ + ("_" + "_".join(flags) if flags else ""))
        P.case(key="%s|%d|%s" % (name, k, integ), nontrivial=bool(nt),
               sample={"model": name, "nv": nv, "na": m.n("na"), "integrator": integ, "h": h, "flags": flags})
    m.free()
    return P.result()


# ---- driver ---------------------------------------------------------------------------------------------------------
def cases(ctx, nmodel_q=110, nmodel_t=1600, nstate_q=4, nstate_t=4):
    rng = ctx.rng
    cs = []
    n = ctx.pick(nmodel_q, nmodel_t)
    ns = ctx.pick(nstate_q, nstate_t)
    for i in range(n):
        states = []
        for k in range(ns):
            integ = INTS[(i + k) % 4]
            flags = []
            if integ == "euler":
                r = rng.random()
                if r < 0.2:
                    flags = ["noeulerdamp"]
                elif r < 0.27:
                    flags = ["nodamper"]
            states.append({"integ": integ, "h": float(np.exp(rng.uniform(np.log(1e-4), np.log(2e-2)))), "flags": flags,
                           "denorm": bool(rng.random() < 0.3), "fluid": bool(integ in ("implicit", "implicitfast") and rng.random() < 0.15)})
        cs.append({"mseed": int(rng.integers(0, 2 ** 31)), "seed": int(rng.integers(0, 2 ** 31)), "states": states,
                   "pfree": [0.2, 0.5, 0.9][i % 3], "pball": [0.1, 0.3, 0.5][(i // 3) % 3], "pdamp": [0.3, 0.6, 0.9][(i // 9) % 3]})
    return cs


def _collect(ctx, cs, res):
    for c, r in zip(cs, res):
        if r is None:
            ctx.inconclusive("worker returned nothing")
        elif "crash" in r:
            ctx.count("worker_crash")
            ctx.inconclusive("worker crashed on %s: %s" % (case_name(c), r["crash"][-300:]))
        elif "exception" in r:
            ctx.count("harness_exception")
            ctx.inconclusive("harness exception in worker: " + r["exception"] + " " + r.get("trace", "")[-600:])
        else:
            ctx.merge(r)


def run(ctx):
    build.ensure("rel")
    ctx.extra["reference_self_test"] = {k: float(v) for k, v in ri.self_test().items()}
    cs = cases(ctx)
    nbatch = 4
    for k in range(nbatch):
        part = cs[k::nbatch]
        res = par.run("vf.props.c05", "worker", part, nproc=16, timeout=ctx.pick(300, 900))
        _collect(ctx, part, res)
        if ctx.violations:
            ctx.count("batches_not_run_after_violation", nbatch - 1 - k)
            return
    total = sum(v for k, v in ctx.counters.items() if k.startswith("cases_"))
    skipped = sum(v for k, v in ctx.counters.items() if k.startswith("skipped_") and "activation" not in k) + ctx.counters.get("engine_error_skipped", 0)
    if skipped > 0.35 * max(1, total + skipped):
        ctx.inconclusive("too many cases skipped (%d of %d)" % (skipped, total + skipped))
    for integ in INTS:
        if ctx.counters.get("velocity_updates_checked_" + integ, 0) < ctx.pick(40, 600):
            ctx.inconclusive("too few velocity updates checked for " + integ)
    ctx.min_nontrivial = ctx.pick(250, 4000)


def replay(ctx, path):
    rec = json.load(open(path))
    det = rec["detail"]
    c = dict(det["case"])
    c["xml"] = det["xml"]
    ctx.merge(worker(c))
    ctx.min_nontrivial = 1
