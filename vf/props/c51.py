"""C51 First-party plugins honour their documented laws (mujoco.pid actuator, mujoco.elasticity.cable)."""
import json
import re
import math
import threading

import numpy as np

from .. import core, drv, nat, par
from ..mjconst import E
from ..ref import pid as refpid

LEVEL = "exploration"
RULE = ("generated worlds made of independent kinematic trees without contacts: an 'ordinary' chain with springs, dampers, "
        "gravity compensation and stateful built-in actuators (intvelocity, filter, muscle, position, motor); 0..5 bodies "
        "driven by mujoco.pid plugin actuators (gains 0 or log-uniform over 4 decades, imax / slewmax present or absent, "
        "ctrlrange present or absent, instances shared by two actuators, optional integrator/filter dyntype in front of the "
        "PID, plugin and built-in actuators interleaved in the actuator list, Euler/implicit/implicitfast, 4 timesteps); "
        "an optional composite cable (3..30 segments, random smooth 3-D vertex curve or straight, first point none/ball/free, "
        "optionally hanging off a hinged mount, capsule/cylinder/box cross-section, twist/bend over 5 decades, flat true/false). "
        "PID: the README recurrence (vf/ref/pid.py) is stepped alongside the simulation on observed length/velocity and "
        "compared with actuator_force at every step of piecewise-constant/jumping/noisy control sequences. Cable: the plugin's "
        "contribution to qfrc_passive (twin model without the plugin, same state) in the stress-free configuration (qpos0, "
        "or the straightened pose when flat=true, validated geometrically) with random velocities. Slice isolation: twin "
        "runs with one plugin removed must agree on every qpos/qvel/act/plugin_state/qfrc_passive/actuator_force entry "
        "that does not belong to that plugin's own trees. A subsample runs on the ASan+UBSan build. "
        "distinct = (family, gain pattern, limit pattern, dyntype, integrator | cable shape class, flat, first point, "
        "cross-section, mount, stiffness decade); non-trivial = PID force non-zero at some step / cable contribution "
        "non-zero in a bent pose")
ASSUMPTIONS = [
    "integral discretisation: the force may use the I term before or after adding the current period's ki*e*dt (both are Euler "
    "rules for the README integral); the controller state itself follows I <- clip(I + ki*e*dt, +-imax)",
    "derivative term: de/dt = (rate of the setpoint) - actuator_velocity where the rate of a piecewise-constant ctrl is 0 and the "
    "rate of a dyntype-filtered setpoint is its act_dot (README: e = u - l)",
    "the first step after reset is not slew-limited (no previous setpoint exists: 'one activation variable ... containing the previous value of ctrl')",
    "ki >= 0 and imax >= 0, slewmax >= 0 (the plugin refuses other values with a warning); PID actuators carry no forcerange/actrange "
    "(those generic clamps are documented engine behaviour outside the plugin's law)",
    "mjData.act of a PID actuator holds the error integral (force/ki), although the README says 'in units of force': only actuator_force is decided, "
    "the act convention is reported as a counter",
    "zero force = |plugin contribution| <= 1e-9 * max(twist,bend) * r^4 / L (a curvature error of 1e-9 rad/m) + rounding of the passive-force sum",
    "twin comparison uses numeric equality (-0.0 == +0.0)",
]

INTEGRATORS = ["Euler", "implicit", "implicitfast"]


def _f(x):
    if isinstance(x, (list, tuple, np.ndarray)):
        return " ".join(_f(v) for v in x)
    return repr(float(x))


def _logu(rng, lo, hi):
    return float(math.exp(rng.uniform(math.log(lo), math.log(hi))))


def _quat_mul(a, b):
    return np.array([a[0] * b[0] - a[1] * b[1] - a[2] * b[2] - a[3] * b[3],
                     a[0] * b[1] + a[1] * b[0] + a[2] * b[3] - a[3] * b[2],
                     a[0] * b[2] - a[1] * b[3] + a[2] * b[0] + a[3] * b[1],
                     a[0] * b[3] + a[1] * b[2] - a[2] * b[1] + a[3] * b[0]])


# ----------------------------------------------------------------------------------------- world generator

def gen_world(seed, family):
    """JSON-able description of a world; xml(world, drop=...) renders it with one plugin removed"""
    rng = np.random.default_rng(seed)
    w = dict(family=family, timestep=float(rng.choice([0.0005, 0.002, 0.005, 0.01])), integrator=str(rng.choice(INTEGRATORS)),
             gravity=[0, 0, float(rng.choice([-9.81, 0.0]))])
    # ordinary tree
    nb = int(rng.integers(2, 5))
    w["ord"] = [dict(axis=[float(x) for x in rng.normal(size=3)], stiffness=float(rng.choice([0, _logu(rng, 0.1, 50)])),
                     springref=float(rng.uniform(-0.5, 0.5)), damping=float(rng.choice([0, _logu(rng, 0.01, 2)])),
                     gravcomp=float(rng.choice([0, 0, 1.0, 0.5])), length=float(rng.uniform(0.1, 0.3)), mass=_logu(rng, 0.05, 2)) for _ in range(nb)]
    kinds = ["motor", "position", "intvelocity", "filter", "muscle", "velocity"]
    w["ord_act"] = [dict(kind=str(rng.choice(kinds)), joint=int(rng.integers(0, nb)), p=_logu(rng, 0.1, 20), tau=_logu(rng, 0.01, 0.5))
                    for _ in range(int(rng.integers(2, 6)))]
    w["pids"], w["pid_act"] = [], []
    if family in ("pid", "combo"):
        ninst = int(rng.integers(1, 5))
        for k in range(ninst):
            def gain():
                return 0.0 if rng.random() < 0.3 else _logu(rng, 1e-2, 1e2)
            inst = dict(kp=gain(), ki=gain(), kd=gain() * 0.1, imax=None, slewmax=None)
            if rng.random() < 0.5:
                inst["imax"] = _logu(rng, 1e-3, 1e1) if rng.random() < 0.9 else 0.0
            if rng.random() < 0.5:
                inst["slewmax"] = _logu(rng, 1e-2, 1e2) if rng.random() < 0.9 else 0.0
            w["pids"].append(inst)
        for k in range(ninst):
            for rep in range(2 if rng.random() < 0.3 else 1):
                inst = w["pids"][k]
                dyn = None
                if inst["slewmax"] is None and rng.random() < 0.25:
                    dyn = str(rng.choice(["integrator", "filter"]))
                w["pid_act"].append(dict(inst=k, jtype=str(rng.choice(["slide", "hinge"])), stiffness=float(rng.choice([0, _logu(rng, 0.1, 50)])),
                                         damping=float(rng.choice([0, _logu(rng, 0.01, 2)])), mass=_logu(rng, 0.05, 2),
                                         ctrlrange=None if rng.random() < 0.5 else [float(-rng.uniform(0.1, 1)), float(rng.uniform(0.1, 1))],
                                         gear=float(rng.choice([1.0, 1.0, -2.0, 0.5])), armature=float(rng.choice([0.3, 1.0, 3.0])), dyn=dyn, tau=_logu(rng, 0.01, 0.5), qpos0=float(rng.uniform(-0.3, 0.3))))
    # actuator order: interleave
    order = [("ord", i) for i in range(len(w["ord_act"]))] + [("pid", i) for i in range(len(w["pid_act"]))]
    w["act_order"] = [list(order[int(i)]) for i in rng.permutation(len(order))]
    w["cable"] = None
    if family in ("cable", "combo"):
        nseg = int(rng.integers(3, 31))
        shape = str(rng.choice(["straight", "planar", "spatial", "spatial"]))
        L = float(rng.uniform(0.02, 0.08))
        pts = [np.zeros(3)]
        dirv = rng.normal(size=3)
        dirv /= np.linalg.norm(dirv)
        turn = float(rng.uniform(0.05, 0.5))
        ax = rng.normal(size=3)
        for s in range(nseg):
            if shape != "straight":
                if shape == "spatial":
                    ax = ax + 0.5 * rng.normal(size=3)
                a = ax - dirv * (ax @ dirv)
                a /= (np.linalg.norm(a) + 1e-12)
                ang = turn * float(rng.uniform(0.3, 1.0))
                dirv = dirv * math.cos(ang) + np.cross(a, dirv) * math.sin(ang)
                dirv /= np.linalg.norm(dirv)
            pts.append(pts[-1] + dirv * L * float(rng.uniform(0.8, 1.2)))
        geom = str(rng.choice(["capsule", "cylinder", "box"]))
        r = _logu(rng, 0.003, 0.02)
        w["cable"] = dict(nseg=nseg, shape=shape, vertex=[[float(x) for x in p] for p in pts], initial=str(rng.choice(["none", "ball", "free"])),
                          mount=bool(rng.random() < 0.4), geom=geom, size=[r] if geom != "box" else [r, r, r * float(rng.uniform(0.5, 2))],
                          twist=_logu(rng, 1e4, 1e9), bend=_logu(rng, 1e4, 1e9), flat=str(rng.choice(["true", "false", "absent"])),
                          damping=float(rng.choice([0, _logu(rng, 1e-3, 0.1)])), seglen=L, first=bool(rng.random() < 0.5))
        c = w["cable"]
        # joint armature that keeps the explicit elastic force stable at this timestep (70%), else a bare cable (short runs)
        kmax = max(c["twist"], c["bend"]) * (2 * max(c["size"])) ** 4 / 4
        c["armature"] = float(16 * kmax / L * w["timestep"] ** 2) if rng.random() < 0.7 else 0.0
    return w


def xml(w, drop=None):
    """MJCF of the world; drop in (None, 'pid', 'cable') removes that plugin (instances and plugin actuators / plugin element)"""
    o = ['<mujoco model="c51"><compiler autolimits="true"/>',
         '<option timestep="%s" integrator="%s" gravity="%s"><flag contact="disable"/></option>' % (_f(w["timestep"]), w["integrator"], _f(w["gravity"])),
         '<size memory="20M"/>']
    use_pid = bool(w["pid_act"]) and drop != "pid"
    use_cable = w["cable"] is not None and drop != "cable"
    if use_pid or use_cable:
        o.append("<extension>")
        if use_pid:
            o.append('<plugin plugin="mujoco.pid">')
            for k, inst in enumerate(w["pids"]):
                o.append('<instance name="pid%d">' % k)
                for key in ("kp", "ki", "kd", "imax", "slewmax"):
                    if inst[key] is not None and not (key in ("kp", "ki", "kd") and inst[key] == 0.0 and k % 2):
                        o.append('<config key="%s" value="%s"/>' % (key, _f(inst[key])))
                o.append("</instance>")
            o.append("</plugin>")
        if use_cable:
            c = w["cable"]
            o.append('<plugin plugin="mujoco.elasticity.cable"><instance name="cab"><config key="twist" value="%s"/><config key="bend" value="%s"/>'
                     % (_f(c["twist"]), _f(c["bend"])))
            if c["flat"] != "absent":
                o.append('<config key="flat" value="%s"/>' % c["flat"])
            o.append("</instance></plugin>")
        o.append("</extension>")
    o.append("<worldbody>")

    def ordinary():
        depth = 0
        for i, b in enumerate(w["ord"]):
            o.append('<body name="ob%d" pos="%s" gravcomp="%s"><joint name="oj%d" type="hinge" axis="%s" stiffness="%s" springref="%s" damping="%s" armature="0.1"/>'
                     '<geom type="capsule" fromto="0 0 0 %s 0 0" size="0.02" mass="%s"/>'
                     % (i, _f([b["length"] if i else 0.0, 0, 1.0 if i == 0 else 0.0]), _f(b["gravcomp"]), i, _f(b["axis"]), _f(b["stiffness"]),
                        _f(b["springref"]), _f(b["damping"]), _f(b["length"]), _f(b["mass"])))
            depth += 1
        o.append("</body>" * depth)

    def cable():
        c = w["cable"]
        if c is None:
            return
        top = c["initial"] == "free"            # "free joint can only be used on top level"
        if top:
            pass
        elif c["mount"]:
            o.append('<body name="mount" pos="1 0 1"><joint name="mj" type="hinge" axis="0 1 0" damping="0.05" armature="0.1"/><geom size="0.03" mass="0.5"/>')
        else:
            o.append('<body name="mount" pos="1 0 1">')
        o.append('<composite type="cable" prefix="c" initial="%s" %svertex="%s">' % (c["initial"], 'offset="1 0 1" ' if top else "", _f([x for p in c["vertex"] for x in p])))
        if use_cable:
            o.append('<plugin plugin="mujoco.elasticity.cable" instance="cab"/>')
        o.append('<joint kind="main" damping="%s" armature="%s"/><geom type="%s" size="%s" density="1000"/></composite>%s'
                 % (_f(c["damping"]), _f(c["armature"]), c["geom"], _f(c["size"]), "" if top else "</body>"))

    if w["cable"] is not None and w["cable"]["first"]:
        cable()
        ordinary()
    else:
        ordinary()
        cable()
    for i, a in enumerate(w["pid_act"]):
        ax = "0 0 1" if a["jtype"] == "slide" else "0 1 0"
        o.append('<body name="pb%d" pos="%s 2 1"><joint name="pj%d" type="%s" axis="%s" stiffness="%s" damping="%s" ref="%s" armature="%s"/>'
                 '<geom type="box" size="0.05 0.02 0.02" pos="0.05 0 0" mass="%s"/></body>'
                 % (i, _f(0.3 * i), i, a["jtype"], ax, _f(a["stiffness"]), _f(a["damping"]), _f(a["qpos0"]), _f(a["armature"]), _f(a["mass"])))
    o.append("</worldbody><actuator>")
    for kind, i in w["act_order"]:
        if kind == "ord":
            a = w["ord_act"][i]
            j = "oj%d" % a["joint"]
            nm = "oa%d" % i
            if a["kind"] == "motor":
                o.append('<motor name="%s" joint="%s" gear="%s"/>' % (nm, j, _f(a["p"])))
            elif a["kind"] == "position":
                o.append('<position name="%s" joint="%s" kp="%s"/>' % (nm, j, _f(a["p"])))
            elif a["kind"] == "velocity":
                o.append('<velocity name="%s" joint="%s" kv="%s"/>' % (nm, j, _f(a["p"] * 0.1)))
            elif a["kind"] == "intvelocity":
                o.append('<intvelocity name="%s" joint="%s" kp="%s" actrange="-1 1"/>' % (nm, j, _f(a["p"])))
            elif a["kind"] == "filter":
                o.append('<general name="%s" joint="%s" dyntype="filter" dynprm="%s" gainprm="%s"/>' % (nm, j, _f(a["tau"]), _f(a["p"])))
            elif a["kind"] == "muscle":
                o.append('<muscle name="%s" joint="%s" force="%s" range="0.5 1.5" lengthrange="0.1 0.6"/>' % (nm, j, _f(a["p"])))
        elif drop != "pid":
            a = w["pid_act"][i]
            inst = w["pids"][a["inst"]]
            actdim = (1 if inst["ki"] else 0) + (1 if inst["slewmax"] is not None else 0) + (1 if a["dyn"] else 0)
            extra = ""
            if a["ctrlrange"] is not None:
                extra += ' ctrlrange="%s"' % _f(a["ctrlrange"])
            if a["dyn"]:
                extra += ' dyntype="%s" dynprm="%s"' % (a["dyn"], _f(a["tau"]))
            if actdim or i % 2:
                extra += ' actdim="%d"' % actdim
            o.append('<plugin name="pa%d" joint="pj%d" plugin="mujoco.pid" instance="pid%d" gear="%s"%s/>' % (i, i, a["inst"], _f(a["gear"]), extra))
    o.append("</actuator></mujoco>")
    return "".join(o)


# ----------------------------------------------------------------------------------------- helpers

class Sim:
    def __init__(self, L, w, drop=None):
        self.m = L.load_xml_string(xml(w, drop))
        self.d = self.m.make_data()
        m = self.m
        self.act_names = [m.name(E.mjOBJ_ACTUATOR, i) for i in range(m.n("nu"))]
        self.aidx = {n: i for i, n in enumerate(self.act_names)}
        self.jnt_names = [m.name(E.mjOBJ_JOINT, i) for i in range(m.n("njnt"))]
        # tree class of every dof / qpos entry / actuator: 'ord', 'pid', 'cable'
        bodyname = [m.name(E.mjOBJ_BODY, i) or "" for i in range(m.n("nbody"))]
        root = m["body_rootid"]
        rootname = [bodyname[int(root[i])] for i in range(m.n("nbody"))]

        def klass(b):
            r = rootname[b]
            return "ord" if r.startswith("ob") else ("pid" if r.startswith("pb") else "cable")
        self.dof_class = np.array([klass(int(b)) for b in m["dof_bodyid"]]) if m.n("nv") else np.zeros(0, dtype="<U5")
        qc = []
        for j in range(m.n("njnt")):
            n = {E.mjJNT_FREE: 7, E.mjJNT_BALL: 4}.get(int(m["jnt_type"][j]), 1)
            qc += [klass(int(m["jnt_bodyid"][j]))] * n
        self.qpos_class = np.array(qc) if qc else np.zeros(0, dtype="<U5")

    def free(self):
        self.d.free()
        self.m.free()


def _act_slices(sim, name):
    i = sim.aidx[name]
    adr, num = int(sim.m["actuator_actadr"][i]), int(sim.m["actuator_actnum"][i])
    return i, (slice(adr, adr + num) if adr >= 0 else slice(0, 0))


def _compare_twin(P, A, B, removed, det, where):
    """every entry that does not belong to the removed plugin's own trees / actuators must agree"""
    bad = []
    keep_dof_a = A.dof_class != removed
    keep_dof_b = B.dof_class != removed
    for f in ("qfrc_passive", "qvel"):
        if not np.array_equal(A.d[f][keep_dof_a], B.d[f][keep_dof_b]):
            bad.append(f)
    if not np.array_equal(A.d["qpos"][A.qpos_class != removed], B.d["qpos"][B.qpos_class != removed]):
        bad.append("qpos")
    for n in B.act_names:
        if removed == "pid" and n.startswith("pa"):
            continue
        ia, sa = _act_slices(A, n)
        ib, sb = _act_slices(B, n)
        if not np.array_equal(A.d["act"][sa], B.d["act"][sb]):
            bad.append("act")
        if A.d["actuator_force"][ia] != B.d["actuator_force"][ib]:
            bad.append("actuator_force")
    if not np.array_equal(A.d["plugin_state"], B.d["plugin_state"]) and A.m.n("npluginstate") == B.m.n("npluginstate"):
        bad.append("plugin_state")
    for f in sorted(set(bad)):
        P.violation("%s-plugin-changes-foreign-slice:%s" % (removed, f), dict(det, where=where))
    return not bad


def _unstable(sim, k, dt):
    """the engine resets mjData when it detects a divergent state (mj_checkAcc etc.): time no longer equals (k+1)*dt"""
    d = sim.d
    return (abs(d.s("time") - (k + 1) * dt) > 1e-9 * (k + 2) * dt or not np.isfinite(d["qpos"]).all() or not np.isfinite(d["qvel"]).all()
            or not np.isfinite(d["actuator_force"]).all() or (d["qvel"].size and np.abs(d["qvel"]).max() > 1e6))


def _controls(rng, nu, nsteps):
    """piecewise-constant with jumps, plus noisy and ramp segments"""
    u = np.zeros((nsteps, nu))
    for j in range(nu):
        t = 0
        cur = float(rng.normal())
        while t < nsteps:
            seg = int(rng.integers(1, max(2, nsteps // 3)))
            mode = rng.random()
            if mode < 0.6:
                u[t:t + seg, j] = cur
            elif mode < 0.8:
                u[t:t + seg, j] = cur + 0.3 * rng.normal(size=min(seg, nsteps - t))
            else:
                u[t:t + seg, j] = cur + np.linspace(0, float(rng.normal()), seg)[:min(seg, nsteps - t)]
            t += seg
            cur = float(rng.normal() * rng.choice([0.3, 1.0, 3.0]))
    return u


# ----------------------------------------------------------------------------------------- PID law

def _check_pid(P, L, w, case, rng):
    A = Sim(L, w)
    B = Sim(L, w, drop="pid")
    C_ = Sim(L, w, drop="cable") if w["cable"] is not None else None
    m, d = A.m, A.d
    dt = w["timestep"]
    refs = {}
    for i, a in enumerate(w["pid_act"]):
        inst = w["pids"][a["inst"]]
        refs[i] = refpid.RefPID(kp=inst["kp"], ki=inst["ki"], kd=inst["kd"], imax=inst["imax"], slewmax=inst["slewmax"],
                                ctrlrange=a["ctrlrange"] if a["dyn"] is None else None)
    nsteps = case["nsteps"]
    U = _controls(rng, m.n("nu"), nsteps)
    # start away from the reference pose
    for s in (A, B, C_):
        if s is None:
            continue
        s.d.reset()
    q0 = rng.normal(size=m.n("nq")) * 0.2
    for s in (A, B, C_):
        if s is None:
            continue
        for cls in ("ord", "pid"):
            s.d["qpos"][s.qpos_class == cls] += q0[A.qpos_class == cls]
    det = dict(case=case)
    nonzero = {i: False for i in refs}
    conv = {"new": 0, "old": 0}
    ok_twin = True
    for k in range(nsteps):
        for s in (A, B, C_):
            if s is None:
                continue
            for n, i in s.aidx.items():
                s.d["ctrl"][i] = U[k, A.aidx[n]]
        act_pre = d["act"].copy()
        try:
            A.d.step()
            B.d.step()
            if C_ is not None:
                C_.d.step()
        except drv.MjError as e:
            P.count("skipped_engine_error")
            break
        if _unstable(A, k, dt) or _unstable(B, k, dt) or (C_ is not None and _unstable(C_, k, dt)):
            P.count("runs_stopped_at_instability")
            break
        for i, r in refs.items():
            ai = A.aidx["pa%d" % i]
            a = w["pid_act"][i]
            adr, num = int(m["actuator_actadr"][ai]), int(m["actuator_actnum"][ai])
            length, vel, f = float(d["actuator_length"][ai]), float(d["actuator_velocity"][ai]), float(d["actuator_force"][ai])
            if a["dyn"] is None:
                o = r.step(U[k, ai], length, vel, dt)
            else:
                o = r.step(None, length, vel, dt, setpoint=float(act_pre[adr + num - 1]), setpoint_rate=float(d["act_dot"][adr + num - 1]))
            tol = 1e-9 * o["scale"] + 1e-13
            en, eo = abs(f - o["force_new"]), abs(f - o["force_old"])
            P.note_max("pid_force_error_over_tolerance", min(en, eo) / tol)
            if en <= tol:
                conv["new"] += 1
            elif eo <= tol:
                conv["old"] += 1
            else:
                inst = w["pids"][a["inst"]]
                parts = [p for p, on in (("p", inst["kp"]), ("i", inst["ki"]), ("d", inst["kd"])) if on]
                lim = [p for p, on in (("imax", inst["imax"] is not None), ("slew", inst["slewmax"] is not None), ("ctrlrange", a["ctrlrange"] is not None)) if on]
                P.violation("pid-force-differs-from-README-law:gains=%s:limits=%s:dyn=%s" % ("+".join(parts) or "none", "+".join(lim) or "none", a["dyn"] or "none"),
                            dict(det, step=k, actuator=i, instance=inst, got=f, want_new=o["force_new"], want_old=o["force_old"], e=o["e"], edot=o["edot"],
                                 setpoint=o["u"], I=o["I_new"], ctrl=float(U[k, ai]), length=length, velocity=vel))
                refs = {}
                break
            if f != 0.0:
                nonzero[i] = True
            inst = w["pids"][a["inst"]]
            if inst["ki"] and k > 2 and abs(o["I_new"]) > 1e-9:
                av = float(d["act"][adr])
                if abs(av * inst["ki"] - o["I_new"]) <= 1e-8 * abs(o["I_new"]) + 1e-13:
                    P.count("act_holds_error_integral(force/ki)")
                elif abs(av - o["I_new"]) <= 1e-8 * abs(o["I_new"]) + 1e-13:
                    P.count("act_holds_I_term_in_force_units")
                else:
                    P.count("act_matches_neither_convention")
        if not refs:
            break
        if ok_twin and (k % 3 == 0 or k == nsteps - 1):
            ok_twin = _compare_twin(P, A, B, "pid", det, "step %d" % k)
            if C_ is not None and ok_twin:
                ok_twin = _compare_twin(P, A, C_, "cable", det, "step %d" % k)
            P.count("twin_comparisons")
    P.count("pid_steps_new_convention", conv["new"])
    P.count("pid_steps_old_convention", conv["old"])
    for i, a in enumerate(w["pid_act"]):
        inst = w["pids"][a["inst"]]
        key = "pid|g=%s%s%s|imax=%s|slew=%s|cr=%d|dyn=%s|%s" % (
            "P" if inst["kp"] else "", "I" if inst["ki"] else "", "D" if inst["kd"] else "",
            "no" if inst["imax"] is None else ("0" if inst["imax"] == 0 else "yes"),
            "no" if inst["slewmax"] is None else ("0" if inst["slewmax"] == 0 else "yes"), a["ctrlrange"] is not None, a["dyn"] or "none", w["integrator"])
        P.case(key, nontrivial=nonzero.get(i, False), sample=dict(family=w["family"], instance=inst, actuator=a, steps=nsteps))
    for s in (A, B, C_):
        if s is not None:
            s.free()


# ----------------------------------------------------------------------------------------- cable law

def _cable_bodies(sim):
    m = sim.m
    names = [m.name(E.mjOBJ_BODY, i) or "" for i in range(m.n("nbody"))]
    return [i for i in range(m.n("nbody")) if names[i].startswith("cB_")]


def _set_state(sim, qpos, qvel):
    sim.d.reset()
    sim.d["qpos"][:] = qpos
    sim.d["qvel"][:] = qvel
    sim.d.forward()


def _contribution(A, B, qpos, qvel):
    _set_state(A, qpos, qvel)
    _set_state(B, qpos, qvel)
    pa, pb = A.d["qfrc_passive"].copy(), B.d["qfrc_passive"].copy()
    return pa - pb, pb


def _check_cable(P, L, w, case, rng):
    c = w["cable"]
    A = Sim(L, w)
    B = Sim(L, w, drop="cable")
    m = A.m
    det = dict(case=case)
    if m.n("nq") != B.m.n("nq") or m.n("nv") != B.m.n("nv"):
        raise RuntimeError("twin models differ in size")
    r = c["size"][0] if c["geom"] != "box" else max(c["size"])
    scale = max(c["twist"], c["bend"]) * (2 * r) ** 4 / c["seglen"]
    bodies = _cable_bodies(A)
    cab_dofs = A.dof_class == "cable"
    qpos0 = m["qpos0"].copy()
    qvel = np.where(rng.random(m.n("nv")) < 0.7, rng.normal(size=m.n("nv")), 0.0) * float(rng.choice([0.0, 0.1, 1.0]))
    flat = c["flat"] == "true"
    curved = c["shape"] != "straight"

    def zero_check(qpos, what):
        contrib, pb = _contribution(A, B, qpos, qvel)
        tol = 1e-9 * scale + 64 * np.finfo(float).eps * (np.abs(pb) + np.abs(contrib)) + 1e-14
        worst = float(np.max(np.abs(contrib) / tol)) if contrib.size else 0.0
        P.note_max("cable_rest_force_over_tolerance", worst)
        if worst > 1.0:
            k = int(np.argmax(np.abs(contrib) / tol))
            P.violation("cable-force-nonzero-in-stress-free-configuration:%s:%s" % (what, c["shape"] if not flat else "flat"),
                        dict(det, dof=k, force=float(contrib[k]), tolerance=float(tol[k]), stiffness_scale=scale, max_force=float(np.abs(contrib).max())))
            return False
        return True

    ok = True
    if not flat:
        ok = zero_check(qpos0, "xml-configuration")
    else:
        # straightened pose: every ball joint undoes its body's rest rotation; validated geometrically below
        q = qpos0.copy()
        for b in bodies:
            ja, jn = int(m["body_jntadr"][b]), int(m["body_jntnum"][b])
            for j in range(ja, ja + jn):
                if int(m["jnt_type"][j]) == E.mjJNT_BALL and b != bodies[0]:
                    bq = m["body_quat"].reshape(-1, 4)[b]
                    qa = int(m["jnt_qposadr"][j])
                    q[qa:qa + 4] = [bq[0], -bq[1], -bq[2], -bq[3]]
        _set_state(A, q, qvel * 0)
        xq = A.d["xquat"].reshape(-1, 4)[bodies]
        xp = A.d["xpos"].reshape(-1, 3)[bodies]
        straight = all(min(np.abs(xq[i] - xq[0]).max(), np.abs(xq[i] + xq[0]).max()) < 1e-9 for i in range(len(bodies)))
        if len(bodies) >= 3:
            u = xp[-1] - xp[0]
            u = u / np.linalg.norm(u)
            off = (xp - xp[0]) - np.outer((xp - xp[0]) @ u, u)
            straight = straight and float(np.abs(off).max()) < 1e-9
        if not straight:
            raise RuntimeError("harness: straightened pose is not straight")
        ok = zero_check(q, "straight-pose-with-flat=true")
        if curved:
            contrib, _ = _contribution(A, B, qpos0, qvel)
            if float(np.abs(contrib).max()) > 1e-6 * scale:
                P.count("flat_curved_xml_pose_has_force(expected)")
            else:
                P.count("flat_curved_xml_pose_without_force")
    # bent pose: contribution must be non-zero (non-trivial) and confined to the dofs carrying the cable
    q = qpos0.copy()
    for j in range(m.n("njnt")):
        qa = int(m["jnt_qposadr"][j])
        t = int(m["jnt_type"][j])
        if t == E.mjJNT_BALL:
            v = rng.normal(size=3) * 0.2
            ang = np.linalg.norm(v)
            dq = np.concatenate([[math.cos(ang / 2)], math.sin(ang / 2) * v / (ang + 1e-300)])
            q[qa:qa + 4] = _quat_mul(q[qa:qa + 4], dq)
        elif t == E.mjJNT_FREE:
            q[qa:qa + 3] += rng.normal(size=3) * 0.1
        else:
            q[qa] += rng.normal() * 0.3
    contrib, pb = _contribution(A, B, q, qvel)
    bent_nonzero = bool(np.abs(contrib[cab_dofs]).max() > 1e-6 * scale) if cab_dofs.any() else False
    if np.any(contrib[~cab_dofs] != 0):
        P.violation("cable-plugin-changes-foreign-slice:qfrc_passive", dict(det, where="bent pose", dofs=np.flatnonzero(contrib != 0)[:10]))
    P.note_max("cable_bent_force_over_scale", float(np.abs(contrib).max() / scale))
    # stepping twins
    nsteps = case["nsteps"]
    U = _controls(rng, m.n("nu"), nsteps)
    for s in (A, B):
        _set_state(s, q, qvel * 0.1)
    good = True
    for k in range(nsteps):
        for s in (A, B):
            s.d["ctrl"][:] = U[k]
        try:
            A.d.step()
            B.d.step()
        except drv.MjError:
            P.count("skipped_engine_error")
            break
        if _unstable(A, k, w["timestep"]) or _unstable(B, k, w["timestep"]):
            P.count("runs_stopped_at_instability")
            break
        if good and (k % 3 == 0 or k == nsteps - 1):
            good = _compare_twin(P, A, B, "cable", det, "step %d" % k)
            P.count("twin_comparisons")
    sdec = int(math.floor(math.log10(scale)))
    key = "cable|%s|flat=%s|first=%s|%s|mount=%d|seg=%s|k=1e%d" % (c["shape"], c["flat"], c["initial"], c["geom"], c["mount"],
                                                                 "<8" if c["nseg"] < 8 else ("<16" if c["nseg"] < 16 else ">=16"), sdec)
    P.case(key, nontrivial=bent_nonzero and ok is not None, sample=dict(family=w["family"], cable={k: v for k, v in c.items() if k != "vertex"}))
    if not bent_nonzero:
        P.count("cable_bent_pose_without_force")
    A.free()
    B.free()


def worker(case):
    P = core.Part()
    L = drv.Lib(case.get("flavour", "rel"))
    w = gen_world(case["seed"], case["family"])
    rng = np.random.default_rng([case["seed"], 17])
    L.clear_messages()
    try:
        if w["pid_act"]:
            _check_pid(P, L, w, case, rng)
        if w["cable"] is not None:
            _check_cable(P, L, w, case, rng)
    except drv.MjError as e:
        P.count("model_rejected")
        P.count("model_rejected:" + str(e).strip().splitlines()[-1][:80])
    return P.result()


def _sig(x):
    """sanitizer signature without scratch-directory prefixes"""
    return re.sub(r"/[^ :]*?/(src|plugin|include)/", r"\1/", x)


def _collect(ctx, pairs):
    for c, r in pairs:
        if r is None:
            ctx.inconclusive("worker returned nothing")
        elif "crash" in r and r.get("rc") == "timeout":
            ctx.count("worker_watchdog_timeouts")
            ctx.inconclusive("wall-clock watchdog fired for %s" % c)
        elif "crash" in r:
            body = r["crash"]
            reps = nat.san_reports(nat.symbolize_offline(body[-12000:])) if nat.SAN_RE.search(body) else []
            if reps:
                ctx.violation("sanitizer-report-in-plugin-run:%s" % _sig(reps[0][1]), {"case": c, "report": reps[0][2][:3000]})
            else:
                ctx.inconclusive("worker crashed without a sanitizer report: %s" % "\n".join(body.splitlines()[-5:]))
        elif "exception" in r:
            ctx.inconclusive("harness exception: " + r["exception"] + r.get("trace", "")[-600:])
        else:
            if c.get("flavour") == "asan":
                ctx.count("asan_cases")
            ctx.merge(r)


def run(ctx):
    refpid.selftest()
    rng = ctx.rng
    n = ctx.pick(300, 5000)
    cs = []
    for i in range(n):
        fam = ["pid", "cable", "combo", "pid"][i % 4]
        cs.append(dict(family=fam, seed=int(rng.integers(0, 2 ** 31)), nsteps=int(rng.choice([30, 80, 200]))))
    acs = [dict(c, flavour="asan", nsteps=min(c["nsteps"], ctx.pick(30, 80))) for c in cs[: ctx.pick(20, 300)]]
    box = {}
    th = threading.Thread(target=lambda: box.update(ares=par.run("vf.props.c51", "worker", acs, nproc=ctx.pick(4, 6), timeout=ctx.pick(900, 3000),
                                                                   asan=True, chunk=ctx.pick(5, 25))))
    th.start()
    res = par.run("vf.props.c51", "worker", cs, nproc=ctx.pick(8, 10), timeout=ctx.pick(600, 2400))
    th.join()
    ares = box.get("ares") or [None] * len(acs)
    _collect(ctx, list(zip(cs, res)) + list(zip(acs, ares)))
    if ctx.counters.get("model_rejected", 0) > 0.05 * len(cs):
        ctx.inconclusive("too many generated models rejected (%d)" % ctx.counters["model_rejected"])
    if not ctx.counters.get("asan_cases"):
        ctx.inconclusive("no case ran under ASan")
    ctx.min_nontrivial = ctx.pick(60, 300)


def replay(ctx, path):
    rec = json.load(open(path))
    c = rec["detail"]["case"]
    if c.get("flavour") == "asan":
        _collect(ctx, [(c, par.run("vf.props.c51", "worker", [c], nproc=1, timeout=3000, asan=True)[0])])
    else:
        ctx.merge(worker(c))
    ctx.min_nontrivial = 1
