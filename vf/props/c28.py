"""C28 Sensors report the quantities they are documented to measure."""
import json
import xml.etree.ElementTree as ET

import numpy as np

from .. import build, common, core, drv, par
from ..gen import model
from ..mjconst import E
from ..ref import efcrows, rbd
from ..ref import sensor as SR

LEVEL = "exploration"
RULE = ("reference-model oracle + twin executions: generated articulated models (vf/gen/model.py profile 'rich' without sensors) are "
        "decorated with 20-45 sensors of one family (frame sensors on body/xbody/geom/site/camera objects with moving reference frames | "
        "site-mounted gyro/velocimeter/accelerometer/magnetometer/rangefinder | force/torque/touch with shaped touch zones, welded "
        "sensor-mount bodies, contacts, connect constraints and applied Cartesian forces | joint/tendon/actuator/limit/ball/energy/"
        "clock | mixed), random cutoffs; states = random configurations and states reached by stepping under random controls and "
        "perturbations. After mj_forward every sensordata slice is compared with vf/ref/sensor.py; per state the sensordata is also "
        "recomputed with a per-slot canary while all sensors but one are switched off (needstage=NONE twin), and single-sensor "
        "recompiled twins are compared bitwise. distinct = (model, state index, sensor kind, object/reference type, cutoff active); "
        "non-trivial = supported sensor with a non-zero reference value or an active cutoff")
ASSUMPTIONS = [
    "sensors documented as 'copied from mjData.X' (joint/tendon/actuator pos/vel/frc, limit force, ten_length for limit distance and "
    "spring energy) take X as their source: the correctness of X belongs to other properties (C07, C27, C09)",
    "touch/force/torque take the contact list (position, frame, geoms) and the constraint forces efc_force as given (collision and "
    "solver are C13/C09-C11); the contact wrench is decoded from the rows as documented (computation: friction cones)",
    "force/torque: 'interaction force between a child and a parent body ... takes into account all forces acting on the system, "
    "including contacts as well as external perturbations' = sum over the child subtree of (I a + v x* I v) with world acceleration "
    "-g, minus xfrc_applied, contact and connect/weld constraint forces on the subtree; forces the engine applies in joint space "
    "(actuators incl. site/tendon transmissions, passive, fluid, gravcomp, joint/tendon constraints) are part of the interaction",
    "the Cartesian force pair of a connect/weld constraint is the one whose generalized force equals J'f of its rows (sign and the "
    "rotational map taken from efc_J); sensors whose subtree boundary is crossed by a constraint for which this cannot be derived "
    "(rank-deficient relative Jacobian) are skipped and counted",
    "framelinacc on a frame that moves with at least one dof follows the accelerometer convention (gravity included as world "
    "acceleration -g; the engine and the reference agree there). The documentation only says 'returns the 3D linear acceleration of "
    "the spatial frame of the object, in global coordinates' and does not mention gravity, so for a frame attached to a dof-less "
    "(static or mocap) body BOTH readings are accepted: the literal kinematic value 0 and the accelerometer-convention value -g "
    "(counters framelinacc_dofless_body:reads-zero / :reads-minus-gravity / :indistinguishable say which one was seen; audit B1). The "
    "accelerometer itself is documented 'including gravity', so 0 on a resting static site stays a violation (known finding). "
    "Quaternion outputs are compared up to sign",
    "touch: the 'normal ray' leaves the sensorised body towards the other body; contacts whose ray grazes the zone (outcome differs "
    "under 1e-9 displacements) may be counted either way; rangefinder: readings within the displaced-ray interval of vf/ref/ray.py "
    "are accepted near tangencies/edges (C16 owns ray casting), normal output and camera rangefinders are not modelled",
    "cutoff (modeling.rst 'limits the absolute value of the sensor output'; mjtDataType): real -> clip to [-c, c], positive -> "
    "min(c, x), axis/quaternion -> unit objects, never clamped (cutoff injected into the compiled model for those)",
    "sensors with nsample/interval/delay attributes, plugin, user, contact, tactile, camprojection, insidesite and geom-distance "
    "sensors are left out (distance sensors: C13); noise is not simulated; tendon armature is not generated (known C06 finding "
    "on M) so that 1/2 v'Mv has an unambiguous reference; sleeping is disabled",
    "tolerance: 2e-9 x (sum of magnitudes of the terms that are added up) + 1e-11",
]

FAMILIES = {
    "frame": ["framepos", "framequat", "framexaxis", "frameyaxis", "framezaxis", "framelinvel", "frameangvel", "framelinacc", "frameangacc",
              "subtreecom", "subtreelinvel", "subtreeangmom"],
    "imu": ["accelerometer", "velocimeter", "gyro", "magnetometer", "rangefinder", "framelinacc", "frameangacc", "framelinvel"],
    "force": ["force", "torque", "touch", "touch", "accelerometer", "subtreeangmom"],
    "scalar": ["jointpos", "jointvel", "tendonpos", "tendonvel", "actuatorpos", "actuatorvel", "actuatorfrc", "jointactuatorfrc",
               "tendonactuatorfrc", "ballquat", "ballangvel", "jointlimitpos", "jointlimitvel", "jointlimitfrc", "tendonlimitpos",
               "tendonlimitvel", "tendonlimitfrc", "clock", "e_potential", "e_kinetic"],
}
FAMILIES["mixed"] = sorted(set(sum(FAMILIES.values(), [])))
FAMILY_OVER = {
    "frame": dict(contacts=False, cameras=0.5, mocap=0.5, equalities=0, free=0.5, ball=0.25),
    "imu": dict(contacts=True, cameras=0.2, free=0.6, equalities=1),
    "force": dict(contacts=True, free=0.7, equalities=2, fixed_child=0.2, nbody=(3, 10)),
    "scalar": dict(contacts=False, limits=0.8, tendon_limit=0.7, actuators=0.9, tendons=3, ball=0.3, springs=0.6, tendon_spring=0.6,
                   equalities=1),
    "mixed": dict(contacts=True, cameras=0.3, limits=0.5),
}
FRAME_KINDS = set(k for k in FAMILIES["mixed"] if k.startswith("frame"))
NOCUT = {"framequat", "ballquat", "framexaxis", "frameyaxis", "framezaxis"}


def fmt(x):
    return model.f(x)


# ---- model generation ---------------------------------------------------------------------------------------------------
def build_xml(c):
    rng = np.random.default_rng(c["mseed"])
    fam = c["family"]
    over = dict(sensors=0, tendon_armature=0.0, sites=0.9, static_geoms=0.3, mocap=0.3, geoms=["sphere", "capsule", "ellipsoid", "cylinder", "box"])
    over.update(FAMILY_OVER[fam])
    xml, tags = model.gen_profile(rng, "rich", **over)
    root = ET.fromstring(xml)
    wb = root.find("worldbody")
    bodies, joints, sites, geoms, cams = [], [], [], [], []

    def walk(el, bname):
        for ch in el:
            if ch.tag == "body":
                bodies.append((ch.get("name"), ch))
                walk(ch, ch.get("name"))
            elif ch.tag in ("joint", "freejoint"):
                joints.append(dict(name=ch.get("name"), type=ch.get("type", "hinge"), limited=ch.get("limited") == "true"))
            elif ch.tag == "site":
                sites.append((ch.get("name"), bname))
            elif ch.tag == "geom":
                geoms.append((ch.get("name"), bname, ch))
            elif ch.tag == "camera":
                cams.append(ch.get("name"))
    walk(wb, "world")
    # extra decoration: shaped touch zones around geoms, welded sensor mounts, world-fixed camera / site
    touch_sites, mount_sites = [], []
    bel = dict(bodies)
    for gname, bname, gel in geoms:
        if bname == "world" or rng.random() > (0.6 if fam in ("force", "mixed") else 0.15):
            continue
        st = ["sphere", "capsule", "ellipsoid", "cylinder", "box"][int(rng.integers(0, 5))]
        a = {"name": "tz%d" % len(touch_sites), "type": st, "size": fmt(rng.uniform(0.06, 0.4, size=3)), "rgba": "0 1 0 0.2"}
        if gel.get("pos"):
            a["pos"] = fmt(np.array([float(v) for v in gel.get("pos").split()]) + rng.normal(size=3) * 0.05)
        if rng.random() < 0.6:
            a["quat"] = fmt(model.rquat(rng))
        ET.SubElement(bel[bname], "site", a)
        touch_sites.append((a["name"], bname))
    for bname, el in list(bodies):
        if rng.random() > (0.35 if fam in ("force", "mixed") else 0.08) or el.get("mocap") == "true":
            continue
        k = len(mount_sites)
        mb = ET.SubElement(el, "body", {"name": "fm%d" % k, "pos": fmt(rng.normal(size=3) * 0.15), "quat": fmt(model.rquat(rng))})
        ga = {"name": "fmg%d" % k, "type": "box", "size": fmt(rng.uniform(0.03, 0.12, size=3)), "mass": fmt(rng.uniform(0.1, 2.0))}
        if not over.get("contacts", True):
            ga.update(contype="0", conaffinity="0")
        ET.SubElement(mb, "geom", ga)
        ET.SubElement(mb, "site", {"name": "fms%d" % k, "pos": fmt(rng.normal(size=3) * 0.08), "quat": fmt(model.rquat(rng))})
        mount_sites.append(("fms%d" % k, "fm%d" % k))
        bodies.append(("fm%d" % k, mb))
        geoms.append(("fmg%d" % k, "fm%d" % k, None))
    if rng.random() < 0.5:
        ET.SubElement(wb, "camera", {"name": "cw", "pos": fmt(rng.normal(size=3)), "quat": fmt(model.rquat(rng))})
        cams.append("cw")
    sites_all = sites + touch_sites + mount_sites
    tendons, acts = [], []
    tn = root.find("tendon")
    if tn is not None:
        tendons = [(t.get("name"), t.get("limited") == "true") for t in tn]
    an = root.find("actuator")
    if an is not None:
        acts = [a.get("name") for a in an]
    sj = [j for j in joints if j["type"] in ("hinge", "slide")]
    bj = [j for j in joints if j["type"] == "ball"]
    names = {"body": [b[0] for b in bodies], "xbody": [b[0] for b in bodies], "geom": [g[0] for g in geoms],
             "site": [s[0] for s in sites_all], "camera": cams}
    S = ET.SubElement(root, "sensor")
    pick = lambda seq: seq[int(rng.integers(0, len(seq)))]
    kinds = FAMILIES[fam]
    n = int(rng.integers(20, 46))
    cnt = 0
    for _ in range(n * 3):
        if cnt >= n:
            break
        k = pick(kinds)
        a = {"name": "x%d" % cnt}
        if k in ("jointpos", "jointvel", "jointactuatorfrc"):
            if not sj:
                continue
            a["joint"] = pick(sj)["name"]
        elif k.startswith("jointlimit"):
            cand = [j for j in sj if j["limited"]]
            if not cand:
                continue
            a["joint"] = pick(cand)["name"]
        elif k in ("tendonpos", "tendonvel", "tendonactuatorfrc"):
            if not tendons:
                continue
            a["tendon"] = pick(tendons)[0]
        elif k.startswith("tendonlimit"):
            cand = [t for t in tendons if t[1]]
            if not cand:
                continue
            a["tendon"] = pick(cand)[0]
        elif k in ("actuatorpos", "actuatorvel", "actuatorfrc"):
            if not acts:
                continue
            a["actuator"] = pick(acts)
        elif k in ("ballquat", "ballangvel"):
            if not bj:
                continue
            a["joint"] = pick(bj)["name"]
        elif k in FRAME_KINDS:
            ot = pick([t for t in ("body", "xbody", "geom", "site", "camera") if names[t]])
            a["objtype"], a["objname"] = ot, pick(names[ot])
            if k not in ("framelinacc", "frameangacc") and rng.random() < 0.65:
                rt = pick([t for t in ("body", "xbody", "geom", "site", "camera") if names[t]])
                a["reftype"], a["refname"] = rt, pick(names[rt])
        elif k.startswith("subtree"):
            a["body"] = pick(names["body"])
        elif k in ("force", "torque"):
            cand = mount_sites * 2 + [s for s in sites_all if s[1] != "world"]
            if not cand:
                continue
            a["site"] = pick(cand)[0]
        elif k == "touch":
            cand = touch_sites * 3 + [s for s in sites if s[1] != "world"]
            if not cand:
                continue
            a["site"] = pick(cand)[0]
        elif k in ("accelerometer", "velocimeter", "gyro", "magnetometer", "rangefinder"):
            if not sites_all:
                continue
            a["site"] = pick(sites_all)[0]
            if k == "rangefinder" and rng.random() < 0.4:
                a["data"] = pick(["dist", "dist dir", "origin point", "dist point depth", "dir origin", "dist dir origin point depth"])
        if k not in NOCUT and rng.random() < 0.35:
            a["cutoff"] = fmt(float(np.exp(rng.uniform(np.log(0.02), np.log(20)))))
        ET.SubElement(S, k, a)
        cnt += 1
    opt = root.find("option")
    opt.set("magnetic", fmt(rng.normal(size=3)))
    if rng.random() < 0.5:
        opt.set("gravity", fmt(rng.normal(size=3) * 6))
    if rng.random() < 0.4:
        opt.set("cone", "elliptic")
    if rng.random() < 0.3:
        opt.set("integrator", pick(["RK4", "implicit", "implicitfast"]))
    return ET.tostring(root, encoding="unicode")


def single_sensor_xml(xml, idx):
    root = ET.fromstring(xml)
    S = root.find("sensor")
    for j, el in enumerate(list(S)):
        if j != idx:
            S.remove(el)
    return ET.tostring(root, encoding="unicode")


# ---- engine side ----------------------------------------------------------------------------------------------------------
CNAMES = ["mjDATATYPE_REAL", "mjDATATYPE_POSITIVE", "mjDATATYPE_AXIS", "mjDATATYPE_QUATERNION", "mjOBJ_BODY", "mjOBJ_XBODY", "mjOBJ_GEOM",
          "mjOBJ_SITE", "mjOBJ_CAMERA", "mjCNSTR_LIMIT_JOINT", "mjCNSTR_LIMIT_TENDON", "mjTRN_TENDON", "mjEQ_CONNECT", "mjEQ_WELD",
          "mjEQ_JOINT", "mjEQ_TENDON"]


def constants():
    C = {k: int(getattr(E, k)) for k in CNAMES}
    for k in SR.DOC:
        C["mjSENS_" + k] = int(getattr(E, "mjSENS_" + k))
    return C


def make_ref(m):
    A = {}
    for k in SR.MODEL_FIELDS:
        A[k] = m[k]
    for k in SR.OPTIONAL_FIELDS:
        if k in m:
            A[k] = m[k]
    sz = m.sizes()
    for k in SR.SIZES:
        A[k] = sz[k]
    return SR.SensorRef(A, constants())


def gather(L, m, d, R, qpos_in, need_J):
    af = d.arena_fields()
    nefc = d.s("nefc")
    S = dict(qpos=qpos_in, qvel=np.array(d["qvel"]), qacc=np.array(d["qacc"]), time=d.s("time"),
             xfrc_applied=np.array(d["xfrc_applied"]), magnetic=np.array(m.opt["magnetic"]),
             ten_length=np.array(d["ten_length"]), ten_velocity=np.array(d["ten_velocity"]),
             actuator_length=np.array(d["actuator_length"]), actuator_velocity=np.array(d["actuator_velocity"]),
             actuator_force=np.array(d["actuator_force"]), qfrc_actuator=np.array(d["qfrc_actuator"]),
             ne=d.s("ne"), nf=d.s("nf"), nefc=nefc, contacts=np.array(d.contacts()))
    if m.n("nmocap"):
        S["mocap_pos"], S["mocap_quat"] = np.array(d["mocap_pos"]), np.array(d["mocap_quat"])
    dis = int(m.opt["disableflags"])
    S["gravity"] = np.zeros(3) if dis & int(E.mjDSBL_GRAVITY) else np.array(m.opt["gravity"])
    S["limits_enabled"] = not (dis & (int(E.mjDSBL_LIMIT) | int(E.mjDSBL_CONSTRAINT)))
    S["springs_enabled"] = not (dis & int(E.mjDSBL_SPRING))
    S["pyramidal"] = int(m.opt["cone"]) == int(E.mjCONE_PYRAMIDAL)
    for k in ("efc_type", "efc_id", "efc_force"):
        S[k] = np.array(d.arena(k, af)).ravel()[:nefc] if nefc else np.zeros(0)
    if need_J and S["ne"] > 0:
        S["efc_J"] = efcrows.dense_J(L, m, d, af)[0]
    return S


def judge(res, got, cutoff, dtype, C):
    """None if `got` is an acceptable reading for the reference result"""
    got = np.asarray(got, dtype=float)
    if res.val is None or len(res.val) != len(got):
        return "size"
    for c in [res] + res.alts:
        signs = (1.0, -1.0) if res.quat else (1.0,)
        for s in signs:
            lo = SR.apply_cutoff(s * c.val - c.tol, cutoff, dtype, C)
            hi = SR.apply_cutoff(s * c.val + c.tol, cutoff, dtype, C)
            if np.all(np.isfinite(got)) and np.all(got >= lo - 1e-300) and np.all(got <= hi + 1e-300):
                return None
    if res.interval is not None and len(got) == 1 and np.isfinite(got[0]):
        lo, hi = res.interval
        g = got[0]
        t = 1e-7 * (1 + abs(g))
        cands = []
        if not np.isfinite(hi):
            cands.append(-1.0)
        lo_c = float(SR.apply_cutoff([lo - t], cutoff, dtype, C)[0]) if np.isfinite(lo) else None
        hi_c = float(SR.apply_cutoff([hi + t], cutoff, dtype, C)[0]) if np.isfinite(hi) else np.inf
        if lo_c is not None and lo_c <= g <= (hi_c if np.isfinite(hi) else float(SR.apply_cutoff([1e300], cutoff, dtype, C)[0])):
            return None
        if any(abs(g - float(SR.apply_cutoff([x], cutoff, dtype, C)[0])) <= 1e-12 for x in cands):
            return None
    return "value"


def report(P, sig, detail):
    """core.Part keeps 10 violations per worker: keep one witness per signature so that repeats of one mechanism (e.g. a known
    finding seen in every state) cannot crowd out a different one"""
    seen = P.__dict__.setdefault("_c28_seen", {})
    seen[sig] = seen.get(sig, 0) + 1
    if seen[sig] <= 1:
        P.violation(sig, detail)
    else:
        P.count("violation_repeats")


def kind_label(R, i):
    return R.kind_of(i) or ("type%d" % int(R.A["sensor_type"][i]))


OBJN = None


def objname(t):
    global OBJN
    if OBJN is None:
        OBJN = {int(getattr(E, "mjOBJ_" + k)): k.lower() for k in ("BODY", "XBODY", "GEOM", "SITE", "CAMERA", "JOINT", "TENDON", "ACTUATOR", "UNKNOWN")}
    return OBJN.get(int(t), str(int(t)))


def check_state(L, m, d, R, P, qpos_in, witness, state_idx, isolate):
    C = R.C
    ns, nsd = m.n("nsensor"), m.n("nsensordata")
    A = R.A
    kinds = [R.kind_of(i) for i in range(ns)]
    need_J = any(k in ("FORCE", "TORQUE") for k in kinds)
    S = gather(L, m, d, R, qpos_in, need_J)
    sd = np.array(d["sensordata"])
    res = R.evaluate(S)
    cut_live = np.array(m["sensor_cutoff"])
    for i in range(ns):
        r = res[i]
        k = kind_label(R, i)
        adr, dim = int(A["sensor_adr"][i]), int(A["sensor_dim"][i])
        got = sd[adr:adr + dim]
        if r.skip:
            P.count("skipped:" + r.skip)
            if r.tags:
                for t in r.tags:
                    P.count("note:" + t)
            P.case(nontrivial=False)
            continue
        cutoff, dtype = float(cut_live[i]), int(A["sensor_datatype"][i])
        bad = judge(r, got, cutoff, dtype, C)
        if bad == "value" and r.interval is not None and len(got) > 1:
            P.count("skipped:ray-ambiguous-multi-field")
            P.case(nontrivial=False)
            continue
        hasref = int(A["sensor_refid"][i]) >= 0 and kinds[i] in ("FRAMEPOS", "FRAMEQUAT", "FRAMEXAXIS", "FRAMEYAXIS", "FRAMEZAXIS", "FRAMELINVEL", "FRAMEANGVEL")
        clamped = cutoff > 0 and not np.array_equal(SR.apply_cutoff(r.val, cutoff, dtype, C), r.val)
        P.count("readings")
        P.count("readings:" + k)
        if clamped:
            P.count("readings_cutoff_active")
        if cutoff > 0 and dtype in (C["mjDATATYPE_AXIS"], C["mjDATATYPE_QUATERNION"]):
            P.count("readings_cutoff_on_unit_type")
        for t in r.tags:
            P.count("readings_" + t)
        if "static-frame-linacc" in r.tags and bad is None:
            # framelinacc on a dof-less body: 0 and -gravity are both documented readings; record which one the engine gives
            is0 = bool(np.all(np.abs(got - SR.apply_cutoff(r.alts[0].val, cutoff, dtype, C)) <= r.alts[0].tol))
            isg = bool(np.all(np.abs(got - SR.apply_cutoff(r.val, cutoff, dtype, C)) <= r.tol))
            P.count("framelinacc_dofless_body:" + ("indistinguishable" if is0 and isg else "reads-zero" if is0 else "reads-minus-gravity"))
        err = float(np.max(np.abs(got - r.val) / (r.tol / SR.RTOL + 1e-300))) if (not r.alts and not r.quat and not clamped and r.interval is None and np.all(r.tol > 0)) else 0.0
        if bad is None:
            P.note_max("max_err_over_scale", err)
        desc = k.lower()
        if kinds[i] in ("FRAMEPOS", "FRAMEQUAT", "FRAMEXAXIS", "FRAMEYAXIS", "FRAMEZAXIS", "FRAMELINVEL", "FRAMEANGVEL", "FRAMELINACC", "FRAMEANGACC"):
            desc += ":obj=" + objname(A["sensor_objtype"][i])
        if hasref:
            desc += ":ref=" + objname(A["sensor_reftype"][i])
        nontriv = bool(np.any(np.abs(r.val) > 1e-9) or clamped)
        P.case(key="%s|%d|%s|%s" % (witness["model"], state_idx, desc, "cut" if clamped else "nocut"), nontrivial=nontriv,
               sample={"model": witness["model"], "state": state_idx, "sensor": i, "kind": desc})
        if bad is not None:
            sig = "value-differs:" + k.lower()
            if hasref:
                sig += ":reference-frame"
            specific = False
            if "weld-external" in r.tags:
                wr = r.extra.get("weld_rows_as_world_torque")
                if wr is not None and np.all(np.abs(got - SR.apply_cutoff(wr, cutoff, dtype, C)) <= r.tol * 10 + 1e-9 * np.abs(wr).max()):
                    sig = "weld-rotational-rows-subtracted-as-world-torque-without-constraint-jacobian:" + k.lower()
                    specific = True
                else:
                    sig += ":weld-constraint-across-subtree-boundary"
            # accelerometer ("linear acceleration of the site (including gravity)") on a dof-less body: the reference is R'(-g)
            # exactly (no kinematic term exists there), the engine's quick return gives exact zeros
            if kinds[i] == "ACCELEROMETER" and "static-body" in r.tags and not np.any(got) and np.any(np.abs(r.val) > r.tol):
                sig = "static-body-acceleration-reads-zero-gravity-dropped:accelerometer"
                specific = True
            if cutoff > 0:
                if specific:
                    pass        # mechanism confirmed with the documented cutoff applied on top: same signature with and without cutoff
                elif judge(r, got, 0.0, dtype, C) is None:
                    sig = "cutoff-not-applied:" + k.lower()
                elif dtype != C["mjDATATYPE_REAL"] and np.all(np.abs(got - SR.apply_cutoff(r.val, cutoff, C["mjDATATYPE_REAL"], C)) <= r.tol + 1e-12):
                    sig = "cutoff-clamps-with-wrong-datatype-semantics:" + k.lower()
                else:
                    sig += ":cutoff"
            report(P, sig, dict(witness, state=state_idx, sensor=i, kind=desc, engine=got.tolist(), reference=r.val.tolist(),
                                  tol=r.tol.tolist(), cutoff=cutoff, datatype=dtype, tags=sorted(r.tags),
                                  alts=[a.val.tolist() for a in r.alts]))
    # ---- slice isolation: recompute with every other sensor switched off, sensordata pre-filled with a per-slot canary
    if isolate and ns:
        stage = m["sensor_needstage"]
        orig = np.array(stage)
        sdv = d["sensordata"]
        canary = -(1.0e6 + 7.0 * np.arange(nsd) + 0.125)
        try:
            for i in range(ns):
                adr, dim = int(A["sensor_adr"][i]), int(A["sensor_dim"][i])
                stage[:] = 0
                stage[i] = orig[i]
                sdv[:] = canary
                L.call("mj_sensorPos", m, d, ret=None)
                L.call("mj_sensorVel", m, d, ret=None)
                L.call("mj_sensorAcc", m, d, ret=None)
                now = np.array(sdv)
                own = np.zeros(nsd, dtype=bool)
                own[adr:adr + dim] = True
                P.count("isolation_runs")
                k = kind_label(R, i).lower()
                if not np.array_equal(now[~own].view(np.int64), canary[~own].view(np.int64)):
                    idx = np.nonzero(now.view(np.int64) != canary.view(np.int64))[0]
                    report(P, "slice:sensor-writes-outside-own-slice:" + k,
                                dict(witness, state=state_idx, sensor=i, adr=adr, dim=dim, written=[int(x) for x in idx if not own[x]][:20]))
                elif np.any(now[own].view(np.int64) == canary[own].view(np.int64)):
                    report(P, "slice:sensor-leaves-part-of-own-slice-unwritten:" + k, dict(witness, state=state_idx, sensor=i, adr=adr, dim=dim))
                elif not np.array_equal(now[own].view(np.int64), sd[adr:adr + dim].view(np.int64)):
                    report(P, "slice:reading-changes-when-other-sensors-are-switched-off:" + k,
                                dict(witness, state=state_idx, sensor=i, alone=now[own].tolist(), together=sd[adr:adr + dim].tolist()))
        finally:
            stage[:] = orig
            sdv[:] = sd
    return sd


def set_random_state(rng, m, d, T):
    d.reset()
    common.random_state(rng, m, d, vel_scale=float(rng.choice([0.3, 2.0])))
    jt, qa = m["jnt_type"], m["jnt_qposadr"]
    for j in range(m.n("njnt")):
        if jt[j] == E.mjJNT_FREE and rng.random() < 0.5:
            d["qpos"][qa[j] + 2] = rng.uniform(0.0, 0.3)                 # near the floor: contacts for touch / force / torque
        if jt[j] == E.mjJNT_BALL and rng.random() < 0.3:
            d["qpos"][qa[j]:qa[j] + 4] *= rng.uniform(0.7, 1.4)          # ballquat: 'unit quaternion' even if qpos is not normalised
    common.random_controls(rng, m, d, scale=float(rng.choice([0.5, 3.0])))
    nm = m.n("nmocap")
    if nm:
        d["mocap_pos"][:] += rng.normal(size=(nm, 3)) * 0.3
        q = rng.normal(size=(nm, 4))
        d["mocap_quat"][:] = q / np.linalg.norm(q, axis=1, keepdims=True)
    if m.n("na"):
        d["act"][:] = rng.uniform(-0.5, 0.5, size=m.n("na"))
    nb = m.n("nbody")
    if nb > 1 and rng.random() < 0.6:
        for _ in range(int(rng.integers(1, 3))):
            d["xfrc_applied"][int(rng.integers(1, nb))] = rng.normal(size=6) * rng.choice([1.0, 20.0])


def case_name(c):
    return "gen:%s:%d" % (c["family"], c["mseed"])


def worker(c):
    P = core.Part()
    L = drv.Lib(c.get("flavour", "rel"))
    xml = c.get("xml") or build_xml(c)
    name = case_name(c)
    witness = {"model": name, "case": {k: v for k, v in c.items() if k != "xml"}, "xml": xml}
    try:
        m = L.load_xml_string(xml)
    except drv.MjError as e:
        P.count("model_rejected")
        P.count("model_rejected:" + str(e)[:50])
        P.case(nontrivial=False)
        return P.result()
    rng = np.random.default_rng(c["seed"])
    m.opt["enableflags"] = int(m.opt["enableflags"]) & ~int(E.mjENBL_SLEEP)
    C = constants()
    # cutoff on unit-vector / quaternion outputs is rejected by the compiler; put it into the compiled model for a few of them
    st, cut = m["sensor_type"], m["sensor_cutoff"]
    unit_types = [C["mjSENS_" + k] for k in ("FRAMEQUAT", "BALLQUAT", "FRAMEXAXIS", "FRAMEYAXIS", "FRAMEZAXIS")]
    for i in range(m.n("nsensor")):
        if int(st[i]) in unit_types and rng.random() < 0.4:
            cut[i] = float(rng.uniform(0.1, 0.6))
    R = make_ref(m)
    P.count("models")
    P.count("models_" + c["family"])
    for sig, info in R.layout_problems():
        report(P, "layout:" + sig, dict(witness, **info))
    d = m.make_data()
    twins = []
    ns = m.n("nsensor")
    if ns and c.get("ntwin", 0):
        for idx in rng.choice(ns, size=min(ns, c["ntwin"]), replace=False):
            try:
                m2 = L.load_xml_string(single_sensor_xml(xml, int(idx)))
                m2.opt["enableflags"] = int(m2.opt["enableflags"]) & ~int(E.mjENBL_SLEEP)
                m2["sensor_cutoff"][0] = cut[int(idx)]
                twins.append((int(idx), m2, m2.make_data()))
            except drv.MjError:
                P.count("twin_compile_failed")
    nst = c["nstates"]
    for s in range(nst):
        try:
            if s % 3 == 0:
                set_random_state(rng, m, d, R.T)
            else:
                common.random_controls(rng, m, d, scale=float(rng.choice([0.5, 3.0])))
                d.step(int(rng.integers(3, 40)) if s % 3 == 1 else int(rng.integers(60, 300)))
                if rng.random() < 0.3 and m.n("nv"):
                    d["qvel"][:] += rng.normal(size=m.n("nv")) * 0.5
            if not (np.all(np.isfinite(d["qpos"])) and np.all(np.isfinite(d["qvel"])) and np.abs(d["qvel"]).max(initial=0) < 1e4):
                P.count("skipped_state_diverged")
                set_random_state(rng, m, d, R.T)
            qpos_in = np.array(d["qpos"])
            d.forward()
            if not np.all(np.isfinite(d["qacc"])) or np.abs(d["qacc"]).max(initial=0) > 1e9:
                P.count("skipped_state_nonfinite_qacc")
                P.case(nontrivial=False)
                continue
            sd = check_state(L, m, d, R, P, qpos_in, witness, s, isolate=(s % 3 != 2))
            P.count("states")
            if d.s("ncon"):
                P.count("states_with_contacts")
            for idx, m2, d2 in twins:
                # identical physics requires the identical solver start: run both from the same state and a zero warm start
                sig = int(E.mjSTATE_FULLPHYSICS) | int(E.mjSTATE_USER)
                dd = d.copy()
                dd["qpos"][:] = qpos_in
                d2.set_state(dd.get_state(sig), sig)
                d2["qacc_warmstart"][:] = 0
                dd["qacc_warmstart"][:] = 0
                dd.forward()
                d2.forward()
                adr, dim = int(R.A["sensor_adr"][idx]), int(R.A["sensor_dim"][idx])
                a, b = np.array(dd["sensordata"])[adr:adr + dim], np.array(d2["sensordata"])
                dd.free()
                P.count("twin_single_sensor_runs")
                if len(b) != dim or not np.array_equal(a.view(np.int64), b.view(np.int64)):
                    report(P, "twin:reading-differs-between-all-sensors-model-and-single-sensor-model:" + kind_label(R, idx).lower(),
                                dict(witness, state=s, sensor=idx, all_sensors=a.tolist(), single=b.tolist()))
        except drv.MjError as e:
            P.count("engine_error_skipped")
            P.count("engine_error:" + str(e).split(":")[0][:40])
            P.case(nontrivial=False)
            d = m.make_data()
    return P.result()


# ---- driver -----------------------------------------------------------------------------------------------------------------
def cases(ctx):
    cs = []
    fams = ["frame", "imu", "force", "scalar", "mixed"]
    n = ctx.pick(65, 1000)
    for i in range(n):
        cs.append({"family": fams[i % len(fams)], "mseed": int(ctx.rng.integers(0, 2 ** 31)), "seed": int(ctx.rng.integers(0, 2 ** 31)),
                   "nstates": ctx.pick(5, 6), "ntwin": 2 if i % 2 == 0 else 0})
    return cs


def _collect(ctx, cs, res):
    for c, r in zip(cs, res):
        if r is None:
            ctx.inconclusive("worker returned nothing")
        elif "crash" in r:
            ctx.count("worker_crash")
            ctx.inconclusive("worker crashed on %s: %s" % (case_name(c), r["crash"][-300:]))
        elif "exception" in r:
            ctx.count("harness_exception")
            ctx.inconclusive("harness exception in worker (%s): %s %s" % (case_name(c), r["exception"], r.get("trace", "")[-600:]))
        else:
            ctx.merge(r)


def run(ctx):
    build.ensure("rel")
    ctx.extra["reference_self_test"] = {k: float(v) for k, v in SR.self_test().items()}
    ctx.extra["rbd_self_test"] = {k: float(v) for k, v in rbd.self_test().items()}
    cs = cases(ctx)
    nb = 4
    for k in range(nb):
        part = cs[k::nb]
        res = par.run("vf.props.c28", "worker", part, nproc=ctx.pick(8, 12), timeout=ctx.pick(400, 900))
        _collect(ctx, part, res)
        if ctx.violations:
            ctx.count("batches_not_run_after_violation", nb - 1 - k)
            break
    rd = ctx.counters.get("readings", 0)
    sk = sum(v for k, v in ctx.counters.items() if k.startswith("skipped:") and not k.startswith("skipped:not-requested"))
    if rd and sk > 0.25 * (rd + sk):
        ctx.inconclusive("too many sensor readings skipped (%d of %d)" % (sk, rd + sk))
    if ctx.counters.get("engine_error_skipped", 0) > 0.1 * max(1, ctx.counters.get("states", 0)):
        ctx.inconclusive("too many states skipped on engine errors")
    ctx.min_nontrivial = ctx.pick(2500, 50000)


def replay(ctx, path):
    rec = json.load(open(path))
    det = rec["detail"]
    c = dict(det["case"])
    if det.get("xml"):
        c["xml"] = det["xml"]
    ctx.merge(worker(c))
    ctx.min_nontrivial = 1
