"""Running native harness executables under sanitizers; report parsing."""
import os
import re
import subprocess
import time
from concurrent.futures import ThreadPoolExecutor
from pathlib import Path

from . import build

VERIF = Path(__file__).resolve().parent.parent

SAN_RE = re.compile(r"(ERROR: AddressSanitizer|ERROR: LeakSanitizer|WARNING: ThreadSanitizer|runtime error:|"
                    r"AddressSanitizer:DEADLYSIGNAL|ThreadSanitizer:DEADLYSIGNAL|UndefinedBehaviorSanitizer)")


def san_env(flavour, extra=None, leaks=True, halt=True, symbolize=True):
    env = dict(os.environ)
    sym = "/usr/lib/llvm-14/bin/llvm-symbolizer"
    if not os.path.exists(sym):
        sym = "/usr/bin/llvm-symbolizer-14"
    env.pop("LD_PRELOAD", None)
    env["ASAN_OPTIONS"] = "detect_leaks=%d:halt_on_error=%d:abort_on_error=0:symbolize=%d:allocator_may_return_null=1:exitcode=77" % (
        1 if leaks else 0, 1 if halt else 0, 1 if symbolize else 0)
    env["UBSAN_OPTIONS"] = "halt_on_error=%d:print_stacktrace=1:exitcode=78" % (1 if halt else 0)
    env["TSAN_OPTIONS"] = "halt_on_error=%d:second_deadlock_stack=1:exitcode=66:history_size=4" % (1 if halt else 0)
    env["LSAN_OPTIONS"] = "exitcode=79"
    env["ASAN_SYMBOLIZER_PATH"] = sym
    env["TSAN_SYMBOLIZER_PATH"] = sym
    env["UBSAN_SYMBOLIZER_PATH"] = sym
    env["MUJOCO_LOG_TOPICS"] = ""
    if extra:
        env.update(extra)
    return env


def run_exe(exe, args, flavour="rel", timeout=600, env=None, leaks=True, halt=True, cwd=None, stdin=None, symbolize=True):
    """returns dict(rc, out, err, reports[list of str], timed_out, wall)"""
    t = time.time()
    e = san_env(flavour, env, leaks=leaks, halt=halt, symbolize=symbolize)
    cwd = cwd or str(VERIF / "out")
    os.makedirs(cwd, exist_ok=True)
    try:
        r = subprocess.run([str(exe)] + [str(a) for a in args], stdout=subprocess.PIPE, stderr=subprocess.PIPE,
                           timeout=timeout, env=e, cwd=cwd, input=stdin)
        rc, out, err, to = r.returncode, r.stdout.decode(errors="replace"), r.stderr.decode(errors="replace"), False
    except subprocess.TimeoutExpired as ex:
        rc, to = None, True
        out = (ex.stdout or b"").decode(errors="replace")
        err = (ex.stderr or b"").decode(errors="replace")
    if not symbolize and SAN_RE.search(err):
        err = symbolize_offline(err)
    reports = san_reports(err)
    return dict(rc=rc, out=out, err=err, reports=reports, timed_out=to, wall=time.time() - t)


def symbolize_offline(text):
    """Resolve '(module+0xoff)' frames of an unsymbolized sanitizer report with llvm-symbolizer."""
    sym = "/usr/lib/llvm-14/bin/llvm-symbolizer"
    if not os.path.exists(sym):
        return text
    out = []
    for line in text.splitlines():
        m = re.search(r"#(\d+) (0x[0-9a-f]+)\s+\((/[^)+]+)\+0x([0-9a-f]+)\)", line)
        if m and os.path.exists(m.group(3)):
            try:
                r = subprocess.run([sym, "-e", m.group(3), "0x" + m.group(4)], stdout=subprocess.PIPE, timeout=20)
                parts = r.stdout.decode(errors="replace").strip().splitlines()
                if len(parts) >= 2:
                    line = "    #%s %s in %s %s" % (m.group(1), m.group(2), parts[0], parts[1])
            except Exception:
                pass
        out.append(line)
    return "\n".join(out)


def san_reports(text):
    """Split sanitizer output into report blocks; returns list of (kind, signature, text)."""
    reps = []
    lines = text.splitlines()
    i = 0
    while i < len(lines):
        m = SAN_RE.search(lines[i])
        if m:
            j = i + 1
            while j < len(lines) and j < i + 60 and not SAN_RE.search(lines[j]):
                j += 1
            block = "\n".join(lines[i:j])
            reps.append((m.group(1), report_signature(block), block[:4000]))
            i = j
        else:
            i += 1
    return reps


def report_signature(block):
    """kind + the first in-repo (or harness) frame of each stack, line numbers stripped."""
    kind = block.splitlines()[0]
    kind = re.sub(r"0x[0-9a-f]+", "ADDR", kind)
    kind = re.sub(r"\(pid=\d+\)", "", kind)
    kind = re.sub(r"\d+", "N", kind).strip()[:80]
    locs = []
    stacks = re.split(r"\n\s*\n", block)
    for st in stacks:
        for line in st.splitlines():
            m = re.match(r"\s*#\d+ (?:0x[0-9a-f]+ in )?(.+?) (/\S+?):\d+", line)
            if not m:
                continue
            fn, path = m.group(1), m.group(2)
            if "/repo" in path or "/mut-" in path or "/verif/native" in path or "/src/" in path:
                fn = re.sub(r"<.*?>", "", fn)
                fn = re.sub(r"\(.*", "", fn).split("::")[-1] if "lambda" not in fn else "lambda"
                loc = "%s:%s" % (path.split("/")[-1], fn[:40])
                if loc not in locs:
                    locs.append(loc)
                break
    if "ThreadSanitizer" in kind and len(locs) >= 2:
        locs = sorted(locs[:2]) + locs[2:]      # the order of the two racing accesses is schedule dependent
    return kind + " @ " + ">".join(locs[:3])


def pmap(fn, items, nthreads=16):
    with ThreadPoolExecutor(max_workers=nthreads) as ex:
        return list(ex.map(fn, items))
