"""ctypes binding to a flavoured build of the repository's library.

    L = drv.Lib("rel")
    m = L.load_xml_string(xml)        # or L.load_xml(path)
    d = m.make_data()
    L.call("mj_step", m, d)           # trapped: raises MjError on mju_error
    d["qpos"], m["body_pos"], d.arena("efc_J"), d.s("time"), m.n("nv"), m.opt["timestep"]

Every array is a numpy *view* of engine memory whose name, type and shape come from the
tree's own X-macros (native/vfdrv.c), so fields added/resized in the tree are picked up.
"""
import ctypes as C
import os
import sys

import numpy as np

from . import build

_DT = {
    "mjtNum": np.float64, "double": np.float64, "float": np.float32, "int": np.int32,
    "mjtByte": np.uint8, "mjtBool": np.uint8, "char": np.uint8, "size_t": np.uint64,
    "uintptr_t": np.uint64, "mjtSize": np.int64, "void*": np.uint64,
}


class MjError(Exception):
    pass


class VFField(C.Structure):
    _fields_ = [("name", C.c_char_p), ("ctype", C.c_char_p), ("nr", C.c_longlong), ("nc", C.c_longlong),
                ("ptr", C.c_void_p), ("elsize", C.c_longlong), ("offset", C.c_longlong)]


def _view(addr, dtype, shape):
    n = int(np.prod(shape)) if len(shape) else 1
    if n == 0 or not addr:
        return np.zeros(shape, dtype=dtype)
    nbytes = n * np.dtype(dtype).itemsize
    buf = (C.c_char * nbytes).from_address(addr)
    return np.frombuffer(buf, dtype=dtype, count=n).reshape(shape)


class Lib:
    _cache = {}

    def __new__(cls, flavour="rel", path=None):
        key = (flavour, str(path))
        if key in cls._cache:
            return cls._cache[key]
        self = super().__new__(cls)
        cls._cache[key] = self
        self._init(flavour, path)
        return self

    def _init(self, flavour, path):
        self.flavour = flavour
        self.path = str(path or build.ensure(flavour))
        self.lib = C.CDLL(self.path, mode=C.RTLD_GLOBAL)
        lib = self.lib
        lib.vf_call.argtypes = [C.c_void_p, C.POINTER(C.c_uint64), C.POINTER(C.c_uint64)]
        lib.vf_call_d.argtypes = [C.c_void_p, C.POINTER(C.c_uint64), C.POINTER(C.c_double)]
        lib.vf_call_mixed.argtypes = [C.c_void_p, C.POINTER(C.c_uint64), C.POINTER(C.c_double), C.c_int,
                                      C.POINTER(C.c_uint64), C.POINTER(C.c_double)]
        lib.vf_last_error.restype = C.c_char_p
        lib.vf_last_warning.restype = C.c_char_p
        lib.vf_offsetof.restype = C.c_longlong
        lib.vf_offsetof.argtypes = [C.c_char_p]
        lib.vf_install_handlers()
        self._layouts = {}
        self._fn = {}
        self._scalars = None
        self._optfields = None

    # ---- raw calls ---------------------------------------------------------------------------
    def fn(self, name):
        f = self._fn.get(name)
        if f is None:
            f = C.cast(getattr(self.lib, name), C.c_void_p).value
            self._fn[name] = f
        return f

    @staticmethod
    def _arg(a, keep):
        if a is None:
            return 0
        if isinstance(a, (Model, Data, Handle)):
            return a.ptr
        if isinstance(a, np.ndarray):
            if not a.flags["C_CONTIGUOUS"]:
                raise ValueError("non-contiguous array passed to engine")
            return a.ctypes.data
        if isinstance(a, (bool, np.bool_)):
            return int(a)
        if isinstance(a, (int, np.integer)):
            return int(a) & 0xFFFFFFFFFFFFFFFF
        if isinstance(a, bytes):
            b = C.create_string_buffer(a)
            keep.append(b)
            return C.addressof(b)
        if isinstance(a, str):
            b = C.create_string_buffer(a.encode())
            keep.append(b)
            return C.addressof(b)
        if isinstance(a, C.Array):
            return C.addressof(a)
        if hasattr(a, "value") and isinstance(a, C._SimpleCData):
            return a.value or 0
        raise TypeError("unsupported argument type %r" % type(a))

    def call(self, name, *args, ret="i32"):
        """Call an exported function under the error trap. Float arguments go to SSE registers."""
        keep = []
        ints, dbls = [], []
        for a in args:
            if isinstance(a, (float, np.floating)):
                dbls.append(float(a))
            else:
                ints.append(self._arg(a, keep))
        f = self.fn(name)
        if dbls or ret == "f64":
            if len(ints) > 12 and dbls:
                raise ValueError("mixed call with >12 integer arguments")
            if len(dbls) > 8:
                raise ValueError("too many double arguments")
        if not dbls:
            if len(ints) > 12:
                raise ValueError("too many arguments")
            arr = (C.c_uint64 * 12)(*ints)
            if ret == "f64":
                r = C.c_double()
                st = self.lib.vf_call_d(f, arr, C.byref(r))
            else:
                r = C.c_uint64()
                st = self.lib.vf_call(f, arr, C.byref(r))
        else:
            arr = (C.c_uint64 * 12)(*ints)
            darr = (C.c_double * 8)(*dbls)
            ri, rd = C.c_uint64(), C.c_double()
            st = self.lib.vf_call_mixed(f, arr, darr, 1 if ret == "f64" else 0, C.byref(ri), C.byref(rd))
            r = rd if ret == "f64" else ri
        if st:
            raise MjError(self.lib.vf_last_error().decode(errors="replace"))
        v = r.value
        if ret is None:
            return None
        if ret == "f64":
            return v
        if ret == "i32":
            v &= 0xFFFFFFFF
            return v - (1 << 32) if v & 0x80000000 else v
        if ret == "u8":
            return v & 0xFF
        if ret == "i64":
            return v - (1 << 64) if v & (1 << 63) else v
        return v  # ptr

    def warnings(self):
        return self.lib.vf_warning_count()

    def last_warning(self):
        return self.lib.vf_last_warning().decode(errors="replace")

    def clear_messages(self):
        self.lib.vf_clear_messages()

    def offsetof(self, what):
        v = self.lib.vf_offsetof(what.encode())
        if v < 0:
            raise KeyError(what)
        return v

    def layout(self, what):
        if what not in self._layouts:
            buf = C.create_string_buffer(8192)
            n = self.lib.vf_struct_layout(what.encode(), buf, 8192)
            if n < 0:
                raise KeyError(what)
            names, formats, offsets = [], [], []
            for item in buf.value.decode().strip(";").split(";"):
                nm, ct, cnt, off = item.split(":")
                cnt = int(cnt)
                dt = _DT[ct]
                names.append(nm)
                formats.append((dt, (cnt,)) if cnt > 1 else dt)
                offsets.append(int(off))
            size = self.offsetof("sizeof." + what)
            self._layouts[what] = np.dtype({"names": names, "formats": formats, "offsets": offsets, "itemsize": size})
        return self._layouts[what]

    def dtype_of(self, ctype):
        if ctype in _DT:
            return np.dtype(_DT[ctype])
        return self.layout(ctype)

    # ---- model loading -----------------------------------------------------------------------
    def load_xml(self, path, vfs=None):
        err = C.create_string_buffer(2000)
        p = self.call("mj_loadXML", str(path), vfs, err, 2000, ret="ptr")
        if not p:
            raise MjError(err.value.decode(errors="replace"))
        return Model(self, p, err.value.decode(errors="replace"))

    def load_xml_string(self, xml, vfs=None):
        err = C.create_string_buffer(2000)
        if isinstance(xml, str):
            xml = xml.encode()
        spec = self.call("mj_parseXMLString", xml, vfs, err, 2000, ret="ptr")
        if not spec:
            raise MjError(err.value.decode(errors="replace"))
        try:
            p = self.call("mj_compile", spec, vfs, ret="ptr")
            if not p:
                e = self.lib.mjs_getError
                e.restype = C.c_char_p
                e.argtypes = [C.c_void_p]
                raise MjError((e(spec) or b"").decode(errors="replace"))
        finally:
            self.call("mj_deleteSpec", spec, ret=None)
        return Model(self, p, "")

    def parse_xml_string(self, xml, vfs=None):
        err = C.create_string_buffer(2000)
        if isinstance(xml, str):
            xml = xml.encode()
        spec = self.call("mj_parseXMLString", xml, vfs, err, 2000, ret="ptr")
        if not spec:
            raise MjError(err.value.decode(errors="replace"))
        return Handle(self, spec, "mj_deleteSpec")

    def compile(self, spec, vfs=None):
        p = self.call("mj_compile", spec, vfs, ret="ptr")
        if not p:
            e = self.lib.mjs_getError
            e.restype = C.c_char_p
            e.argtypes = [C.c_void_p]
            raise MjError((e(spec.ptr) or b"").decode(errors="replace"))
        return Model(self, p, "")

    def save_xml_string(self, spec, precision=None):
        """mj_saveXMLString(spec) -> str"""
        if precision is not None:
            self.lib.vf_set_xml_precision(int(precision))
        try:
            err = C.create_string_buffer(2000)
            n = 1 << 16
            while True:
                buf = C.create_string_buffer(n)
                r = self.call("mj_saveXMLString", spec, buf, n, err, 2000)
                if r == 0:
                    return buf.value.decode(errors="replace")
                if r < 0:
                    raise MjError(err.value.decode(errors="replace"))
                n = r + 16
        finally:
            if precision is not None:
                self.lib.vf_set_xml_precision(6)


class Handle:
    """Owned opaque pointer with a deleter (mjSpec, mjVFS, ...)."""

    def __init__(self, L, ptr, deleter=None):
        self.L, self.ptr, self._del = L, ptr, deleter

    def free(self):
        if self.ptr and self._del:
            self.L.call(self._del, self.ptr, ret=None)
        self.ptr = 0

    def __del__(self):
        try:
            self.free()
        except Exception:
            pass


class Model:
    def __init__(self, L, ptr, warning="", own=True):
        self.L, self.ptr, self.load_warning, self._own = L, ptr, warning, own
        self._sizes = None
        self._fields = None
        self._opt = None

    def free(self):
        if self.ptr and self._own:
            self.L.call("mj_deleteModel", self.ptr, ret=None)
        self.ptr = 0

    def __del__(self):
        try:
            self.free()
        except Exception:
            pass

    def sizes(self):
        if self._sizes is None:
            names = (C.c_char_p * 256)()
            vals = (C.c_longlong * 256)()
            f = self.L.lib.vf_model_sizes
            f.argtypes = [C.c_void_p, C.POINTER(C.c_char_p), C.POINTER(C.c_longlong), C.c_int]
            n = f(self.ptr, names, vals, 256)
            self._sizes = {names[i].decode(): int(vals[i]) for i in range(n)}
        return self._sizes

    def n(self, name):
        return self.sizes()[name]

    def set_n(self, name, value):
        """Overwrite a size field of mjModel (e.g. narena before mj_makeData); the caller keeps it consistent."""
        f = self.L.lib.vf_model_size_addr
        f.restype = C.c_void_p
        f.argtypes = [C.c_void_p, C.c_char_p, C.POINTER(C.c_int)]
        nb = C.c_int()
        addr = f(self.ptr, name.encode(), C.byref(nb))
        if not addr:
            raise KeyError(name)
        (C.c_int64 if nb.value == 8 else C.c_int32).from_address(addr).value = int(value)
        self._sizes = None

    def fields(self):
        if self._fields is None:
            arr = (VFField * 1024)()
            f = self.L.lib.vf_model_fields
            f.argtypes = [C.c_void_p, C.POINTER(VFField), C.c_int]
            n = f(self.ptr, arr, 1024)
            out = {}
            for i in range(n):
                x = arr[i]
                shape = (int(x.nr), int(x.nc)) if x.nc != 1 else (int(x.nr),)
                out[x.name.decode()] = (x.ptr or 0, x.ctype.decode(), shape)
            self._fields = out
        return self._fields

    def __getitem__(self, name):
        ptr, ct, shape = self.fields()[name]
        return _view(ptr, self.L.dtype_of(ct), shape)

    def __contains__(self, name):
        return name in self.fields()

    @property
    def opt(self):
        if self._opt is None:
            self._opt = StructView(self.L, self.ptr + self.L.offsetof("mjModel.opt"), "option")
        return self._opt

    def stat_bytes(self):
        return bytes(_view(self.ptr + self.L.offsetof("mjModel.stat"), np.uint8, (self.L.offsetof("sizeof.mjStatistic"),)))

    def opt_bytes(self):
        return bytes(_view(self.ptr + self.L.offsetof("mjModel.opt"), np.uint8, (self.L.offsetof("sizeof.mjOption"),)))

    def vis_bytes(self):
        return bytes(_view(self.ptr + self.L.offsetof("mjModel.vis"), np.uint8, (self.L.offsetof("sizeof.mjVisual"),)))

    def make_data(self):
        p = self.L.call("mj_makeData", self, ret="ptr")
        if not p:
            raise MjError("mj_makeData returned NULL")
        return Data(self, p)

    def name(self, objtype, i):
        f = self.L.lib.mj_id2name
        f.restype = C.c_char_p
        f.argtypes = [C.c_void_p, C.c_int, C.c_int]
        r = f(self.ptr, objtype, i)
        return None if r is None else r.decode(errors="replace")

    def snapshot(self, skip=()):
        """dict name -> copy of every model array (for bitwise diffs)."""
        return {k: self[k].copy() for k in self.fields() if k not in skip}


class StructView:
    def __init__(self, L, addr, kind):
        self.L, self.addr = L, addr
        arr = (VFField * 128)()
        f = getattr(L.lib, "vf_%s_fields" % kind)
        f.argtypes = [C.POINTER(VFField), C.c_int]
        n = f(arr, 128)
        self._f = {}
        for i in range(n):
            x = arr[i]
            self._f[x.name.decode()] = (int(x.offset), x.ctype.decode(), int(x.nr))

    def names(self):
        return list(self._f)

    def view(self, name):
        off, ct, n = self._f[name]
        return _view(self.addr + off, self.L.dtype_of(ct), (n,))

    def __getitem__(self, name):
        v = self.view(name)
        return v[0].item() if v.shape == (1,) else v

    def __setitem__(self, name, val):
        self.view(name)[...] = val


class Data:
    def __init__(self, model, ptr, own=True):
        self.m, self.L, self.ptr, self._own = model, model.L, ptr, own
        self._fields = None
        L = self.L
        if L._scalars is None:
            arr = (VFField * 128)()
            f = L.lib.vf_data_scalars
            f.argtypes = [C.POINTER(VFField), C.c_int]
            n = f(arr, 128)
            L._scalars = {arr[i].name.decode(): (int(arr[i].offset), arr[i].ctype.decode(),
                                                  (int(arr[i].nr), int(arr[i].nc)) if arr[i].nc != 1 else (int(arr[i].nr),))
                          for i in range(n)}

    def free(self):
        if self.ptr and self._own:
            self.L.call("mj_deleteData", self.ptr, ret=None)
        self.ptr = 0

    def __del__(self):
        try:
            self.free()
        except Exception:
            pass

    def fields(self):
        if self._fields is None:
            arr = (VFField * 256)()
            f = self.L.lib.vf_data_fields
            f.argtypes = [C.c_void_p, C.c_void_p, C.POINTER(VFField), C.c_int]
            n = f(self.m.ptr, self.ptr, arr, 256)
            out = {}
            for i in range(n):
                x = arr[i]
                shape = (int(x.nr), int(x.nc)) if x.nc != 1 else (int(x.nr),)
                out[x.name.decode()] = (x.ptr or 0, x.ctype.decode(), shape)
            self._fields = out
        return self._fields

    def arena_fields(self):
        arr = (VFField * 256)()
        f = self.L.lib.vf_arena_fields
        f.argtypes = [C.c_void_p, C.c_void_p, C.POINTER(VFField), C.c_int]
        n = f(self.m.ptr, self.ptr, arr, 256)
        out = {}
        for i in range(n):
            x = arr[i]
            shape = (int(x.nr), int(x.nc)) if x.nc != 1 else (int(x.nr),)
            out[x.name.decode()] = (x.ptr or 0, x.ctype.decode(), shape)
        return out

    def __getitem__(self, name):
        f = self.fields()
        if name in f:
            ptr, ct, shape = f[name]
            return _view(ptr, self.L.dtype_of(ct), shape)
        if name in self.L._scalars:
            return self.sv(name)
        return self.arena(name)

    def arena(self, name, fields=None):
        ptr, ct, shape = (fields or self.arena_fields())[name]
        return _view(ptr, self.L.dtype_of(ct), shape)

    def sv(self, name):
        off, ct, shape = self.L._scalars[name]
        return _view(self.ptr + off, self.L.dtype_of(ct), shape)

    def s(self, name):
        return self.sv(name)[0].item()

    def set_s(self, name, v):
        self.sv(name)[0] = v

    def snapshot(self, arena=True, scalars=True, skip=()):
        out = {}
        for k in self.fields():
            if k not in skip:
                out[k] = self[k].copy()
        if arena:
            af = self.arena_fields()
            for k in af:
                if k not in skip:
                    out["arena." + k] = self.arena(k, af).copy()
        if scalars:
            for k in self.L._scalars:
                if k not in skip:
                    out["s." + k] = self.sv(k).copy()
        return out

    # convenience wrappers -------------------------------------------------------------------
    def step(self, n=1):
        for _ in range(n):
            self.L.call("mj_step", self.m, self, ret=None)

    def forward(self):
        self.L.call("mj_forward", self.m, self, ret=None)

    def inverse(self):
        self.L.call("mj_inverse", self.m, self, ret=None)

    def reset(self):
        self.L.call("mj_resetData", self.m, self, ret=None)

    def state_size(self, sig):
        return self.L.call("mj_stateSize", self.m, sig)

    def get_state(self, sig):
        n = self.state_size(sig)
        a = np.zeros(n)
        self.L.call("mj_getState", self.m, self, a, sig, ret=None)
        return a

    def set_state(self, a, sig):
        a = np.ascontiguousarray(a, dtype=np.float64)
        self.L.call("mj_setState", self.m, self, a, sig, ret=None)

    def copy(self):
        p = self.L.call("mj_copyData", None, self.m, self, ret="ptr")
        if not p:
            raise MjError("mj_copyData returned NULL")
        return Data(self.m, p)

    def contacts(self):
        ncon = self.s("ncon")
        af = self.arena_fields()
        ptr, ct, shape = af["contact"]
        return _view(ptr, self.L.layout("mjContact"), (ncon,))


# ---- comparisons -------------------------------------------------------------------------------

def bits_equal(a, b):
    a = np.ascontiguousarray(a)
    b = np.ascontiguousarray(b)
    if a.shape != b.shape or a.dtype != b.dtype:
        return False
    return a.tobytes() == b.tobytes()


def diff_snapshots(s1, s2, skip=()):
    """list of (name, first differing flat index, v1, v2) over two snapshot dicts."""
    out = []
    for k in s1:
        if k in skip:
            continue
        if k not in s2:
            out.append((k, -1, "missing", None))
            continue
        a, b = s1[k], s2[k]
        if a.shape != b.shape:
            out.append((k, -1, a.shape, b.shape))
            continue
        if a.tobytes() != b.tobytes():
            if a.dtype.names:
                out.append((k, -1, "struct-diff", None))
                continue
            av, bv = a.ravel(), b.ravel()
            neq = ~((av == bv) | ((av != av) & (bv != bv))) if av.dtype.kind == "f" else (av != bv)
            # also catch -0.0/+0.0 and NaN payload differences
            idx = np.flatnonzero(neq)
            if len(idx) == 0:
                ab = av.view(np.uint8).reshape(len(av), -1) if len(av) else av
                bb = bv.view(np.uint8).reshape(len(bv), -1) if len(bv) else bv
                idx = np.flatnonzero((ab != bb).any(axis=1))
            i = int(idx[0]) if len(idx) else -1
            out.append((k, i, av[i].item() if i >= 0 else None, bv[i].item() if i >= 0 else None))
    return out
