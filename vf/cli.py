import argparse
import importlib
import os
import sys
import time
import traceback

from . import core


def main():
    ap = argparse.ArgumentParser()
    ap.add_argument("pid")
    ap.add_argument("--tier", default=os.environ.get("VERIF_TIER", "quick"), choices=["quick", "thorough"])
    ap.add_argument("--replay", default=None)
    ap.add_argument("--seed", type=int, default=int(os.environ.get("VERIF_SEED", "0") or 0))
    a = ap.parse_args()
    pid = a.pid.upper()
    os.chdir(str(core.VERIF))
    (core.OUT).mkdir(exist_ok=True)
    from . import setup_env
    setup_env.ensure_deps()
    mod = importlib.import_module("vf.props." + pid.lower())
    ctx = core.Ctx(pid, tier=a.tier, seed=a.seed, level=getattr(mod, "LEVEL", "exploration"), replay=a.replay)
    ctx.rule = getattr(mod, "RULE", "")
    ctx.assumptions = list(getattr(mod, "ASSUMPTIONS", []))
    try:
        if a.replay:
            mod.replay(ctx, a.replay)
        else:
            mod.run(ctx)
    except core.Inconclusive as e:
        ctx.inconclusive(str(e))
    except Exception as e:
        traceback.print_exc()
        ctx.inconclusive("harness exception: %s: %s" % (type(e).__name__, e))
    sys.stdout.flush()
    rc = ctx.finish()
    sys.stdout.flush()
    os._exit(rc)


if __name__ == "__main__":
    main()
