"""Offline installation of harness-side third-party deps into /verif/.deps (git-ignored)."""
import os
import subprocess
import sys
from pathlib import Path

VERIF = Path(__file__).resolve().parent.parent
DEPS = VERIF / ".deps"
WHEELS = "/opt/veriftools/wheels"


def ensure_deps():
    if (DEPS / "icontract").exists() and (DEPS / "deal").exists():
        if str(DEPS) not in sys.path:
            sys.path.append(str(DEPS))
        return
    DEPS.mkdir(exist_ok=True)
    env = dict(os.environ, PIP_NO_INDEX="1")
    subprocess.run([sys.executable, "-m", "pip", "install", "--quiet", "--no-index", "--find-links", WHEELS,
                    "--target", str(DEPS), "icontract", "deal"], env=env, stdout=subprocess.DEVNULL,
                   stderr=subprocess.DEVNULL)
    if str(DEPS) not in sys.path:
        sys.path.append(str(DEPS))
