"""Run the repository's MJX (pure Python, /repo/mjx/mujoco/mjx) on top of the prebuilt `mujoco` wheel.

The wheel's compiled binding (MjModel / MjData / mj_* functions) is a *dependency* of MJX: MJX can only ingest
`mujoco.MjModel` objects of the installed binding.  The code under test is every module below
`build.REPO/mjx/mujoco/mjx` (VERIF_REPO is honoured, so mutated scratch worktrees are what gets executed); `load()`
asserts that origin.  `trimesh` (absent in the sandbox) is replaced by the stub in vf/stubs - convex-mesh collisions are
therefore outside every workload.

    from vf import mjxrepo
    R = mjxrepo.load(x64=True)        # R.mujoco, R.mjx, R.jax, R.jp
    xml, tags = mjxrepo.gen_model(rng, "contact")
    m = R.mujoco.MjModel.from_xml_string(xml); mx = R.mjx.put_model(m)   # NotImplementedError == documented gate

Also provides: the random model generator restricted to (and deliberately straddling) MJX's feature lattice, random
state sampling on the wheel's MjData, and a persistent XLA compilation cache (keyed by HLO, so a mutated MJX never
hits entries of the unchanged one).
"""
import os
import sys
import types
from pathlib import Path

import numpy as np

from . import build

STUBS = Path(__file__).resolve().parent / "stubs"
MJXROOT = build.REPO / "mjx" / "mujoco"

_loaded = {}


def _under_repo(f):
    try:
        Path(f).resolve().relative_to(build.REPO)
        return True
    except ValueError:
        return False


def load(x64=True, cache=True):
    """Import jax + the wheel + the repository's MJX. Idempotent per process (x64 is fixed by the first call)."""
    if _loaded:
        if _loaded["x64"] != bool(x64):
            raise RuntimeError("mjxrepo.load(): x64 mode is fixed per process")
        return _loaded["R"]
    os.environ.setdefault("JAX_PLATFORMS", "cpu")
    os.environ.setdefault("XLA_FLAGS", "--xla_cpu_multi_thread_eigen=false intra_op_parallelism_threads=1")
    os.environ.setdefault("XLA_PYTHON_CLIENT_PREALLOCATE", "false")
    if str(STUBS) not in sys.path:
        sys.path.append(str(STUBS))
    import warnings
    warnings.filterwarnings("ignore", category=DeprecationWarning)
    import jax
    jax.config.update("jax_enable_x64", bool(x64))
    if cache and not os.environ.get("VERIF_NO_JAXCACHE"):
        cdir = build.BUILD / "jaxcache"
        try:
            cdir.mkdir(parents=True, exist_ok=True)
            jax.config.update("jax_compilation_cache_dir", str(cdir))
            jax.config.update("jax_persistent_cache_min_compile_time_secs", 1.0)
            jax.config.update("jax_persistent_cache_min_entry_size_bytes", 0)
        except Exception:
            pass
    import jax.numpy as jp
    import mujoco
    for name in list(sys.modules):
        if name == "mujoco.mjx" or name.startswith("mujoco.mjx."):
            f = getattr(sys.modules[name], "__file__", None)
            if f is not None and not _under_repo(f):
                raise RuntimeError("%s already imported from elsewhere (%s)" % (name, f))
    if not (MJXROOT / "mjx" / "_src" / "forward.py").is_file():
        raise RuntimeError("no mjx sources under %s" % build.REPO)
    if str(MJXROOT) not in mujoco.__path__:
        mujoco.__path__.append(str(MJXROOT))
    # silence the "Failed to import warp" chatter of mjx/__init__ (stdout carries the worker protocol)
    import contextlib
    import io as _io
    with contextlib.redirect_stdout(_io.StringIO()), contextlib.redirect_stderr(_io.StringIO()):
        from mujoco import mjx
    assert _under_repo(mjx.__file__), "mjx loaded from %r, not from %s" % (mjx.__file__, build.REPO)
    src = {}
    for n in ("forward", "smooth", "passive", "io", "math", "support", "solver", "sensor", "constraint", "scan",
              "collision_driver", "collision_primitive", "collision_convex", "derivative", "types", "dataclasses"):
        mod = __import__("mujoco.mjx._src." + n, fromlist=["x"])
        assert _under_repo(mod.__file__), "%s loaded from %r" % (n, mod.__file__)
        src[n] = mod
    R = types.SimpleNamespace(mujoco=mujoco, mjx=mjx, jax=jax, jp=jp, src=src, x64=bool(x64),
                              wheel=getattr(mujoco, "__version__", "?"), repo=str(build.REPO))
    _loaded["R"] = R
    _loaded["x64"] = bool(x64)
    return R


# ------------------------------------------------------------------------------------------------------------------
# model generator
def _f(x):
    if np.isscalar(x):
        return "%.6g" % float(x)
    return " ".join("%.6g" % float(v) for v in np.asarray(x).ravel())


def _quat(rng):
    q = rng.normal(size=4)
    return q / np.linalg.norm(q)


SUPPORTED_SENSORS_POS = ["jointpos", "framepos", "framexaxis", "frameyaxis", "framezaxis", "framequat", "subtreecom",
                         "clock", "magnetometer", "actuatorpos", "tendonpos", "ballquat"]
SUPPORTED_SENSORS_VEL = ["velocimeter", "gyro", "jointvel", "framelinvel", "frameangvel", "subtreelinvel",
                         "subtreeangmom", "actuatorvel", "tendonvel", "ballangvel"]
SUPPORTED_SENSORS_ACC = ["accelerometer", "force", "torque", "actuatorfrc", "jointactuatorfrc", "framelinacc",
                         "frameangacc", "touch", "tendonactuatorfrc"]
GATE_SENSORS = ["jointlimitpos", "jointlimitfrc", "e_potential", "e_kinetic", "tendonlimitpos"]

# prerequisites of wanted feature classes (gen_model(want=...))
_WANT_NEEDS = {
    "clampstack": ["gravcomp", "actgravcomp", "clamp:jnt_actfrcrange", "clamp:forcerange", "clamp:ctrlrange"],
    "actgravcomp": ["gravcomp"],
    "eq:tendon": ["tendon:fixed"], "eq:weldmocap": ["mocap"], "trn:tendon": ["tendon:fixed"], "trn:ball": ["jnt:ball"],
    "wrap:pulley": ["tendon:spatial"], "wrap:sphere": ["tendon:spatial", "geom:sphere"],
    "wrap:cylinder": ["tendon:spatial", "geom:cylinder"], "wrap:sidesite": ["tendon:spatial", "geom:sphere"],
    "tendon:limit": ["tendon:fixed"], "tendon:frictionloss": ["tendon:fixed"],
    "sensor:ballquat": ["jnt:ball"], "sensor:ballangvel": ["jnt:ball"],
    "sensor:tendonpos": ["tendon:fixed"], "sensor:tendonvel": ["tendon:fixed"], "sensor:tendonactuatorfrc": ["tendon:fixed"],
    "act:muscle": [], "act:intvelocity": [], "act:position": [],
}
_NEEDS_HINGE_SLIDE = ("clampstack", "tendon:fixed", "eq:joint", "eq:tendon", "trn:joint", "trn:jointinparent", "trn:tendon",
                      "act:muscle", "act:intvelocity", "act:position", "tendon:limit", "tendon:frictionloss",
                      "sensor:jointpos", "sensor:jointvel", "sensor:jointactuatorfrc", "sensor:tendonpos", "sensor:tendonvel",
                      "sensor:tendonactuatorfrc", "limit", "frictionloss", "clamp:jnt_actfrcrange", "actgravcomp")
_NEEDS_SITES = ("tendon:spatial", "trn:site", "sensor:velocimeter", "sensor:gyro", "sensor:accelerometer", "sensor:force",
                "sensor:torque", "sensor:magnetometer", "sensor:touch")

# feature classes of doc/mjx.rst "Feature Parity" (MJX-JAX column) and of the option/flag list that the generator can produce in
# this sandbox (no HFIELD / MESH assets, no cameras/lights for CAMPROJECTION / RANGEFINDER); the quick tiers walk this agenda.
FEATURE_GENERAL = (
    ["jnt:free", "jnt:ball", "jnt:hinge", "jnt:slide", "geom:box", "geom:ellipsoid", "geom:cylinder", "limit", "frictionloss",
     "tendon:fixed", "tendon:spatial", "wrap:pulley", "wrap:sphere", "wrap:cylinder", "wrap:sidesite", "tendon:limit",
     "tendon:frictionloss", "eq:connect", "eq:weld", "eq:joint", "eq:tendon", "eq:inactive",
     "act:motor", "act:position", "act:velocity", "act:damper", "act:intvelocity", "act:muscle", "act:general",
     "trn:joint", "trn:jointinparent", "trn:ball", "trn:tendon", "trn:site", "dyn:integrator", "dyn:filter", "dyn:filterexact",
     "actearly", "gain:affine", "bias:affine", "clamp:ctrlrange", "clamp:forcerange", "clamp:actrange",
     "clamp:jnt_actfrcrange", "gravcomp", "actgravcomp", "clampstack", "clampstack", "fluid", "mocap", "solver:Newton",
     "solver:CG", "jac:dense", "jac:sparse", "jac:auto", "sensor_cutoff", "eq:inactive", "clampstack"])
FEATURE_CONTACT = ["plane", "margin", "pair", "exclude", "condim:1", "condim:3", "condim:4", "condim:6", "sensor:touch"]
FEATURE_FLAGS = ["dsbl:" + f for f in ("gravity", "clampctrl", "eulerdamp", "spring", "damper", "limit", "equality", "frictionloss",
                                        "actuation", "filterparent", "refsafe", "warmstart", "sensor", "contact")]


def feature_classes(tags):
    """normalise generator tags to the feature classes of FEATURE_GENERAL / FEATURE_CONTACT / feature_sensors()"""
    out = set()
    for t in tags:
        if t.startswith("act:"):
            out.add("act:" + t.split(":")[1])
        elif t.startswith(("dsbl:", "int:", "cone:", "not_generated:")) or t in PROFILES:
            continue
        else:
            out.add(t)
    return out


def feature_sensors():
    return ["sensor:" + k for k in SUPPORTED_SENSORS_POS + SUPPORTED_SENSORS_VEL + SUPPORTED_SENSORS_ACC]


def feature_agenda(seed, ncases, contact_case, per_general=6, per_sensor=5):
    """want-lists for `ncases` models: a rotation over all feature classes (offset by the seed) so that every class is forced
    into at least one model of the tier; contact-only classes go to the cases for which contact_case(i) is true."""
    gen, flg, con = list(dict.fromkeys(FEATURE_GENERAL)) + ["clampstack"], FEATURE_FLAGS, FEATURE_CONTACT
    sen = [x for x in feature_sensors() if x != "sensor:touch"]   # touch without candidate contacts raises (known finding)
    out, ci = [], 0
    for i in range(ncases):
        wl = [gen[(seed * 7 + i * per_general + j) % len(gen)] for j in range(per_general)]
        wl += [sen[(seed * 5 + i * per_sensor + j) % len(sen)] for j in range(per_sensor)]
        wl += [flg[(seed * 3 + i) % len(flg)], flg[(seed * 3 + i + len(flg) // 2) % len(flg)]]   # every flag in two models
        if contact_case(i):
            wl += [con[(seed + ci * 3 + j) % len(con)] for j in range(3)]
            ci += 1
        if i % 3 == 0 and "clampstack" not in wl:
            wl.append("clampstack")        # the two-clamps-on-one-dof interaction is cheap and was missed once (seed C43-a)
        if i % 4 == 1 and "eq:inactive" not in wl:
            wl.append("eq:inactive")       # compact (d.ne) vs static (ne) constraint-row offsets (seed C44-a)
        if "eq:inactive" in wl:
            wl += [x for x in ("frictionloss", "limit") if x not in wl]
            wl = [x for x in wl if x not in ("dsbl:equality", "dsbl:frictionloss")]
        out.append(wl)
    return out


PROFILES = {
    # p_* are probabilities; n_* ranges
    "smooth": dict(contact=False, plane=False, limits=0.0, friction=0.0, equality=0.0, gate=0.0, free=0.3),
    "constrained": dict(contact=False, plane=False, limits=0.6, friction=0.4, equality=0.7, gate=0.0, free=0.3),
    "eqonly": dict(contact=False, plane=False, limits=0.0, friction=0.0, equality=1.0, gate=0.0, free=0.3),
    "contact": dict(contact=True, plane=True, limits=0.3, friction=0.2, equality=0.2, gate=0.0, free=0.7),
    "gate": dict(contact=True, plane=True, limits=0.3, friction=0.2, equality=0.3, gate=1.0, free=0.5),
}


def gen_model(rng, profile="contact", nbody=None, integrator=None, sensors=True, tendons=True, actuators=True,
              mocap=None, small=False, userdata=0, safe=False, cone=None, want=()):
    """Return (xml, tags).  `tags` lists the features used (for distinct-case keys and triage).
    `want`: feature classes (see FEATURE_CLASSES) that this model MUST contain; the generator forces the corresponding
    random decisions and their prerequisites (the quick tiers walk an agenda over all classes, see feature_agenda())."""
    P = PROFILES[profile]
    tags = [profile]
    pending = set(want)
    # prerequisites
    for w_, needs in _WANT_NEEDS.items():
        if w_ in pending:
            pending |= set(needs)
    allwant = frozenset(pending)

    def w(t):            # wanted at all
        return t in allwant

    def take(t):         # wanted and not yet placed (force exactly once)
        if t in pending:
            pending.discard(t)
            return True
        return False
    want_joints = [t for t in ("free", "ball", "hinge", "slide") if w("jnt:" + t)]
    want_geoms = [t for t in ("box", "ellipsoid", "cylinder", "sphere", "capsule") if w("geom:" + t)]
    need_hs = any(w(t) for t in _NEEDS_HINGE_SLIDE)
    need_sites = 2 if any(w(t) for t in ("wrap:pulley", "wrap:sphere", "wrap:cylinder", "wrap:sidesite")) else \
        (1 if any(w(t) for t in _NEEDS_SITES) else 0)
    nbody = int(nbody if nbody is not None else rng.integers(2, 4 if small else 6))
    nbody = max(nbody, min(len(want_joints), 4), 2)
    integ = integrator or str(rng.choice(["Euler", "RK4", "implicitfast"], p=[0.45, 0.2, 0.35]))
    if w("fluid") and integ == "implicitfast":
        integ = "Euler"      # implicitfast + fluid is the documented gate
    cone_r = str(rng.choice(["pyramidal", "elliptic"]))
    cone = cone or cone_r
    if w("condim:1"):
        cone = "pyramidal"
    if safe and not P["contact"]:
        cone = "pyramidal"   # solver._update_constraint raises for elliptic cones without frictional contacts (finding)
    solver = str(rng.choice(["Newton", "CG"], p=[0.7, 0.3]))
    solver = "CG" if w("solver:CG") else ("Newton" if w("solver:Newton") else solver)
    jac = str(rng.choice(["dense", "sparse", "auto"], p=[0.5, 0.3, 0.2]))
    for j_ in ("dense", "sparse", "auto"):
        if w("jac:" + j_):
            jac = j_
    gate = None
    if rng.random() < P["gate"]:
        gate = str(rng.choice(["integrator_implicit", "solver_pgs", "sensor", "fluid_implicitfast", "cyl_box",
                               "ellipsoid_box", "noslip", "gravcomp_ok", "elliptic_condim1", "multiccd", "sdf_none",
                               "cyl_cyl"]))
        tags.append("gate:" + gate)
    if gate == "integrator_implicit":
        integ = "implicit"
    if gate == "solver_pgs":
        solver = "PGS"
    fluid = (rng.random() < 0.25 or w("fluid")) and integ != "implicitfast"
    if gate == "fluid_implicitfast":
        integ, fluid = "implicitfast", True
    tags += ["int:" + integ, "cone:" + cone, "solver:" + solver, "jac:" + jac]
    disable = []
    for flag, p in (("gravity", 0.1), ("clampctrl", 0.15), ("eulerdamp", 0.2), ("spring", 0.03), ("damper", 0.03),
                    ("limit", 0.08), ("equality", 0.08), ("frictionloss", 0.08), ("actuation", 0.04),
                    ("filterparent", 0.15), ("refsafe", 0.15), ("warmstart", 0.2), ("sensor", 0.04),
                    ("contact", 0.06)):
        if rng.random() < p or w("dsbl:" + flag):
            disable.append(flag)
    if rng.random() < 0.06:
        disable += [f for f in ("spring", "damper") if f not in disable]
    if integ == "RK4" and (("spring" in disable) != ("damper" in disable)):
        # NOT GENERATED: RK4 with exactly one of spring/damper disabled. The passive-forces finding is confirmed by feeding MJX the
        # missing force as a constant qfrc_applied, which is exact for one forward evaluation only, not for RK4's four stages
        disable = [f for f in disable if f not in ("spring", "damper")]
        tags.append("not_generated:rk4+spring-xor-damper-disabled")
    if not P["contact"] and "contact" not in disable:
        disable.append("contact")
    tags += ["dsbl:" + f for f in disable if f != "contact" or P["contact"]]
    opt = ['timestep="%s"' % _f(rng.choice([0.001, 0.002, 0.005, 0.01])), 'integrator="%s"' % integ,
           'cone="%s"' % cone, 'solver="%s"' % solver, 'jacobian="%s"' % jac,
           'iterations="%d"' % (100 if solver == "Newton" else 400), 'ls_iterations="50"', 'tolerance="1e-12"',
           'ls_tolerance="1e-6"', 'impratio="%s"' % _f(rng.choice([1, 1, 3, 10])),
           'gravity="%s"' % _f(rng.choice([1, 1, 0.3]) * np.array([0, 0, -9.81]) + (rng.random() < 0.3) * rng.normal(size=3))]
    if fluid:
        tags.append("fluid")
        opt += ['density="%s"' % _f(rng.uniform(1, 1000)), 'viscosity="%s"' % _f(rng.uniform(0, 0.1)),
                'wind="%s"' % _f(rng.normal(size=3))]
    if gate == "noslip":
        opt.append('noslip_iterations="3"')
    flags = " ".join('%s="disable"' % f for f in disable)
    if gate == "multiccd":
        flags += ' multiccd="enable"'
    X = ['<mujoco model="vf">', '<compiler angle="radian" autolimits="true"/>'] + \
        (['<size nuserdata="%d"/>' % userdata] if userdata else []) + [
         "<option %s><flag %s/></option>" % (" ".join(opt), flags),
         '<default><geom solref="%s" solimp="%s"/></default>'
         % (_f([rng.choice([0.02, 0.01, 0.05]), rng.choice([1, 0.7, 2])]), _f([0.9, 0.95, 0.001, 0.5, 2]))]
    W = ["<worldbody>"]
    if P["plane"] and (rng.random() < 0.8 or w("plane")):
        tags.append("plane")
        W.append('<geom name="floor" type="plane" size="5 5 0.1" conaffinity="3" condim="%d" friction="%s"/>'
                 % (rng.choice([1, 3, 3, 4, 6]) if not (cone == "elliptic" and gate != "elliptic_condim1") else
                    rng.choice([3, 3, 4, 6]), _f([rng.uniform(0.3, 1.2), 0.005, 0.0001])))
    if gate == "elliptic_condim1":
        cone_c1 = True
    geom_types = ["sphere", "capsule", "sphere", "capsule", "sphere", "capsule"]
    if rng.random() < (0.25 if P["contact"] else 0.6):
        geom_types += ["box"]
    if rng.random() < (0.15 if P["contact"] else 0.35):
        geom_types += ["ellipsoid"]
    if rng.random() < (0.15 if P["contact"] else 0.35):
        geom_types += ["cylinder"]
    nmocap = int(mocap if mocap is not None else (rng.random() < 0.25 or w("mocap")))
    want_condim = [c_ for c_ in (1, 3, 4, 6) if w("condim:%d" % c_)]
    stack = {"joint": None}    # clamp stack: gravcomp body x actuatorgravcomp joint x tight actuatorfrcrange x clamped actuator
    for k in range(nmocap):
        W.append('<body name="mocap%d" mocap="true" pos="%s" quat="%s"><site name="msite%d"/></body>'
                 % (k, _f(rng.uniform(-1, 1, 3) + [0, 0, 1]), _f(_quat(rng)), k))
        tags.append("mocap")
    # tree
    parent = [-1] + [int(rng.integers(-1 if rng.random() < 0.25 else 0, i)) for i in range(1, nbody)]
    children = {i: [] for i in range(-1, nbody)}
    for i, p in enumerate(parent):
        children[p].append(i)
    joints, hinge_slide, balls, sites, geoms = [], [], [], [], []
    bodyxml = {}
    visited = [0]
    collide_types = set()

    def body(i, depth):
        top = parent[i] < 0
        if top:
            pos = np.array([rng.uniform(-0.6, 0.6), rng.uniform(-0.6, 0.6), rng.uniform(0.03, 0.25) if P["contact"]
                            else rng.uniform(0.3, 1.0)])
        else:
            pos = rng.uniform(-0.3, 0.3, 3)
            if P["contact"]:
                pos *= 0.6
        visited[0] += 1
        last = visited[0] == nbody
        r = rng.random()
        if top and r < P["free"]:
            jt = ["free"]
        else:
            jt = [str(rng.choice(["hinge", "slide", "ball", "hinge"]))]
            if rng.random() < 0.25:
                jt.append("slide" if jt[0] == "ball" else str(rng.choice(["hinge", "slide"])))
            if top and rng.random() < 0.12 and not allwant:
                jt = []  # welded to world
        if want_joints and (want_joints[0] != "free" or top):
            jt = [want_joints.pop(0)]          # forced joint type (free only on a top-level body)
        elif want_joints and want_joints[0] == "free" and len(want_joints) > 1:
            jt = [want_joints.pop(1)]
        has_hs = any(t in ("hinge", "slide") for t in jt)
        do_stack = w("clampstack") and stack["joint"] is None and (last or (has_hs and rng.random() < 0.6))
        if ((do_stack and last) or (need_hs and last and not hinge_slide)) and not has_hs:
            jt = [t for t in jt if t != "free"] + ["slide" if "ball" in jt else str(rng.choice(["hinge", "slide"]))]
        s = ['<body name="b%d" pos="%s" quat="%s"%s>' % (i, _f(pos), _f(_quat(rng)),
                                                         (' gravcomp="%s"' % _f(rng.uniform(0.2, 1.2)))
                                                         if (rng.random() < 0.2 or do_stack or take("gravcomp")) else "")]
        if "gravcomp" in s[0]:
            tags.append("gravcomp")
        for t in jt:
            j = len(joints)
            name = "j%d" % j
            a = ['name="%s"' % name, 'type="%s"' % t]
            tags.append("jnt:" + t)
            if t != "free":
                a.append('pos="%s"' % _f(rng.uniform(-0.1, 0.1, 3)))
                if rng.random() < 0.6:
                    a.append('damping="%s"' % _f(rng.uniform(0.05, 2)))
                if rng.random() < 0.4:
                    a.append('stiffness="%s"' % _f(rng.uniform(1, 30)))
                    if t != "ball":
                        a.append('springref="%s"' % _f(rng.uniform(-0.3, 0.3)))
                if rng.random() < 0.4:
                    a.append('armature="%s"' % _f(rng.uniform(0.01, 0.3)))
                if rng.random() < P["friction"] or take("frictionloss"):
                    a.append('frictionloss="%s"' % _f(rng.uniform(0.05, 1)))
                    tags.append("frictionloss")
                if rng.random() < P["limits"] or take("limit"):
                    if t == "ball":
                        a.append('range="0 %s"' % _f(rng.uniform(0.05, 1.0)))
                    else:
                        lo = rng.uniform(-0.8, 0.1)
                        a.append('range="%s %s"' % (_f(lo), _f(lo + rng.uniform(0.05, 1.2))))
                    if rng.random() < 0.3:
                        a.append('margin="%s"' % _f(rng.uniform(0.002, 0.02)))  # < half the range: one side at a time
                    tags.extend(["limit:" + t, "limit"])
                stack_here = do_stack and stack["joint"] is None and t in ("hinge", "slide")
                if stack_here:
                    stack["joint"] = name
                    tags.append("clampstack")
                if stack_here or rng.random() < 0.2 or (t != "ball" and take("clamp:jnt_actfrcrange")):
                    # tight enough to engage against gravity compensation / actuator forces of the generated sizes
                    lim = rng.uniform(0.02, 0.5) if (stack_here or rng.random() < 0.6) else rng.uniform(0.5, 3)
                    a.append('actuatorfrcrange="%s %s"' % (_f(-lim * rng.uniform(0.5, 1.5)), _f(lim * rng.uniform(0.5, 1.5))))
                    tags.append("clamp:jnt_actfrcrange")
                if stack_here or rng.random() < 0.2 or take("actgravcomp"):
                    a.append('actuatorgravcomp="true"')
                    tags.append("actgravcomp")
            if t in ("hinge", "slide"):
                a.append('axis="%s"' % _f(_quat(rng)[:3]))
                hinge_slide.append(name)
            if t == "ball":
                balls.append(name)
            joints.append((name, t, i))
            s.append("<joint %s/>" % " ".join(a))
        if rng.random() < 0.25:
            s.append('<inertial pos="%s" quat="%s" mass="%s" diaginertia="%s"/>'
                     % (_f(rng.uniform(-0.05, 0.05, 3)), _f(_quat(rng)), _f(rng.uniform(0.2, 3)),
                        _f(np.sort(rng.uniform(0.01, 0.05, 3))[::-1] + 0.03)))
            tags.append("inertial")
        for g in range(int(rng.integers(1, 3))):
            gt = str(rng.choice(geom_types))
            if want_geoms and gate is None:
                gt = want_geoms.pop(0)
            if gate == "cyl_box" and i == 0 and g == 0:
                gt = "cylinder"
            if gate == "cyl_box" and i == 1 and g == 0:
                gt = "box"
            if gate == "ellipsoid_box" and i == 0 and g == 0:
                gt = "ellipsoid"
            if gate == "ellipsoid_box" and i == 1 and g == 0:
                gt = "box"
            if gate == "cyl_cyl" and i in (0, 1) and g == 0:
                gt = "cylinder"
            sz = {"sphere": [rng.uniform(0.04, 0.15)], "capsule": [rng.uniform(0.03, 0.08), rng.uniform(0.05, 0.2)],
                  "box": rng.uniform(0.04, 0.15, 3), "ellipsoid": rng.uniform(0.04, 0.15, 3),
                  "cylinder": [rng.uniform(0.04, 0.1), rng.uniform(0.04, 0.15)]}[gt]
            name = "g%d" % len(geoms)
            a = ['name="%s"' % name, 'type="%s"' % gt, 'size="%s"' % _f(sz),
                 'pos="%s"' % _f(rng.uniform(-0.08, 0.08, 3)), 'quat="%s"' % _f(_quat(rng)),
                 'density="%s"' % _f(rng.uniform(300, 2000))]
            if P["contact"]:
                cd = [1, 3, 3, 4, 6] if cone == "pyramidal" or gate == "elliptic_condim1" else [3, 3, 4, 6]
                cdv = int(want_condim.pop(0) if want_condim and (cone == "pyramidal" or want_condim[0] != 1) else rng.choice(cd))
                a.append('condim="%d"' % cdv)
                tags.append("condim:%d" % cdv)
                a.append('friction="%s"' % _f([rng.uniform(0.2, 1.5), rng.uniform(0.001, 0.01), rng.uniform(0.0001, 0.001)]))
                if rng.random() < 0.25 or take("margin"):
                    a.append('margin="%s"' % _f(rng.uniform(0.005, 0.05)))
                    if rng.random() < 0.5:
                        a.append('gap="%s"' % _f(rng.uniform(0.001, 0.004)))
                    tags.append("margin")
                if rng.random() < 0.2:
                    a.append('priority="%d"' % rng.integers(0, 3))
                if rng.random() < 0.2:
                    a.append('solmix="%s"' % _f(rng.uniform(0.1, 3)))
                # BOX-ELLIPSOID and BOX-CYLINDER have no MJX collision function (put_model raises): outside the gate profile
                # the later geom of such a pair only collides with the floor (contype 2 against the floor's conaffinity 3)
                clash = gate is None and ((gt in ("ellipsoid", "cylinder") and "box" in collide_types) or
                                          (gt == "box" and collide_types & {"ellipsoid", "cylinder"}))
                if clash:
                    a.append('contype="2" conaffinity="0"')
                    tags.append("geom:floor-only")
                else:
                    collide_types.add(gt)
                    if rng.random() < 0.15:
                        a.append('contype="%d" conaffinity="%d"' % (rng.integers(0, 4), rng.integers(0, 4)))
            tags.append("geom:" + gt)
            geoms.append((name, gt, i))
            s.append("<geom %s/>" % " ".join(a))
        for _ in range(max(int(rng.integers(0, 3)), need_sites)):
            name = "s%d" % len(sites)
            sites.append((name, i))
            s.append('<site name="%s" pos="%s" quat="%s" size="0.01"/>' % (name, _f(rng.uniform(-0.15, 0.15, 3)),
                                                                           _f(_quat(rng))))
        if rng.random() < 0.2:
            s.append('<camera name="c%d" pos="%s" quat="%s"/>' % (i, _f(rng.uniform(-0.2, 0.2, 3)), _f(_quat(rng))))
        for c in children[i]:
            s += body(c, depth + 1)
        s.append("</body>")
        return s

    for i in children[-1]:
        W += body(i, 0)
    W.append("</worldbody>")
    X += W
    # tendons
    tend = []
    T = []
    want_wrap = any(w(t) for t in ("wrap:pulley", "wrap:sphere", "wrap:cylinder", "wrap:sidesite"))
    if tendons and hinge_slide and (rng.random() < 0.5 or w("tendon:fixed")):
        k = int(rng.integers(1, min(3, len(hinge_slide)) + 1))
        js = rng.choice(hinge_slide, size=k, replace=False)
        a = _tendon_attrs(rng, P, tags, take)
        T.append("<fixed name=\"t%d\" %s>%s</fixed>" % (len(tend), a, "".join(
            '<joint joint="%s" coef="%s"/>' % (j, _f(rng.uniform(-2, 2))) for j in js)))
        tend.append("t%d" % len(tend))
        tags.append("tendon:fixed")
    if tendons and len(sites) >= 2 and (rng.random() < 0.5 or w("tendon:spatial")):
        k = int(rng.integers(2, min(4, len(sites)) + 1))
        if want_wrap:
            k = min(4, len(sites)) if len(sites) >= 3 else 2
        idx = rng.choice(len(sites), size=k, replace=False)
        path = []
        for n, ii in enumerate(idx):
            path.append('<site site="%s"/>' % sites[ii][0])
            if n == 1 and k >= 3 and (rng.random() < 0.3 or take("wrap:pulley")):
                path.append('<pulley divisor="%s"/>' % _f(rng.choice([1, 2, 3])))
                path.append('<site site="%s"/>' % sites[idx[1]][0])
                tags.append("wrap:pulley")
            elif n < k - 1 and (rng.random() < 0.35 or any(t in pending for t in ("wrap:sphere", "wrap:cylinder", "wrap:sidesite"))):
                cand = [g for g in geoms if g[1] in ("sphere", "cylinder")]
                for gt_ in ("cylinder", "sphere"):
                    if ("wrap:" + gt_) in pending and [g for g in cand if g[1] == gt_]:
                        cand = [g for g in cand if g[1] == gt_]
                        break
                if cand:
                    g = cand[int(rng.integers(len(cand)))]
                    pending.discard("wrap:" + g[1])
                    ss = ""
                    same = [x for x in sites if x[1] == g[2]]
                    if same and take("wrap:sidesite"):
                        ss = ' sidesite="%s"' % same[int(rng.integers(len(same)))][0]
                        tags.append("wrap:sidesite")
                    elif rng.random() < 0.4 and same and rng.random() < 0.9:
                        ss = ' sidesite="%s"' % same[int(rng.integers(len(same)))][0]
                        tags.append("wrap:sidesite")
                    elif rng.random() < 0.04:
                        other = [x for x in sites if x[1] != g[2]]
                        if other:
                            ss = ' sidesite="%s"' % other[int(rng.integers(len(other)))][0]
                            tags.append("wrap:sidesite-crossbody")
                    path.append('<geom geom="%s"%s/>' % (g[0], ss))
                    tags.append("wrap:" + g[1])
        a = _tendon_attrs(rng, P, tags, take, armature=not any("<geom " in x for x in path))
        T.append('<spatial name="t%d" %s>%s</spatial>' % (len(tend), a, "".join(path)))
        tend.append("t%d" % len(tend))
        tags.append("tendon:spatial")
    if T:
        X += ["<tendon>"] + T + ["</tendon>"]
    # actuators
    A = []
    acts = []
    if actuators and (joints or tend):
        # forced actuator slots: (kind or None, transmission or None, dyn or None)
        RESTRICTED = ("muscle", "intvelocity", "position")
        wk = [k_ for k_ in ("muscle", "intvelocity", "position", "motor", "velocity", "damper", "general") if w("act:" + k_)]
        wdyn = [d_ for d_ in ("integrator", "filter", "filterexact") if w("dyn:" + d_)]
        for d_ in wdyn:        # every wanted dyn type rides on a general actuator
            wk.append("general")
        if (w("actearly") or w("gain:affine") or w("bias:affine") or w("clamp:actrange")) and "general" not in wk:
            wk.append("general")
        wt = [t_ for t_ in ("site", "ball", "tendon", "jointinparent", "joint") if w("trn:" + t_)]
        slots = []
        if stack["joint"]:
            slots.append((str(rng.choice(["motor", "position", "general"])), "stack", None))
        for k_ in wk:
            if k_ in RESTRICTED:
                ok_t = [x for x in wt if x in ("tendon", "jointinparent", "joint")]
                if ok_t:
                    wt.remove(ok_t[0])
                slots.append((k_, ok_t[0] if ok_t else None, None))
            else:
                slots.append((k_, wt.pop(0) if wt else None, wdyn.pop(0) if (k_ == "general" and wdyn) else None))
        slots += [(None, t_, None) for t_ in wt]
        nact = max(int(rng.integers(1, 4)), len(slots))
        for ai in range(nact):
            fk, ft, fd = slots[ai] if ai < len(slots) else (None, None, None)
            kinds = []
            if hinge_slide:
                kinds += ["joint", "joint", "jointinparent"]
            if balls:
                kinds += ["ball"]
            if tend:
                kinds += ["tendon"]
            if sites:
                kinds += ["site"]
            if not kinds:
                break
            k = str(rng.choice(kinds))
            if ft == "stack":
                k = "joint"
            elif ft is not None and ft in kinds:
                k = ft
            elif fk in RESTRICTED and k in ("ball", "site"):
                k = str(rng.choice([x for x in kinds if x not in ("ball", "site")] or ["joint"]))
            trn = {"joint": lambda: 'joint="%s"' % (stack["joint"] if ft == "stack" else rng.choice(hinge_slide)),
                   "jointinparent": lambda: 'jointinparent="%s"' % rng.choice(hinge_slide),
                   "ball": lambda: 'joint="%s"' % rng.choice(balls),
                   "tendon": lambda: 'tendon="%s"' % rng.choice(tend),
                   "site": lambda: 'site="%s"%s' % (sites[int(rng.integers(len(sites)))][0],
                                                   (' refsite="%s"' % sites[int(rng.integers(len(sites)))][0])
                                                   if rng.random() < 0.4 else "")}[k]()
            gear = 'gear="%s"' % _f(rng.uniform(-2, 2, 6) if k in ("ball", "site") else [rng.uniform(0.3, 3)])
            name = "a%d" % len(acts)
            kind = str(rng.choice(["motor", "position", "velocity", "general", "general", "muscle", "intvelocity",
                                   "damper"]))
            if fk is not None:
                kind = fk
            if k in ("ball", "site") and kind in ("muscle", "intvelocity", "position"):
                kind = "motor"
            tags.append("trn:" + k)
            common = 'name="%s" %s %s' % (name, trn, gear)
            if (rng.random() < 0.5 or ft == "stack" or take("clamp:ctrlrange")) and kind not in ("muscle", "damper", "intvelocity"):
                common += ' ctrlrange="%s %s"' % (_f(-rng.uniform(0.2, 1)), _f(rng.uniform(0.2, 1)))
                tags.append("clamp:ctrlrange")
            if (rng.random() < 0.3 or ft == "stack" or take("clamp:forcerange")) and kind != "muscle":
                # half of them tight (engage for |ctrl| <= 1.5 and the generated gains), half wide
                fr = rng.uniform(0.05, 0.6) if rng.random() < 0.5 else rng.uniform(0.5, 5)
                common += ' forcerange="%s %s"' % (_f(-fr * rng.uniform(0.5, 1.5)), _f(fr * rng.uniform(0.5, 1.5)))
                tags.append("clamp:forcerange")
            if kind == "motor":
                A.append("<motor %s/>" % common)
            elif kind == "position":
                A.append('<position %s kp="%s" kv="%s"/>' % (common, _f(rng.uniform(1, 30)), _f(rng.uniform(0, 2))))
            elif kind == "velocity":
                A.append('<velocity %s kv="%s"/>' % (common, _f(rng.uniform(0.1, 5))))
            elif kind == "damper":
                A.append('<damper %s kv="%s" ctrlrange="0 %s"/>' % (common, _f(rng.uniform(0.1, 3)), _f(rng.uniform(0.5, 2))))
            elif kind == "intvelocity":
                A.append('<intvelocity %s kp="%s" actrange="%s %s"/>' % (common, _f(rng.uniform(1, 20)),
                                                                        _f(-rng.uniform(0.2, 1)), _f(rng.uniform(0.2, 1))))
                tags += ["clamp:actrange", "dyn:integrator", "gain:fixed", "bias:affine"]
            elif kind == "muscle":
                if k in ("joint", "jointinparent", "tendon"):
                    tags += ["dyn:muscle", "gain:muscle", "bias:muscle"]
                    A.append('<muscle %s lengthrange="%s %s" force="%s" timeconst="%s %s" tausmooth="%s"/>'
                             % (common, _f(rng.uniform(-1, 0.0)), _f(rng.uniform(0.3, 1.5)), _f(rng.uniform(5, 50)),
                                _f(rng.uniform(0.005, 0.05)), _f(rng.uniform(0.01, 0.08)), _f(rng.choice([0, 0.2]))))
                else:
                    A.append("<motor %s/>" % common)
                    kind = "motor"
            else:
                dyn = str(rng.choice(["none", "integrator", "filter", "filterexact"]))
                if fd is not None:
                    dyn = fd
                elif dyn == "none" and ("actearly" in pending or "clamp:actrange" in pending):
                    dyn = str(rng.choice(["integrator", "filter", "filterexact"]))
                gt_ = "affine" if take("gain:affine") else str(rng.choice(["fixed", "affine"]))
                bt_ = "affine" if take("bias:affine") else str(rng.choice(["none", "affine"]))
                extra = 'dyntype="%s" dynprm="%s" gaintype="%s" gainprm="%s" biastype="%s" biasprm="%s"' % (
                    dyn, _f(rng.uniform(0.01, 0.5)), gt_,
                    _f(rng.uniform(-2, 2, 3)), bt_, _f(rng.uniform(-2, 2, 3)))
                tags += ["dyn:" + dyn, "gain:" + gt_, "bias:" + bt_]
                if dyn != "none" and (rng.random() < 0.5 or take("clamp:actrange")):
                    extra += ' actlimited="true" actrange="%s %s"' % (_f(-rng.uniform(0.1, 1)), _f(rng.uniform(0.1, 1)))
                    tags.append("clamp:actrange")
                xor_sd = ("spring" in disable) != ("damper" in disable)
                if xor_sd and dyn != "none" and (w("actearly") or rng.random() < 0.3):
                    tags.append("not_generated:actearly+spring-xor-damper-disabled")   # untriaged combination (audit B6 follow-up)
                    pending.discard("actearly")
                elif not xor_sd and dyn != "none" and (rng.random() < 0.3 or take("actearly")):
                    extra += ' actearly="true"'
                    tags.append("actearly")
                A.append("<general %s %s/>" % (common, extra))
                kind = "general:" + dyn
            tags.append("act:%s:%s" % (kind, k))
            acts.append(name)
    if A:
        X += ["<actuator>"] + A + ["</actuator>"]
    # equality
    E = []
    weq = [k_ for k_ in ("connect", "weld", "joint", "tendon", "weldmocap") if w("eq:" + k_)]
    if rng.random() < P["equality"] or weq or w("eq:inactive"):
        for ei in range(max(int(rng.integers(1, 3)), len(weq), 2 if w("eq:inactive") else 0)):
            kinds = []
            if nbody >= 2:
                kinds += ["connect", "weld"]
            if len(hinge_slide) >= 1:
                kinds += ["joint"]
            if len(tend) >= 1:
                kinds += ["tendon"]
            if nmocap:
                kinds += ["weldmocap"]
            if not kinds:
                break
            if integ == "RK4" and (("spring" in disable) != ("damper" in disable)) and {"connect", "weld", "weldmocap"} & set(kinds):
                # untriaged combination: RK4 with the passive-forces and the Jdot*v differences active together
                kinds = [k_ for k_ in kinds if k_ not in ("connect", "weld", "weldmocap")]
                tags.append("not_generated:rk4+connect/weld+spring-xor-damper-disabled")
                if not kinds:
                    break
            k = str(rng.choice(kinds))
            if weq and weq[0] in kinds:
                k = weq.pop(0)
            elif weq:
                weq.pop(0)
            sol = 'solref="%s" solimp="%s"' % (_f([rng.choice([0.02, 0.05]), 1]), _f([0.9, 0.95, 0.001, 0.5, 2]))
            # inactive equalities make MuJoCo's compact constraint-row offsets (d.ne) differ from MJX's static ones (ne)
            act = "" if (rng.random() < 0.75 and not (ei > 0 and take("eq:inactive"))) else ' active="false"'
            if act:
                tags.append("eq:inactive")
                pending.discard("eq:inactive")
            if k == "connect":
                b1, b2 = rng.choice(nbody, 2, replace=False)
                two = ' body2="b%d"' % b2 if rng.random() < 0.6 else ""
                E.append('<connect body1="b%d"%s anchor="%s" %s%s/>' % (b1, two, _f(rng.uniform(-0.1, 0.1, 3)), sol, act))
            elif k == "weld":
                b1, b2 = rng.choice(nbody, 2, replace=False)
                two = ' body2="b%d"' % b2 if rng.random() < 0.6 else ""
                E.append('<weld body1="b%d"%s torquescale="%s" %s%s/>' % (b1, two, _f(rng.uniform(0.2, 2)), sol, act))
            elif k == "weldmocap":
                E.append('<weld body1="b%d" body2="mocap0" %s%s/>' % (rng.integers(nbody), sol, act))
            elif k == "joint":
                j1 = rng.choice(hinge_slide)
                two = ""
                if len(hinge_slide) >= 2 and rng.random() < 0.7:
                    j2 = rng.choice([j for j in hinge_slide if j != j1])
                    two = ' joint2="%s"' % j2
                E.append('<joint joint1="%s"%s polycoef="%s" %s%s/>' % (j1, two, _f(rng.uniform(-0.5, 0.5, 5) * [0.2, 2, 1, 0.5, 0.2]), sol, act))
            else:
                t1 = rng.choice(tend)
                two = ""
                if len(tend) >= 2 and rng.random() < 0.7:
                    two = ' tendon2="%s"' % [t for t in tend if t != t1][0]
                E.append('<tendon tendon1="%s"%s polycoef="%s" %s%s/>' % (t1, two, _f(rng.uniform(-0.5, 0.5, 5) * [0.2, 2, 1, 0.5, 0.2]), sol, act))
            tags.append("eq:" + k)
    if E:
        X += ["<equality>"] + E + ["</equality>"]
    # exclusions / pairs
    if P["contact"] and len(geoms) >= 2 and (rng.random() < 0.3 or w("pair")):
        g1, g2 = rng.choice(len(geoms), 2, replace=False)
        if w("pair") and geoms[g1][2] == geoms[g2][2]:
            other = [x for x in range(len(geoms)) if geoms[x][2] != geoms[g1][2]]
            g2 = other[int(rng.integers(len(other)))] if other else g2
        if geoms[g1][2] != geoms[g2][2]:
            X.append('<contact><pair geom1="%s" geom2="%s" condim="%d" friction="%s"/></contact>'
                     % (geoms[g1][0], geoms[g2][0], rng.choice([3, 4, 6] if cone == "elliptic" else [1, 3, 4, 6]),
                        _f(rng.uniform(0.2, 1.2, 5) * [1, 1, 0.01, 0.001, 0.001])))
            tags.append("pair")
    if P["contact"] and nbody >= 2 and (rng.random() < 0.2 or w("exclude")):
        b1, b2 = rng.choice(nbody, 2, replace=False)
        X.append('<contact><exclude body1="b%d" body2="b%d"/></contact>' % (b1, b2))
        tags.append("exclude")
    # sensors
    S = []
    if sensors:
        ns = int(rng.integers(2, 9))
        pool = SUPPORTED_SENSORS_POS + SUPPORTED_SENSORS_VEL + SUPPORTED_SENSORS_ACC
        kinds = list(rng.choice(pool, size=ns)) + [t[7:] for t in sorted(allwant) if t.startswith("sensor:")]
        if safe:
            kinds = [k for k in kinds if k != "touch"]   # sensor_acc raises for touch sensors without candidate contacts
        if gate == "sensor":
            kinds.append(str(rng.choice(GATE_SENSORS)))
        for k in kinds:
            k = str(k)
            nocut = k in ("framexaxis", "frameyaxis", "framezaxis", "framequat", "ballquat", "ballangvel", "clock")
            cut = ' cutoff="%s"' % _f(rng.uniform(0.05, 5)) if (rng.random() < 0.15 or (not nocut and take("sensor_cutoff"))) else ""
            if k in ("framexaxis", "frameyaxis", "framezaxis", "framequat", "ballquat"):
                cut = ""
            s = None
            if k in ("jointpos", "jointvel", "jointactuatorfrc", "jointlimitpos", "jointlimitfrc") and hinge_slide:
                s = '<%s joint="%s"%s/>' % (k, rng.choice(hinge_slide), cut)
            elif k in ("ballquat", "ballangvel") and balls:
                s = '<%s joint="%s"/>' % (k, rng.choice(balls))
            elif k in ("actuatorpos", "actuatorvel", "actuatorfrc") and acts:
                s = '<%s actuator="%s"%s/>' % (k, rng.choice(acts), cut)
            elif k in ("tendonpos", "tendonvel", "tendonactuatorfrc", "tendonlimitpos") and tend:
                s = '<%s tendon="%s"%s/>' % (k, rng.choice(tend), cut)
            elif k in ("velocimeter", "gyro", "accelerometer", "force", "torque", "magnetometer", "touch") and sites:
                s = '<%s site="%s"%s/>' % (k, sites[int(rng.integers(len(sites)))][0], cut)
            elif k.startswith("frame"):
                objs = [("body", "b%d" % rng.integers(nbody)), ("xbody", "b%d" % rng.integers(nbody))]
                if sites:
                    objs.append(("site", sites[int(rng.integers(len(sites)))][0]))
                if geoms:
                    objs.append(("geom", geoms[int(rng.integers(len(geoms)))][0]))
                ot, on = objs[int(rng.integers(len(objs)))]
                ref = ""
                if rng.random() < 0.35 and k not in ("framelinacc", "frameangacc"):
                    rt, rn = objs[int(rng.integers(len(objs)))]
                    ref = ' reftype="%s" refname="%s"' % (rt, rn)
                    tags.append("sensor:ref")
                s = '<%s objtype="%s" objname="%s"%s%s/>' % (k, ot, on, ref, cut)
            elif k.startswith("subtree"):
                s = '<%s body="b%d"%s/>' % (k, rng.integers(nbody), cut)
            elif k == "clock":
                s = "<clock/>"
            elif k in ("e_potential", "e_kinetic"):
                s = "<%s/>" % k
            if s:
                S.append(s)
                tags.append("sensor:" + k)
                if cut and cut in s:
                    tags.append("sensor_cutoff")
    if S:
        X += ["<sensor>"] + S + ["</sensor>"]
    X.append("</mujoco>")
    xml = "\n".join(X)
    if integ == "implicitfast" and gate is None and any(t == "free" for _, t, _ in joints):
        # NOT GENERATED: implicitfast with a free-joint body in the random profiles. The C engine treats free bodies specially
        # in implicitfast (computation/index.rst: gyroscopic derivatives reinstated with a local solve), MJX does not, and the
        # check's recomputation of C's update - needed to confirm the known qDeriv findings - does not validate on such models
        xml = xml.replace('integrator="implicitfast"', 'integrator="Euler"', 1)
        tags = [t for t in tags if t != "int:implicitfast"] + ["int:Euler", "not_generated:implicitfast+free-joint-body"]
    return xml, sorted(set(tags))


def _tendon_attrs(rng, P, tags, take=lambda t: False, armature=True):
    a = []
    if rng.random() < 0.5:
        a.append('stiffness="%s"' % _f(rng.uniform(1, 50)))
        if rng.random() < 0.5:
            a.append('springlength="%s"' % _f(rng.uniform(0, 0.4)))
    if rng.random() < 0.5:
        a.append('damping="%s"' % _f(rng.uniform(0.1, 3)))
    if rng.random() < P["friction"] or take("tendon:frictionloss"):
        a.append('frictionloss="%s"' % _f(rng.uniform(0.05, 1)))
        tags.append("tendon:frictionloss")
    if rng.random() < P["limits"] or take("tendon:limit"):
        lo = rng.uniform(-0.5, 0.3)
        a.append('range="%s %s"' % (_f(lo), _f(lo + rng.uniform(0.05, 1.0))))
        tags.append("tendon:limit")
    if rng.random() < 0.2 and armature:     # the compiler rejects armature on a tendon that wraps a geom
        a.append('armature="%s"' % _f(rng.uniform(0.01, 0.2)))
        tags.append("tendon:armature")
    return " ".join(a)


# ------------------------------------------------------------------------------------------------------------------
# capsule-capsule workload: clipped segment-segment configurations
def segment_segment(a0, a1, b0, b1):
    """Exact closest points of two segments (Ericson, Real-Time Collision Detection 5.1.9) -> (pa, pb, s, t)."""
    d1, d2, r = a1 - a0, b1 - b0, a0 - b0
    a, e, f = d1 @ d1, d2 @ d2, d2 @ r
    c, b = d1 @ r, d1 @ d2
    den = a * e - b * b
    s = np.clip((b * f - c * e) / den, 0.0, 1.0) if den > 1e-12 else 0.0
    t = (b * s + f) / e
    if t < 0.0:
        t, s = 0.0, np.clip(-c / a, 0.0, 1.0)
    elif t > 1.0:
        t, s = 1.0, np.clip((b - c) / a, 0.0, 1.0)
    return a0 + s * d1, b0 + t * d2, float(s), float(t)


def _clip_only_gap(a0, a1, b0, b1):
    """distance of the pair obtained by clipping the line-line solution to both segments independently, minus the true
    segment-segment distance: > 0 iff the closest points of the infinite lines fall outside a segment in a way that matters"""
    da, db = a1 - a0, b1 - b0
    la, lb = np.linalg.norm(da), np.linalg.norm(db)
    da, db = da / la, db / lb
    am, bm = 0.5 * (a0 + a1), 0.5 * (b0 + b1)
    tr = am - bm
    ab = da @ db
    den = 1 - ab * ab
    if den < 1e-9:
        return 0.0
    ta = (-(da @ tr) + ab * (db @ tr)) / den
    tb = db @ tr + ta * ab
    pa = am + da * np.clip(ta, -la / 2, la / 2)
    pb = bm + db * np.clip(tb, -lb / 2, lb / 2)
    qa, qb, _, _ = segment_segment(a0, a1, b0, b1)
    return float(np.linalg.norm(pa - pb) - np.linalg.norm(qa - qb))


def gen_capcap(rng, integrator=None):
    """Four free capsules (two pairs, 2 m apart). States come from capcap_states()."""
    integ = integrator or str(rng.choice(["Euler", "implicitfast"]))
    cone = str(rng.choice(["pyramidal", "elliptic"]))
    solver = str(rng.choice(["Newton", "CG"], p=[0.7, 0.3]))
    jac = str(rng.choice(["dense", "sparse"]))
    tags = ["capcap", "contact", "int:" + integ, "cone:" + cone, "solver:" + solver, "jac:" + jac, "geom:capsule", "jnt:free"]
    X = ['<mujoco model="capcap">',
         '<option timestep="0.002" integrator="%s" cone="%s" solver="%s" jacobian="%s" iterations="%d" ls_iterations="50" '
         'tolerance="1e-12" ls_tolerance="1e-6" gravity="0 0 -9.81"/>' % (integ, cone, solver, jac, 100 if solver == "Newton" else 400),
         '<default><geom solref="0.02 1" solimp="0.9 0.95 0.001 0.5 2"/></default>', "<worldbody>"]
    for i in range(4):
        X.append('<body name="b%d" pos="%s"><joint name="j%d" type="free"/><geom name="g%d" type="capsule" size="%s" condim="%d" '
                 'friction="%s" density="%s"/></body>'
                 % (i, _f([2.0 * (i // 2), 0.5 * (i % 2), 1.0]), i, i, _f([rng.uniform(0.03, 0.07), rng.uniform(0.12, 0.3)]),
                    rng.choice([3, 3, 4, 6] if cone == "elliptic" else [1, 3, 4, 6]),
                    _f([rng.uniform(0.3, 1.2), rng.uniform(0.001, 0.01), rng.uniform(0.0001, 0.001)]), _f(rng.uniform(300, 2000))))
    X += ["</worldbody>", "</mujoco>"]
    return "\n".join(X), sorted(tags)


def capcap_states(R, rng, m, d, nstates):
    """States in which each pair of capsules penetrates by 2..25 mm in a CLIPPED configuration: the closest points of the two
    axis LINES lie outside at least one segment, so that the clip-then-refine logic of the narrow phase decides the contact
    (end cap against side, end cap against end cap, crossing lines whose segments do not cross), never near-parallel."""
    mj = R.mujoco
    out = []
    for _ in range(nstates):
        mj.mj_resetData(m, d)
        for p in range(2):
            ga, gb = 2 * p, 2 * p + 1
            ra, ha = m.geom_size[ga][:2]
            rb, hb = m.geom_size[gb][:2]
            ca = np.array([2.0 * p, 0.0, 1.0]) + rng.uniform(-0.2, 0.2, 3)
            qa = _quat(rng)
            for _try in range(20000):
                qb = _quat(rng)
                cb = ca + rng.normal(size=3) * (ha + hb) * 0.6
                za, zb = np.zeros(9), np.zeros(9)
                mj.mju_quat2Mat(za, qa)
                mj.mju_quat2Mat(zb, qb)
                za, zb = za.reshape(3, 3)[:, 2], zb.reshape(3, 3)[:, 2]
                a0, a1, b0, b1 = ca - ha * za, ca + ha * za, cb - hb * zb, cb + hb * zb
                pa, pb, s_, t_ = segment_segment(a0, a1, b0, b1)
                dist = np.linalg.norm(pa - pb)
                pen = ra + rb - dist
                if 0.002 < pen < 0.025 and abs(za @ zb) < 0.9 and _clip_only_gap(a0, a1, b0, b1) > 0.02:
                    break
            else:
                raise RuntimeError("capcap_states: no clipped configuration found")
            for g, c, q in ((ga, ca, qa), (gb, cb, qb)):
                adr = m.jnt_qposadr[m.body_jntadr[m.geom_bodyid[g]]]
                d.qpos[adr:adr + 3] = c
                d.qpos[adr + 3:adr + 7] = q
        d.qvel[:] = rng.normal(size=m.nv) * rng.choice([0.0, 0.3, 1.0])
        d.qacc_warmstart[:] = rng.normal(size=m.nv)
        d.time = float(rng.uniform(0, 3))
        out.append(state_dict(m, d))
    return out


# ------------------------------------------------------------------------------------------------------------------
def random_state(R, rng, m, d, scale=1.0, vel=1.0):
    """Fill the wheel's MjData with a random state / control / applied forces (in place)."""
    mj = R.mujoco
    mj.mj_resetData(m, d)
    if m.nv:
        dq = rng.normal(size=m.nv) * 0.4 * scale
        q = d.qpos.copy()
        mj.mj_integratePos(m, q, dq, 1.0)
        d.qpos[:] = q
        d.qvel[:] = rng.normal(size=m.nv) * vel
        d.qacc_warmstart[:] = rng.normal(size=m.nv)
        d.qfrc_applied[:] = rng.normal(size=m.nv) * (rng.random() < 0.5)
    if m.nu:
        d.ctrl[:] = rng.uniform(-1.5, 1.5, m.nu)
    if m.na:
        d.act[:] = rng.uniform(-0.5, 1.2, m.na)
        for i in range(m.nu):
            if m.actuator_dyntype[i] == mj.mjtDyn.mjDYN_MUSCLE or m.actuator_gaintype[i] == mj.mjtGain.mjGAIN_MUSCLE:
                d.ctrl[i] = rng.uniform(0, 1)
                if m.actuator_actadr[i] >= 0:
                    d.act[m.actuator_actadr[i]] = rng.uniform(0, 1)
    if rng.random() < 0.5:
        d.xfrc_applied[1:] = rng.normal(size=(m.nbody - 1, 6))
    if m.nmocap:
        d.mocap_pos[:] += rng.normal(size=(m.nmocap, 3)) * 0.2
        qq = rng.normal(size=(m.nmocap, 4))
        d.mocap_quat[:] = qq / np.linalg.norm(qq, axis=1, keepdims=True)
    if m.neq and rng.random() < 0.5:
        # run-time (de)activation: MuJoCo's compact row offsets (d.ne) then differ from MJX's static ones (ne)
        d.eq_active[:] = rng.integers(0, 2, m.neq)
        if rng.random() < 0.5:
            d.eq_active[int(rng.integers(m.neq))] = 0
    d.time = float(rng.uniform(0, 3))
    if m.nuserdata:
        d.userdata[:] = rng.normal(size=m.nuserdata)


def state_dict(m, d):
    return {k: np.array(getattr(d, k)).tolist() for k in
            ("qpos", "qvel", "act", "ctrl", "qfrc_applied", "xfrc_applied", "mocap_pos", "mocap_quat", "eq_active",
             "qacc_warmstart", "userdata")} | {"time": float(d.time)}


def set_state_dict(m, d, s):
    for k, v in s.items():
        if k == "time":
            d.time = float(v)
        else:
            a = getattr(d, k)
            if a.size:
                a[:] = np.asarray(v, dtype=a.dtype).reshape(a.shape)


def selftest():
    R = load()
    print("mjx", R.mjx.__file__, "wheel", R.wheel)
    rng = np.random.default_rng(0)
    ok = rej = bad = 0
    for i in range(60):
        xml, tags = gen_model(rng, ["smooth", "constrained", "contact", "gate"][i % 4])
        try:
            m = R.mujoco.MjModel.from_xml_string(xml)
        except Exception as e:
            bad += 1
            print("XMLERR", str(e)[:200], tags)
            continue
        try:
            R.mjx.put_model(m)
            ok += 1
        except NotImplementedError as e:
            rej += 1
    print("accepted", ok, "rejected", rej, "xml errors", bad)


if __name__ == "__main__":
    selftest()
