"""Enum constants parsed from the tree's public headers at import time (so they track the tree)."""
import re
from . import build

_cache = {}


def _parse():
    vals = {}
    for h in sorted((build.REPO / "include" / "mujoco").glob("*.h")):
        txt = h.read_text(errors="replace")
        txt = re.sub(r"//[^\n]*", "", txt)
        txt = re.sub(r"/\*.*?\*/", "", txt, flags=re.S)
        for m in re.finditer(r"typedef\s+enum\s+\w*\s*\{(.*?)\}\s*(\w+)\s*;", txt, flags=re.S):
            body = m.group(1)
            cur = -1
            for item in body.split(","):
                item = item.strip()
                if not item:
                    continue
                if "=" in item:
                    name, expr = [x.strip() for x in item.split("=", 1)]
                    try:
                        cur = int(eval(" ".join(expr.split()), {"__builtins__": {}}, dict(vals)))
                    except Exception:
                        continue
                else:
                    name = item
                    cur += 1
                if re.match(r"^\w+$", name):
                    vals[name] = cur
        for m in re.finditer(r"#define\s+(mj[A-Z_0-9a-z]+)\s+([-+0-9.eE]+|\(?[-+0-9.eE*/ ()]+\)?)\s*\n", txt):
            try:
                vals.setdefault(m.group(1), eval(m.group(2), {"__builtins__": {}}, {}))
            except Exception:
                pass
    return vals


class _E:
    def __getattr__(self, k):
        if not _cache:
            _cache.update(_parse())
        try:
            return _cache[k]
        except KeyError:
            raise AttributeError(k)

    def all(self):
        if not _cache:
            _cache.update(_parse())
        return dict(_cache)


E = _E()
