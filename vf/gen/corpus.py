"""Corpus of XML models shipped in the repository that load and step in the verification build."""
import hashlib
import json
import os
from pathlib import Path

from .. import build, par
from ..mjconst import E


def all_xml():
    out = []
    for root in ("model", "test"):
        for p in sorted((build.REPO / root).rglob("*.xml")):
            out.append(str(p.relative_to(build.REPO)))
    return out


def _probe(case):
    from .. import drv
    L = drv.Lib("rel")
    try:
        m = L.load_xml(str(build.REPO / case))
    except drv.MjError as e:
        return {"ok": False, "err": str(e)[:200]}
    try:
        d = m.make_data()
        d.step(3)
        r = {"ok": True, "nq": m.n("nq"), "nv": m.n("nv"), "nbody": m.n("nbody"), "ngeom": m.n("ngeom"), "nu": m.n("nu"),
             "na": m.n("na"), "nflex": m.n("nflex"), "nmesh": m.n("nmesh"), "neq": m.n("neq"), "ntendon": m.n("ntendon"),
             "nsensor": m.n("nsensor"), "nplugin": m.n("nplugin"), "nkey": m.n("nkey"), "nmocap": m.n("nmocap"),
             "ntree": m.n("ntree"), "nhistory": m.n("nhistory"), "nuserdata": m.n("nuserdata"),
             "sleep": bool(m.opt["enableflags"] & E.mjENBL_SLEEP), "ncon": d.s("ncon"), "nefc": d.s("nefc"),
             "npluginstate": m.n("npluginstate")}
    except drv.MjError as e:
        return {"ok": False, "err": "step: " + str(e)[:200]}
    d.free()
    m.free()
    return r


def loadable(refresh=False):
    """list of dict(path=..., nq=..., ...) for every corpus model that loads and steps."""
    lib = build.ensure("rel")
    key = hashlib.sha256((str(lib) + str(build.REPO)).encode()).hexdigest()[:16]
    cache = build.BUILD / ("corpus-%s.json" % key)
    if cache.exists() and not refresh:
        return json.loads(cache.read_text())
    files = all_xml()
    res = par.run("vf.gen.corpus", "_probe", files, nproc=16, timeout=120)
    out = []
    for f, r in zip(files, res):
        if r and r.get("ok"):
            r = dict(r)
            r["path"] = f
            out.append(r)
    tmp = str(cache) + ".tmp%d" % os.getpid()
    Path(tmp).write_text(json.dumps(out))
    os.replace(tmp, cache)
    for old in build.BUILD.glob("corpus-*.json"):
        if old != cache and old.stat().st_mtime < cache.stat().st_mtime - 86400:
            old.unlink(missing_ok=True)
    return out
