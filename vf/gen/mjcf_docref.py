"""The documented MJCF language: attribute types / arities / required status read from doc/XMLreference.rst (C37 oracle).

XMLreference.rst documents every attribute as

    .. _<element label>-<attr>:

    :at:`attr`: :at-val:`<type>, required | optional | "<default>"`

with <type> one of  string | int | int(N) | real | real(N) | [kw1, kw2, ...]  ("Attribute types" section of the same file;
N omitted = 1; N may be symbolic, e.g. real(size), int(2*n)).  The element label is `<parent tag>-<tag>` (`body-geom`,
`flexcomp-pin`, `instance-config`) or the bare tag for sections and meta-elements (`option`, `size`, `frame`).

parse(repo) -> {element label: {attr: DocAttr}}.   Only lines that carry an :at-val: are used; attribute groups that are
documented by reference ("See :ref:`CSensor`") carry no type information and are left to the schema file.
"""
import re

_AT = re.compile(r"^:at:`([^`]+)`\s*:\s*:at-val:`([^`]*)`")
_LABEL = re.compile(r"^\.\. _([A-Za-z0-9_.-]+):\s*$")
_HEAD = re.compile(r"^(?::el-prefix:`([^`]*)` \|-\| )?\*\*(?:\(world\))?(\w+)\*\* \|(.)\|")


class DocAttr:
    __slots__ = ("name", "base", "n", "keywords", "required", "status_known", "raw", "text")
    # base: 'string' | 'int' | 'real' | 'enum' | None (unparsed);  n: int (exact documented length) | None (symbolic/unknown)

    def __repr__(self):
        return "D(%s:%s(%s)%s)" % (self.name, self.base, self.n, " req" if self.required else "")


def _split_top(s):
    """split at commas outside (), [] and quotes"""
    out, cur, depth, q = [], "", 0, False
    for c in s:
        if c == '"':
            q = not q
        if not q:
            if c in "([":
                depth += 1
            elif c in ")]":
                depth -= 1
            elif c == "," and depth == 0:
                out.append(cur.strip())
                cur = ""
                continue
        cur += c
    out.append(cur.strip())
    return out


def parse_atval(name, spec):
    d = DocAttr()
    d.name, d.raw, d.base, d.n, d.keywords, d.required, d.text = name, spec, None, None, None, False, ""
    parts = _split_top(spec)
    t = parts[0] if parts else ""
    status = parts[1] if len(parts) > 1 else ""
    d.required = status == "required"
    d.status_known = bool(status)          # a few entries give the type only ("string"): no statement about presence
    m = re.fullmatch(r"\[(.*)\]", t)
    if m:
        d.base = "enum"
        d.keywords = [k.strip() for k in m.group(1).split(",") if k.strip()]
        return d
    m = re.fullmatch(r"(string|int|real)(?:\((.*)\))?", t)
    if m:
        d.base = m.group(1)
        if m.group(2) is None:
            d.n = 1
        elif re.fullmatch(r"\d+", m.group(2).strip()):
            d.n = int(m.group(2))
        else:
            d.n = None
    return d


def parse(repo):
    lines = (repo / "doc" / "XMLreference.rst").read_text().splitlines()
    out = {}
    cur_el = None
    labels = []            # labels since the last non-blank, non-label line
    i = 0
    while i < len(lines):
        l = lines[i]
        m = _LABEL.match(l)
        if m:
            labels.append(m.group(1))
            i += 1
            continue
        if not l.strip():
            i += 1
            continue
        h = _HEAD.match(l)
        if h:
            pre = (h.group(1) or "").rstrip("/")
            cur_el = (pre + "-" + h.group(2)) if pre else h.group(2)
            out.setdefault(cur_el, {})
        else:
            a = _AT.match(l)
            if a:
                name = a.group(1)
                el = cur_el
                for lab in labels:                      # the attribute's own anchor names its element
                    if lab.endswith("-" + name):
                        el = lab[:-len(name) - 1]
                        break
                if el is not None:
                    d = parse_atval(name, a.group(2))
                    body = []
                    j = i + 1
                    while j < len(lines) and (lines[j].startswith("   ") or not lines[j].strip()):
                        body.append(lines[j].strip())
                        j += 1
                    d.text = " ".join(b for b in body if b)
                    out.setdefault(el, {})[name] = d
        labels = []
        i += 1
    return out


_RANGE_PATTERNS = [
    # (regex over the attribute's paragraph, facet)  -- only explicit statements of an admissible numeric range
    (re.compile(r"\bmust be (?:strictly )?positive\b|\bmust be greater than (?:zero|0)\b", re.I), "positive"),
    (re.compile(r"\bmust be non-?negative\b|\bcannot be negative\b|\bnegative values are not allowed\b", re.I), "min0"),
]


def stated_range(d):
    """-> set of facets ('positive', 'min0') that the attribute's documentation paragraph states explicitly"""
    out = set()
    for rx, f in _RANGE_PATTERNS:
        if rx.search(d.text or ""):
            out.add(f)
    return out


def _selftest():
    a = parse_atval("id", "int(n), required")
    assert (a.base, a.n, a.required) == ("int", None, True)
    a = parse_atval("angle", '[radian, degree], "degree"')
    assert a.base == "enum" and a.keywords == ["radian", "degree"] and not a.required
    a = parse_atval("pos", 'real(3), "0 0 0"')
    assert (a.base, a.n, a.required) == ("real", 3, False)
    a = parse_atval("file", "string, optional")
    assert (a.base, a.n, a.required) == ("string", 1, False)
    return True


if __name__ == "__main__":
    print(_selftest())
