"""Constraint-rich scenes for the solver / constraint-cost checks (C10, C12).

make(L, c) builds the model of case dict `c`, widens the spread of the constraint parameters directly in the compiled
model (friction coefficients incl. very small, solimp so that efc_R spans many decades, friction loss), puts the system
into a random state, lets it evolve for c["steps"] steps so that real contacts/limits are active, and returns (m, d).
"""
import numpy as np

from .. import common, drv
from ..mjconst import E
from . import model, piles


def gen_xml(c):
    rng = np.random.default_rng(c["mseed"])
    kind = c["kind"]
    if kind == "pile":
        xml = piles.pile_xml(rng, nclusters=int(rng.integers(1, 4)), per=int(rng.integers(2, 6)), condim=c.get("condim", "mix"),
                             spacing=float(rng.choice([0.3, 3.0])), multi_geom=0.4)
        # explicit contact pairs between geoms that certainly touch (floor vs pile geoms, neighbours in a cluster): the only way to
        # get a contact whose two tangential friction coefficients differ (geom-derived contacts always have friction[0] == friction[1])
        import re
        names = re.findall(r'<geom name="(g\d+)"', xml)
        if names and rng.random() < 0.6:
            prs = []
            for g in names:
                if rng.random() < 0.5:
                    prs.append(("floor", g))
            for a, b in zip(names, names[1:]):
                if rng.random() < 0.4:
                    prs.append((a, b))
            el = []
            for a, b in prs:
                fr = [float(logu(rng, 0.05, 2.0)), float(logu(rng, 0.05, 2.0)), float(logu(rng, 1e-3, 0.1)), float(logu(rng, 1e-4, 0.02)), float(logu(rng, 1e-4, 0.02))]
                if rng.random() < 0.25:
                    fr[1] = fr[0]                      # isotropic control
                el.append('<pair geom1="%s" geom2="%s" condim="%d" friction="%s"/>' % (a, b, int(rng.choice([3, 3, 4, 6])), " ".join(repr(x) for x in fr)))
            if el:
                xml = xml.replace("</mujoco>", "<contact>" + "".join(el) + "</contact></mujoco>")
        return xml
    over = dict(sensors=0, frictionloss=0.6, limits=0.7, equalities=3, tendons=2, condim=0.8, geom_friction=0.5, mocap=0.0,
                nbody=(3, 10))
    over.update(c.get("over", {}))
    return model.gen_profile(rng, kind, **over)[0]


def logu(rng, lo, hi, size=None):
    return np.exp(rng.uniform(np.log(lo), np.log(hi), size=size))


def widen_parameters(m, rng, level=1.0):
    """spread friction / impedance / friction-loss parameters of the compiled model (all stay inside documented ranges)"""
    ng = m.n("ngeom")
    if ng:
        cd = m["geom_condim"]
        u = rng.random()
        if u < 0.12:                      # frictionless scene (condim 1 everywhere)
            cd[:] = 1
        elif u < 0.4:                     # contact dimension is the max over the pair: vary the floor / first geom too
            cd[0] = int(rng.choice([1, 3, 4, 6]))
        fr = m["geom_friction"]
        sel = rng.random(ng) < 0.6 * level
        fr[sel, 0] = logu(rng, 1e-4, 3.0, size=int(sel.sum()))
        fr[sel, 1] = logu(rng, 1e-5, 0.3, size=int(sel.sum()))
        fr[sel, 2] = logu(rng, 1e-5, 0.1, size=int(sel.sum()))
        si = m["geom_solimp"]
        sel = rng.random(ng) < 0.6 * level
        d0 = 1 - logu(rng, 1e-4, 0.9, size=ng)
        d1 = 1 - logu(rng, 1e-4, 0.9, size=ng)
        si[sel, 0] = d0[sel]
        si[sel, 1] = d1[sel]
        sr = m["geom_solref"]
        sel = rng.random(ng) < 0.4 * level
        sr[sel, 0] = logu(rng, 0.003, 0.1, size=int(sel.sum()))
        sr[sel, 1] = rng.uniform(0.3, 2.0, size=int(sel.sum()))
    nv = m.n("nv")
    if nv:
        fl = m["dof_frictionloss"]
        nz = fl > 0
        fl[nz] = logu(rng, 1e-3, 30.0, size=int(nz.sum()))
        si = m["dof_solimp"]
        sel = rng.random(nv) < 0.5 * level
        si[sel, 0] = 1 - logu(rng, 1e-4, 0.9, size=int(sel.sum()))
        si[sel, 1] = si[sel, 0]
    nj = m.n("njnt")
    if nj:
        si = m["jnt_solimp"]
        sel = rng.random(nj) < 0.5 * level
        si[sel, 0] = 1 - logu(rng, 1e-4, 0.9, size=int(sel.sum()))
        si[sel, 1] = 1 - logu(rng, 1e-4, 0.9, size=int(sel.sum()))
    ne = m.n("neq")
    if ne:
        si = m["eq_solimp"]
        sel = rng.random(ne) < 0.5 * level
        si[sel, 0] = 1 - logu(rng, 1e-4, 0.9, size=int(sel.sum()))
        si[sel, 1] = si[sel, 0]
    nt = m.n("ntendon")
    if nt:
        fl = m["tendon_frictionloss"]
        sel = rng.random(nt) < 0.5
        fl[sel] = logu(rng, 1e-3, 10.0, size=int(sel.sum()))
    npair = m.n("npair")
    if npair:
        pf = m["pair_friction"]
        sel = rng.random(npair) < 0.5
        pf[sel] = logu(rng, 1e-4, 2.0, size=(int(sel.sum()), pf.shape[1]))


def make(L, c):
    """-> (m, d) or raises drv.MjError. c: kind, mseed, sseed, steps, cone, impratio, widen(bool)"""
    xml = c.get("xml") or gen_xml(c)
    c["_xml"] = xml
    m = L.load_xml_string(xml)
    rng = np.random.default_rng(c["sseed"])
    m.opt["enableflags"] = int(m.opt["enableflags"]) & ~int(E.mjENBL_SLEEP)
    m.opt["noslip_iterations"] = 0
    if c.get("widen", True):
        widen_parameters(m, rng)
    if "impratio" in c:
        m.opt["impratio"] = float(c["impratio"])
    m.opt["cone"] = int(c.get("cone", 0))
    d = m.make_data()
    if c["kind"] != "pile":
        common.random_state(rng, m, d, vel_scale=float(c.get("vel", 1.0)))
        common.random_controls(rng, m, d, scale=float(c.get("ctrl", 1.0)))
        if m.n("neq"):
            d["eq_active"][:] = 1
    else:
        d["qvel"][:] = rng.normal(size=m.n("nv")) * float(c.get("vel", 1.0))
    for _ in range(int(c.get("steps", 0))):
        d.step(1)
        if not np.isfinite(d["qacc"]).all() or L.warnings():
            L.clear_messages()
            raise drv.MjError("unstable while settling")
    return m, d
