"""Seeded MJCF model generator over a feature lattice.

gen(rng, **profile) -> (xml_text, tags)   tags = sorted list of feature names actually present.

Profile keys (all optional):
  nbody=(lo,hi)      bodies (excluding world)
  ntree=(lo,hi)      number of top-level trees
  free=p             probability that a tree root has a free joint (else hinge/slide/ball/fixed)
  ball=p, slide=p    joint type weights
  contacts=bool      add a floor plane / enable collisions (else contype=0)
  geoms=list         allowed geom types
  actuators=p        expected fraction of scalar joints that get an actuator
  act_kinds=list     allowed actuator shortcuts
  tendons=int        max number of tendons
  equalities=int     max number of equality constraints
  sensors=int        max number of sensors (sensor_kinds=list to restrict)
  springs, damping, armature, frictionloss, limits = p   probability per joint
  mocap=p, keyframes=int, sites=p, explicit_inertial=p, gravcomp=p
  conservative=bool  no damping/friction/actuation/contacts/limits
  option=dict        attributes for <option>; flags=dict attributes for <option><flag>
  scale=float        overall length scale
"""
import math
import xml.etree.ElementTree as ET

import numpy as np

GEOM_TYPES = ["sphere", "capsule", "ellipsoid", "cylinder", "box"]
ACT_KINDS = ["motor", "position", "velocity", "intvelocity", "damper", "cylinder", "muscle", "general"]
SENSOR_KINDS = [
    "jointpos", "jointvel", "actuatorpos", "actuatorvel", "actuatorfrc", "jointactuatorfrc", "tendonpos", "tendonvel",
    "ballquat", "ballangvel", "jointlimitpos", "jointlimitvel", "jointlimitfrc", "tendonlimitpos", "tendonlimitvel",
    "tendonlimitfrc", "framepos", "framequat", "framexaxis", "frameyaxis", "framezaxis", "framelinvel", "frameangvel",
    "framelinacc", "frameangacc", "subtreecom", "subtreelinvel", "subtreeangmom", "accelerometer", "velocimeter", "gyro",
    "force", "torque", "magnetometer", "touch", "rangefinder", "clock", "e_potential", "e_kinetic",
]


def f(x):
    if isinstance(x, (list, tuple, np.ndarray)):
        return " ".join(f(v) for v in x)
    if isinstance(x, (int, np.integer)):
        return str(int(x))
    return repr(float(x))


def rquat(rng):
    q = rng.normal(size=4)
    return q / np.linalg.norm(q)


class Builder:
    def __init__(self, rng, prof):
        self.rng = rng
        self.p = prof
        self.tags = set()
        self.root = ET.Element("mujoco", model="vfgen")
        self.bodies = []       # (name, element, depth, treeid)
        self.joints = []       # dict(name,type,body,limited,range)
        self.geoms = []        # (name, type, bodyname)
        self.sites = []        # (name, bodyname)
        self.tendons = []      # (name, kind, limited)
        self.actuators = []    # (name, kind, has_act)
        self.cameras = []
        self.scale = prof.get("scale", 1.0)
        self.cons = prof.get("conservative", False)
        self.nb = 0

    def P(self, key, default=0.0):
        v = self.p.get(key, default)
        return bool(self.rng.random() < v)

    def U(self, lo, hi):
        return float(self.rng.uniform(lo, hi))

    def logU(self, lo, hi):
        return float(math.exp(self.rng.uniform(math.log(lo), math.log(hi))))

    def choice(self, seq, p=None):
        return seq[int(self.rng.choice(len(seq), p=p))]

    # ---- geoms ---------------------------------------------------------------------------------
    def add_geom(self, body, bname, contacts, force_type=None, at_origin=False):
        rng = self.rng
        types = self.p.get("geoms", GEOM_TYPES)
        t = force_type or self.choice(types)
        s = self.scale
        a = {"name": "g%d" % len(self.geoms), "type": t}
        r = self.logU(0.03, 0.25) * s
        if t == "sphere":
            a["size"] = f(r)
        elif t in ("capsule", "cylinder"):
            if self.P("fromto", 0.3) and not at_origin:
                p0 = rng.normal(size=3) * 0.2 * s
                p1 = p0 + rquat(rng)[:3] * self.U(0.1, 0.5) * s + 1e-3
                a["fromto"] = f(list(p0) + list(p1))
                a["size"] = f(r * 0.5)
            else:
                a["size"] = f([r * 0.6, self.logU(0.05, 0.4) * s])
        elif t == "ellipsoid":
            a["size"] = f([r, r * self.U(0.4, 1.5), r * self.U(0.4, 1.5)])
        elif t == "box":
            a["size"] = f([r, r * self.U(0.3, 2.0), r * self.U(0.3, 2.0)])
        if "fromto" not in a and not at_origin:
            if self.P("geom_pos", 0.7):
                a["pos"] = f(rng.normal(size=3) * 0.15 * s)
            self.orient(a, "geom_orient", 0.6)
        if self.P("geom_density", 0.3):
            a["density"] = f(self.logU(100, 5000))
        elif self.P("geom_mass", 0.15):
            a["mass"] = f(self.logU(0.05, 5))
        if not contacts:
            a["contype"] = "0"
            a["conaffinity"] = "0"
        else:
            if self.P("contact_bits", 0.3):
                a["contype"] = str(int(rng.integers(0, 4)))
                a["conaffinity"] = str(int(rng.integers(0, 4)))
                self.tags.add("contact_bits")
            if self.P("condim", 0.5):
                a["condim"] = str(self.choice([1, 3, 4, 6]))
                self.tags.add("condim" + a["condim"])
            if self.P("geom_friction", 0.4):
                a["friction"] = f([self.logU(0.05, 2), self.logU(1e-4, 0.05), self.logU(1e-5, 0.01)])
            if self.P("geom_margin", 0.3):
                mg = self.U(0, 0.05) * s
                a["margin"] = f(mg)
                if self.P("geom_gap", 0.4):
                    a["gap"] = f(mg * self.U(0, 1))
                    self.tags.add("gap")
                self.tags.add("margin")
            if self.P("geom_solref", 0.25):
                a["solref"] = f([self.logU(0.004, 0.05), self.U(0.3, 1.5)])
            if self.P("geom_solimp", 0.2):
                a["solimp"] = f([self.U(0.7, 0.95), self.U(0.95, 0.999), self.logU(1e-4, 1e-2)])
            if self.P("geom_priority", 0.15):
                a["priority"] = str(int(rng.integers(0, 3)))
            if self.P("geom_solmix", 0.15):
                a["solmix"] = f(self.logU(0.1, 10))
        if self.P("geom_group", 0.2):
            a["group"] = str(int(rng.integers(0, 6)))
        if self.P("fluidshape", 0.0):
            a["fluidshape"] = "ellipsoid"
            self.tags.add("fluidshape")
        ET.SubElement(body, "geom", a)
        self.geoms.append((a["name"], t, bname))
        self.tags.add("geom_" + t)
        return a["name"]

    def orient(self, a, key, prob):
        if not self.P(key, prob):
            return
        k = self.choice(["quat", "axisangle", "euler", "xyaxes", "zaxis"])
        rng = self.rng
        if k == "quat":
            a["quat"] = f(rquat(rng))
        elif k == "axisangle":
            ax = rquat(rng)[:3]
            a["axisangle"] = f(list(ax / (np.linalg.norm(ax) + 1e-12)) + [self.U(-170, 170)])
        elif k == "euler":
            a["euler"] = f(rng.uniform(-170, 170, size=3))
        elif k == "xyaxes":
            x = rng.normal(size=3)
            y = rng.normal(size=3)
            a["xyaxes"] = f(list(x) + list(y))
        else:
            a["zaxis"] = f(rng.normal(size=3) + 1e-3)
        self.tags.add("orient_" + k)

    # ---- bodies ---------------------------------------------------------------------------------
    def add_joint(self, body, bname, jtype):
        rng = self.rng
        a = {"name": "j%d" % len(self.joints), "type": jtype}
        info = dict(name=a["name"], type=jtype, body=bname, limited=False, range=None)
        if jtype in ("hinge", "slide"):
            ax = rng.normal(size=3)
            a["axis"] = f(ax / np.linalg.norm(ax)) if self.P("axis_random", 0.6) else self.choice(["1 0 0", "0 1 0", "0 0 1"])
        if jtype != "free":
            if self.P("joint_pos", 0.5):
                a["pos"] = f(rng.normal(size=3) * 0.1 * self.scale)
                self.tags.add("joint_pos")
        if jtype in ("hinge", "slide") and self.P("joint_ref", 0.25):
            a["ref"] = f(self.U(-30, 30) if jtype == "hinge" else self.U(-0.2, 0.2))
            self.tags.add("joint_ref")
        if self.P("armature", 0.3):
            a["armature"] = f(self.logU(1e-3, 0.5))
            self.tags.add("armature")
        if not self.cons:
            if self.P("damping", 0.5):
                a["damping"] = f(self.logU(0.01, 5))
                self.tags.add("joint_damping")
            if jtype in ("hinge", "slide", "ball") and self.P("frictionloss", 0.2):
                a["frictionloss"] = f(self.logU(0.01, 2))
                self.tags.add("frictionloss")
            if jtype in ("hinge", "slide", "ball") and self.P("limits", 0.4):
                if jtype == "hinge":
                    lo, hi = self.U(-150, -5), self.U(5, 150)
                elif jtype == "slide":
                    lo, hi = self.U(-0.5, -0.02), self.U(0.02, 0.5)
                else:
                    lo, hi = 0.0, self.U(10, 120)
                a["range"] = f([lo, hi])
                a["limited"] = "true"
                info["limited"] = True
                info["range"] = (lo, hi)
                if self.P("limit_margin", 0.3):
                    a["margin"] = f(self.U(0, 0.05))
                self.tags.add("joint_limit")
                if self.P("joint_solref", 0.3):
                    a["solreflimit"] = f([self.logU(0.004, 0.05), self.U(0.3, 1.5)])
            if jtype in ("hinge", "slide") and self.P("actfrcrange", 0.1):
                a["actuatorfrcrange"] = f([-self.logU(0.5, 20), self.logU(0.5, 20)])
                self.tags.add("jnt_actfrcrange")
            if jtype in ("hinge", "slide") and self.P("actgravcomp", 0.1):
                a["actuatorgravcomp"] = "true"
                self.tags.add("actuatorgravcomp")
        if self.P("springs", 0.3):
            a["stiffness"] = f(self.logU(0.1, 50))
            if jtype in ("hinge", "slide") and self.P("springref", 0.5):
                a["springref"] = f(self.U(-20, 20) if jtype == "hinge" else self.U(-0.1, 0.1))
            self.tags.add("joint_spring")
        ET.SubElement(body, "joint", a)
        self.joints.append(info)
        self.tags.add("joint_" + jtype)
        return info

    def add_body(self, parent, depth, tree, contacts, root_kind=None):
        rng = self.rng
        name = "b%d" % self.nb
        self.nb += 1
        a = {"name": name}
        s = self.scale
        if depth == 0:
            a["pos"] = f([self.U(-1, 1) * s * 1.5, self.U(-1, 1) * s * 1.5, self.U(0.3, 2.0) * s])
        else:
            a["pos"] = f(rng.normal(size=3) * 0.35 * s)
        self.orient(a, "body_orient", 0.5)
        if not self.cons and self.P("gravcomp", 0.1):
            a["gravcomp"] = f(self.choice([0.3, 1.0, 2.0]))
            self.tags.add("gravcomp")
        body = ET.SubElement(parent, "body", a)
        # joints
        kinds = []
        if depth == 0:
            if root_kind == "free" or (root_kind is None and self.P("free", 0.5)):
                kinds = ["free"]
            elif root_kind == "fixed":
                kinds = []
        if not kinds and root_kind != "fixed":
            r = rng.random()
            pb, ps = self.p.get("ball", 0.15), self.p.get("slide", 0.2)
            if r < pb:
                kinds = ["ball"]
            elif r < pb + ps:
                kinds = ["slide"]
            else:
                kinds = ["hinge"]
            if kinds != ["ball"] and self.P("multi_joint", 0.2):
                kinds.append(self.choice(["hinge", "slide"]))
                self.tags.add("multi_joint")
            if depth > 0 and self.P("fixed_child", 0.08):
                kinds = []
                self.tags.add("fixed_child")
        for k in kinds:
            self.add_joint(body, name, k)
        # inertial
        if self.P("explicit_inertial", 0.2):
            m = self.logU(0.05, 10)
            ia = {"pos": f(rng.normal(size=3) * 0.05 * s), "mass": f(m)}
            if self.P("fullinertia", 0.4):
                A = rng.normal(size=(3, 3))
                I = (A @ A.T + np.eye(3) * 0.5) * m * 0.02 * s * s
                # enforce triangle inequality with a margin: eigen-decompose and clamp
                w, V = np.linalg.eigh(I)
                w = np.sort(w)
                if w[0] + w[1] < w[2] * 1.05:
                    w[2] = (w[0] + w[1]) / 1.1
                I = V @ np.diag(w) @ V.T
                ia["fullinertia"] = f([I[0, 0], I[1, 1], I[2, 2], I[0, 1], I[0, 2], I[1, 2]])
                self.tags.add("fullinertia")
            else:
                d = np.sort(rng.uniform(0.5, 1.0, size=3)) * m * 0.02 * s * s
                if d[0] + d[1] < d[2] * 1.05:
                    d[2] = (d[0] + d[1]) / 1.1
                ia["diaginertia"] = f(rng.permutation(d))
                self.orient(ia, "inertial_orient", 0.5)
            ET.SubElement(body, "inertial", ia)
            self.tags.add("explicit_inertial")
        ng = 1 + int(rng.random() < self.p.get("multi_geom", 0.3)) + int(rng.random() < self.p.get("multi_geom", 0.3) / 2)
        for _ in range(ng):
            self.add_geom(body, name, contacts)
        if ng > 1:
            self.tags.add("multi_geom_body")
        if self.P("sites", 0.6):
            sa = {"name": "s%d" % len(self.sites), "pos": f(rng.normal(size=3) * 0.1 * s), "size": "0.02"}
            self.orient(sa, "site_orient", 0.6)
            ET.SubElement(body, "site", sa)
            self.sites.append((sa["name"], name))
        if self.P("cameras", 0.1):
            ca = {"name": "c%d" % len(self.cameras), "pos": f(rng.normal(size=3) * 0.2)}
            self.orient(ca, "cam_orient", 0.7)
            ET.SubElement(body, "camera", ca)
            self.cameras.append(ca["name"])
            self.tags.add("camera")
        if self.P("lights", 0.05):
            ET.SubElement(body, "light", {"pos": f(rng.normal(size=3) * 0.2), "dir": "0 0 -1"})
        self.bodies.append((name, body, depth, tree))
        return body

    def grow_tree(self, wb, tree, nbody, contacts, root_kind=None):
        nodes = [(self.add_body(wb, 0, tree, contacts, root_kind), 0)]
        shape = self.choice(["chain", "star", "random"])
        self.tags.add("tree_" + shape)
        maxdepth = self.p.get("maxdepth", 8)
        for i in range(nbody - 1):
            if shape == "chain":
                par, d = nodes[-1]
            elif shape == "star":
                par, d = nodes[0]
            else:
                par, d = nodes[int(self.rng.integers(0, len(nodes)))]
            if d + 1 > maxdepth:
                par, d = nodes[0]
            nodes.append((self.add_body(par, d + 1, tree, contacts), d + 1))

    # ---- tendons / equalities / actuators / sensors ------------------------------------------
    def scalar_joints(self):
        return [j for j in self.joints if j["type"] in ("hinge", "slide")]

    def add_tendons(self):
        n = int(self.rng.integers(0, self.p.get("tendons", 0) + 1))
        if n == 0:
            return
        T = ET.SubElement(self.root, "tendon")
        sj = self.scalar_joints()
        for i in range(n):
            name = "t%d" % len(self.tendons)
            a = {"name": name}
            limited = False
            if not self.cons:
                if self.P("tendon_damping", 0.3):
                    a["damping"] = f(self.logU(0.01, 2))
                    self.tags.add("tendon_damping")
                if self.P("tendon_frictionloss", 0.15):
                    a["frictionloss"] = f(self.logU(0.01, 1))
                    self.tags.add("tendon_frictionloss")
            if self.P("tendon_spring", 0.35):
                a["stiffness"] = f(self.logU(0.5, 50))
                if self.P("tendon_springlength", 0.5):
                    l0 = self.U(0, 0.5)
                    a["springlength"] = f([l0, l0 + self.U(0, 0.3)] if self.P("deadband", 0.5) else l0)
                self.tags.add("tendon_spring")
            if self.P("tendon_armature", 0.15):
                a["armature"] = f(self.logU(1e-3, 0.2))
                self.tags.add("tendon_armature")
            kind = "fixed" if (sj and (len(self.sites) < 2 or self.rng.random() < 0.5)) else "spatial"
            if kind == "fixed" and not sj:
                continue
            if kind == "spatial" and len(self.sites) < 2:
                continue
            if not self.cons and self.P("tendon_limit", 0.3):
                if kind == "fixed":
                    a["range"] = f([-self.U(0.1, 1.0), self.U(0.1, 1.0)])
                else:
                    a["range"] = f([0.0, self.U(0.3, 2.0) * self.scale])
                a["limited"] = "true"
                limited = True
                self.tags.add("tendon_limit")
            if kind == "fixed":
                t = ET.SubElement(T, "fixed", a)
                k = min(len(sj), int(self.rng.integers(1, 4)))
                for idx in self.rng.choice(len(sj), size=k, replace=False):
                    ET.SubElement(t, "joint", {"joint": sj[int(idx)]["name"], "coef": f(self.U(-2, 2) or 1.0)})
                self.tags.add("tendon_fixed")
            else:
                t = ET.SubElement(T, "spatial", a)
                k = min(len(self.sites), int(self.rng.integers(2, 5)))
                idxs = [int(x) for x in self.rng.choice(len(self.sites), size=k, replace=False)]
                ET.SubElement(t, "site", {"site": self.sites[idxs[0]][0]})
                for q, idx in enumerate(idxs[1:]):
                    if "armature" not in a and self.P("tendon_wrap", 0.3):
                        wg = [g for g in self.geoms if g[1] in ("sphere", "cylinder")]
                        if wg:
                            g = self.choice(wg)
                            ET.SubElement(t, "geom", {"geom": g[0]})
                            self.tags.add("tendon_wrap_" + g[1])
                    ET.SubElement(t, "site", {"site": self.sites[idx][0]})
                    if q + 2 < k and self.P("pulley", 0.15):
                        ET.SubElement(t, "pulley", {"divisor": f(self.choice([1.0, 2.0]))})
                        # a pulley must be followed by a fresh site
                        ET.SubElement(t, "site", {"site": self.sites[idx][0]})
                        self.tags.add("pulley")
                self.tags.add("tendon_spatial")
            self.tendons.append((name, kind, limited))

    def add_equalities(self):
        n = int(self.rng.integers(0, self.p.get("equalities", 0) + 1))
        if n == 0 or len(self.bodies) < 2:
            return
        E = ET.SubElement(self.root, "equality")
        sj = self.scalar_joints()
        for i in range(n):
            kind = self.choice(["connect", "weld", "joint", "tendon"])
            a = {"name": "e%d" % i}
            if self.P("eq_inactive", 0.15):
                a["active"] = "false"
            if self.P("eq_solref", 0.3):
                a["solref"] = f([self.logU(0.004, 0.05), self.U(0.3, 1.5)])
            if kind in ("connect", "weld"):
                i1, i2 = [int(x) for x in self.rng.choice(len(self.bodies), size=2, replace=False)]
                if kind == "connect" and len(self.sites) >= 2 and self.P("eq_sites", 0.3):
                    s1, s2 = [int(x) for x in self.rng.choice(len(self.sites), size=2, replace=False)]
                    if self.sites[s1][1] == self.sites[s2][1]:
                        continue
                    a["site1"], a["site2"] = self.sites[s1][0], self.sites[s2][0]
                else:
                    a["body1"] = self.bodies[i1][0]
                    if self.P("eq_world", 0.25):
                        pass
                    else:
                        a["body2"] = self.bodies[i2][0]
                    if kind == "connect":
                        a["anchor"] = f(self.rng.normal(size=3) * 0.1)
                    elif self.P("weld_torquescale", 0.3):
                        a["torquescale"] = f(self.logU(0.1, 3))
                ET.SubElement(E, kind, a)
            elif kind == "joint":
                if len(sj) < 1:
                    continue
                if len(sj) >= 2 and self.P("eq_two", 0.7):
                    j1, j2 = [int(x) for x in self.rng.choice(len(sj), size=2, replace=False)]
                    a["joint1"], a["joint2"] = sj[j1]["name"], sj[j2]["name"]
                else:
                    a["joint1"] = sj[int(self.rng.integers(0, len(sj)))]["name"]
                a["polycoef"] = f([self.U(-0.2, 0.2), self.U(0.5, 1.5), self.U(-0.2, 0.2), 0, 0])
                ET.SubElement(E, "joint", a)
            else:
                if len(self.tendons) < 1:
                    continue
                if len(self.tendons) >= 2 and self.P("eq_two", 0.5):
                    t1, t2 = [int(x) for x in self.rng.choice(len(self.tendons), size=2, replace=False)]
                    a["tendon1"], a["tendon2"] = self.tendons[t1][0], self.tendons[t2][0]
                else:
                    a["tendon1"] = self.tendons[int(self.rng.integers(0, len(self.tendons)))][0]
                ET.SubElement(E, "tendon", a)
            self.tags.add("eq_" + kind)

    def add_actuators(self):
        if self.cons:
            return
        pa = self.p.get("actuators", 0.0)
        if pa <= 0:
            return
        kinds = self.p.get("act_kinds", ACT_KINDS)
        A = None
        targets = []
        for j in self.joints:
            if j["type"] in ("hinge", "slide") and self.rng.random() < pa:
                targets.append(("joint", j["name"], j))
            elif j["type"] == "ball" and self.rng.random() < pa * 0.5:
                targets.append(("joint", j["name"], j))
        for t in self.tendons:
            if self.rng.random() < pa:
                targets.append(("tendon", t[0], None))
        if self.sites and self.rng.random() < pa:
            targets.append(("site", self.choice(self.sites)[0], None))
        if len(self.sites) >= 2 and self.rng.random() < pa * 0.5:
            s1, s2 = [int(x) for x in self.rng.choice(len(self.sites), size=2, replace=False)]
            targets.append(("slidercrank", (self.sites[s1][0], self.sites[s2][0]), None))
        if self.p.get("adhesion", 0) and self.bodies and self.rng.random() < self.p["adhesion"]:
            targets.append(("body", self.choice(self.bodies)[0], None))
        for (tk, tn, info) in targets:
            if A is None:
                A = ET.SubElement(self.root, "actuator")
            kind = self.choice(kinds)
            if tk == "body":
                kind = "adhesion"
            elif kind == "adhesion":
                kind = "motor"
            if kind == "muscle" and tk in ("site",):
                kind = "motor"
            a = {"name": "a%d" % len(self.actuators)}
            if tk == "joint":
                a["jointinparent" if (self.P("jointinparent", 0.15)) else "joint"] = tn
            elif tk == "tendon":
                a["tendon"] = tn
            elif tk == "site":
                a["site"] = tn
                a["gear"] = f(self.rng.normal(size=6))
                if len(self.sites) >= 2 and self.P("refsite", 0.4) and kind != "muscle":
                    rs = self.choice(self.sites)[0]
                    if rs != tn:
                        a["refsite"] = rs
                        self.tags.add("refsite")
            elif tk == "slidercrank":
                a["cranksite"], a["slidersite"] = tn
                a["cranklength"] = f(self.U(0.3, 1.0))
            elif tk == "body":
                a["body"] = tn
            if tk in ("joint", "tendon") and kind != "muscle" and self.P("gear", 0.5):
                a["gear"] = f(self.U(-3, 3) or 1.0)
            has_act = False
            if kind in ("motor", "position", "velocity", "intvelocity", "cylinder", "general", "muscle") and self.P("ctrlrange", 0.5):
                a["ctrlrange"] = f([-self.U(0.2, 2), self.U(0.2, 2)] if kind != "muscle" else [0, 1])
                a["ctrllimited"] = "true"
                self.tags.add("ctrlrange")
            if kind != "adhesion" and self.P("forcerange", 0.3):
                a["forcerange"] = f([-self.logU(0.5, 50), self.logU(0.5, 50)])
                a["forcelimited"] = "true"
                self.tags.add("forcerange")
            if kind == "position":
                a["kp"] = f(self.logU(1, 100))
                if self.P("kv", 0.5):
                    a["kv"] = f(self.logU(0.1, 10))
                if self.P("pos_timeconst", 0.2):
                    a["timeconst"] = f(self.logU(0.01, 0.5))
                    has_act = True
            elif kind == "velocity":
                a["kv"] = f(self.logU(0.1, 10))
            elif kind == "intvelocity":
                a["kp"] = f(self.logU(1, 100))
                a["actrange"] = f([-self.U(0.2, 1.5), self.U(0.2, 1.5)])
                has_act = True
            elif kind == "damper":
                a["kv"] = f(self.logU(0.1, 10))
                a["ctrlrange"] = f([0, self.U(0.5, 2)])
            elif kind == "cylinder":
                a["timeconst"] = f(self.logU(0.01, 0.5))
                a["area"] = f(self.logU(0.1, 2))
                a["bias"] = f([self.U(-1, 1), self.U(-1, 0), self.U(-1, 0)])
                has_act = True
            elif kind == "muscle":
                a.pop("gear", None)
                a["ctrlrange"] = "0 1"
                a["ctrllimited"] = "true"
                a["lengthrange"] = f([0.2, 1.2]) if tk != "tendon" else f([0.1, 2.0])
                if self.P("muscle_force", 0.5):
                    a["force"] = f(self.logU(10, 500))
                has_act = True
            elif kind == "general":
                dyn = self.choice(["none", "integrator", "filter", "filterexact"])
                gain = self.choice(["fixed", "affine"])
                bias = self.choice(["none", "affine"])
                a["dyntype"], a["gaintype"], a["biastype"] = dyn, gain, bias
                if dyn != "none":
                    a["dynprm"] = f([self.logU(0.01, 0.5), 0, 0])
                    has_act = True
                    if self.P("actlimited", 0.5):
                        a["actrange"] = f([-self.U(0.2, 1.5), self.U(0.2, 1.5)])
                        a["actlimited"] = "true"
                        self.tags.add("actrange")
                    if self.P("actearly", 0.3):
                        a["actearly"] = "true"
                        self.tags.add("actearly")
                a["gainprm"] = f([self.logU(0.5, 20), self.U(-1, 1), self.U(-1, 1)] if gain == "affine" else [self.logU(0.5, 20), 0, 0])
                if bias == "affine":
                    a["biasprm"] = f([self.U(-2, 2), self.U(-5, 0), self.U(-2, 0)])
                self.tags.add("dyn_" + dyn)
                self.tags.add("gain_" + gain)
                self.tags.add("bias_" + bias)
            elif kind == "adhesion":
                a["gain"] = f(self.logU(1, 50))
                a["ctrlrange"] = "0 1"
            if self.P("act_group", 0.15):
                a["group"] = str(int(self.rng.integers(0, 4)))
                self.tags.add("act_group")
            ET.SubElement(A, kind, a)
            self.actuators.append((a["name"], kind, has_act))
            self.tags.add("act_" + kind)
            self.tags.add("trn_" + tk)

    def add_sensors(self):
        n = int(self.rng.integers(0, self.p.get("sensors", 0) + 1))
        if n == 0:
            return
        kinds = self.p.get("sensor_kinds", SENSOR_KINDS)
        S = None
        sj = self.scalar_joints()
        bj = [j for j in self.joints if j["type"] == "ball"]
        for i in range(n):
            k = self.choice(kinds)
            a = {"name": "x%d" % i}
            ok = True
            if k in ("jointpos", "jointvel", "jointlimitpos", "jointlimitvel", "jointlimitfrc", "jointactuatorfrc"):
                cand = sj if not k.startswith("jointlimit") else [j for j in sj if j["limited"]]
                if not cand:
                    continue
                a["joint"] = self.choice(cand)["name"]
            elif k in ("tendonpos", "tendonvel", "tendonlimitpos", "tendonlimitvel", "tendonlimitfrc"):
                cand = self.tendons if "limit" not in k else [t for t in self.tendons if t[2]]
                if not cand:
                    continue
                a["tendon"] = self.choice(cand)[0]
            elif k in ("actuatorpos", "actuatorvel", "actuatorfrc"):
                if not self.actuators:
                    continue
                a["actuator"] = self.choice(self.actuators)[0]
            elif k in ("ballquat", "ballangvel"):
                if not bj:
                    continue
                a["joint"] = self.choice(bj)["name"]
            elif k.startswith("frame"):
                ot = self.choice(["body", "xbody", "geom", "site"] + (["camera"] if self.cameras else []))
                nm = self._obj(ot)
                if nm is None:
                    continue
                a["objtype"], a["objname"] = ot, nm
                if k not in ("framelinacc", "frameangacc") and self.P("sensor_ref", 0.4):
                    rt = self.choice(["body", "xbody", "geom", "site"])
                    rn = self._obj(rt)
                    if rn is not None:
                        a["reftype"], a["refname"] = rt, rn
                        self.tags.add("sensor_refframe")
            elif k.startswith("subtree"):
                a["body"] = self.choice(self.bodies)[0]
            elif k in ("accelerometer", "velocimeter", "gyro", "force", "torque", "magnetometer", "touch", "rangefinder"):
                if not self.sites:
                    continue
                a["site"] = self.choice(self.sites)[0]
            elif k in ("clock", "e_potential", "e_kinetic"):
                pass
            if self.P("cutoff", 0.2) and k not in ("framequat", "ballquat", "framexaxis", "frameyaxis", "framezaxis"):
                a["cutoff"] = f(self.logU(0.01, 10))
                self.tags.add("cutoff")
            if S is None:
                S = ET.SubElement(self.root, "sensor")
            ET.SubElement(S, k, a)
            self.tags.add("sensor_" + k)

    def _obj(self, ot):
        if ot in ("body", "xbody"):
            return self.choice(self.bodies)[0]
        if ot == "geom":
            return self.choice(self.geoms)[0] if self.geoms else None
        if ot == "site":
            return self.choice(self.sites)[0] if self.sites else None
        if ot == "camera":
            return self.choice(self.cameras) if self.cameras else None

    def add_contact_section(self, contacts):
        if not contacts or len(self.bodies) < 2:
            return
        Cn = None
        if self.P("exclude", 0.3):
            Cn = ET.SubElement(self.root, "contact")
            for _ in range(int(self.rng.integers(1, 4))):
                i1, i2 = [int(x) for x in self.rng.choice(len(self.bodies), size=2, replace=False)]
                ET.SubElement(Cn, "exclude", {"body1": self.bodies[i1][0], "body2": self.bodies[i2][0]})
            self.tags.add("exclude")
        if self.P("pair", 0.3) and len(self.geoms) >= 2:
            if Cn is None:
                Cn = ET.SubElement(self.root, "contact")
            seen = set()
            for _ in range(int(self.rng.integers(1, 4))):
                i1, i2 = [int(x) for x in self.rng.choice(len(self.geoms), size=2, replace=False)]
                if self.geoms[i1][2] == self.geoms[i2][2] or (min(i1, i2), max(i1, i2)) in seen:
                    continue
                seen.add((min(i1, i2), max(i1, i2)))
                a = {"geom1": self.geoms[i1][0], "geom2": self.geoms[i2][0]}
                if self.P("pair_condim", 0.5):
                    a["condim"] = str(self.choice([1, 3, 4, 6]))
                if self.P("pair_margin", 0.5):
                    a["margin"] = f(self.U(0, 0.1))
                if self.P("pair_friction", 0.4):
                    a["friction"] = f([self.logU(0.1, 2), self.logU(0.1, 2), self.logU(1e-3, 0.05), self.logU(1e-4, 0.01), self.logU(1e-4, 0.01)])
                ET.SubElement(Cn, "pair", a)
                self.tags.add("pair")

    def add_keyframes(self):
        pass  # keyframes need nq; added by callers after compile when needed


def gen(rng, **prof):
    """Generate a model. Returns (xml_text, tags)."""
    b = Builder(rng, prof)
    root = b.root
    comp = {"angle": "degree"}
    if "compiler" in prof:
        comp.update(prof["compiler"])
    ET.SubElement(root, "compiler", comp)
    opt = dict(prof.get("option", {}))
    o = ET.SubElement(root, "option", {k: (v if isinstance(v, str) else f(v)) for k, v in opt.items()})
    if prof.get("flags"):
        ET.SubElement(o, "flag", prof["flags"])
    if prof.get("memory"):
        ET.SubElement(root, "size", {"memory": prof["memory"]})
    if prof.get("nuserdata"):
        ET.SubElement(root, "size", {"nuserdata": str(prof["nuserdata"])})
    wb = ET.SubElement(root, "worldbody")
    contacts = prof.get("contacts", False) and not b.cons
    if contacts and prof.get("floor", True):
        ET.SubElement(wb, "geom", {"name": "floor", "type": "plane", "size": "5 5 0.1"})
        b.geoms.append(("floor", "plane", "world"))
        b.tags.add("floor")
    if b.P("world_site", 0.3):
        ET.SubElement(wb, "site", {"name": "s0", "pos": f(rng.normal(size=3) * 0.3)})
        b.sites.append(("s0", "world"))
    lo, hi = prof.get("ntree", (1, 2))
    ntree = int(rng.integers(lo, hi + 1))
    lo, hi = prof.get("nbody", (1, 8))
    nbody = int(rng.integers(lo, hi + 1))
    per = [1] * ntree
    for _ in range(max(0, nbody - ntree)):
        per[int(rng.integers(0, ntree))] += 1
    for t in range(ntree):
        b.grow_tree(wb, t, per[t], contacts, root_kind=prof.get("root_kind"))
    if prof.get("mocap", 0) and rng.random() < prof["mocap"]:
        mb = ET.SubElement(wb, "body", {"name": "mocap0", "mocap": "true", "pos": f(rng.normal(size=3) * 0.5 + [0, 0, 1])})
        ET.SubElement(mb, "geom", {"name": "g_mocap", "type": "sphere", "size": "0.08", **({} if contacts else {"contype": "0", "conaffinity": "0"})})
        ET.SubElement(mb, "site", {"name": "s_mocap"})
        b.sites.append(("s_mocap", "mocap0"))
        b.bodies.append(("mocap0", mb, 0, -1))
        b.geoms.append(("g_mocap", "sphere", "mocap0"))
        b.tags.add("mocap")
    if prof.get("static_geoms", 0) and rng.random() < prof["static_geoms"]:
        sb = ET.SubElement(wb, "body", {"name": "static0", "pos": f(rng.normal(size=3) * 0.5)})
        b.add_geom(sb, "static0", contacts)
        b.bodies.append(("static0", sb, 0, -1))
        b.tags.add("static_body")
    b.add_tendons()
    b.add_equalities()
    b.add_actuators()
    b.add_sensors()
    b.add_contact_section(contacts)
    xml = ET.tostring(root, encoding="unicode")
    b.tags.add("ntree%d" % min(ntree, 4))
    return xml, sorted(b.tags)


PROFILES = {
    "smooth": dict(nbody=(1, 10), ntree=(1, 3), contacts=False, tendons=2, equalities=0, actuators=0.5, sensors=0,
                   armature=0.4, springs=0.3, damping=0.5),
    "rich": dict(nbody=(2, 12), ntree=(1, 3), contacts=True, tendons=3, equalities=3, actuators=0.6, sensors=10,
                 mocap=0.3, static_geoms=0.3),
    "contact": dict(nbody=(3, 14), ntree=(2, 6), contacts=True, free=0.8, tendons=1, equalities=2, actuators=0.2,
                    sensors=0, frictionloss=0.3),
    "conservative": dict(nbody=(1, 6), ntree=(1, 3), conservative=True, contacts=False, tendons=1, springs=0.5,
                         explicit_inertial=0.3),
    "kin": dict(nbody=(1, 14), ntree=(1, 4), contacts=False, tendons=2, equalities=0, actuators=0, sensors=0,
                cameras=0.3, armature=0.5),
}


def gen_profile(rng, name, **over):
    p = dict(PROFILES[name])
    p.update(over)
    return gen(rng, **p)
