"""Scenes built to hit the engine's parallel sites: many constraint islands and many narrow-phase pairs."""
import numpy as np

from .model import f


def pile_xml(rng, nclusters=8, per=5, types=("sphere", "capsule", "box", "ellipsoid", "cylinder"), spacing=3.0,
             condim=None, multi_geom=0.3, opts="", extra=""):
    """nclusters well separated heaps of `per` free bodies resting on / overlapping each other on a plane."""
    out = ['<mujoco><option %s/><size memory="40M"/>%s<worldbody><geom name="floor" type="plane" size="0 0 0.1"/>' % (opts, extra)]
    k = 0
    side = int(np.ceil(np.sqrt(nclusters)))
    for c in range(nclusters):
        cx, cy = (c % side) * spacing, (c // side) * spacing
        for i in range(per):
            t = types[int(rng.integers(0, len(types)))]
            r = float(rng.uniform(0.08, 0.2))
            pos = [cx + float(rng.normal() * 0.12), cy + float(rng.normal() * 0.12), 0.15 + 0.22 * i]
            size = {"sphere": f(r), "capsule": f([r * 0.6, r]), "box": f([r, r * 0.8, r * 0.7]),
                    "ellipsoid": f([r, r * 0.7, r * 0.9]), "cylinder": f([r * 0.7, r * 0.8])}[t]
            q = rng.normal(size=4)
            q /= np.linalg.norm(q)
            if condim == "mix":
                cd = ' condim="%d"' % [1, 3, 4, 6][int(rng.integers(0, 4))]
            else:
                cd = "" if condim is None else ' condim="%d"' % condim
            out.append('<body name="b%d" pos="%s" quat="%s"><freejoint/><geom name="g%d" type="%s" size="%s"%s/>' % (k, f(pos), f(q), k, t, size, cd))
            if rng.random() < multi_geom:
                out.append('<geom type="sphere" size="%s" pos="%s"%s/>' % (f(r * 0.5), f([r, 0, 0]), cd))
            out.append("</body>")
            k += 1
    out.append("</worldbody></mujoco>")
    return "".join(out)


def cloud_xml(rng, n=120, extent=1.2, opts=""):
    """Dense cloud of small free geoms in mutual overlap: hundreds of narrow-phase pairs (several chunks)."""
    out = ['<mujoco><option %s/><size memory="80M"/><worldbody><geom type="plane" size="0 0 0.1"/>' % opts]
    types = ("sphere", "capsule", "box", "ellipsoid", "cylinder")
    for k in range(n):
        t = types[int(rng.integers(0, len(types)))]
        r = float(rng.uniform(0.06, 0.12))
        size = {"sphere": f(r), "capsule": f([r * 0.6, r]), "box": f([r, r * 0.8, r * 0.7]),
                "ellipsoid": f([r, r * 0.7, r * 0.9]), "cylinder": f([r * 0.7, r * 0.8])}[t]
        pos = rng.uniform(-extent / 2, extent / 2, size=3)
        pos[2] = abs(pos[2]) + 0.1
        q = rng.normal(size=4)
        q /= np.linalg.norm(q)
        out.append('<body pos="%s" quat="%s"><freejoint/><geom type="%s" size="%s"/></body>' % (f(pos), f(q), t, size))
    out.append("</worldbody></mujoco>")
    return "".join(out)
