"""Documents generated from src/xml/mjcf.schema AND doc/XMLreference.rst (C37 schema oracle).

The schema language is parsed by the tree's own doc/generate/mjcf_schema.py (imported by path); everything below is an
independent reading of the *documented* semantics of that language (syntax reference at the top of mjcf.schema and the
module docstring of mjcf_schema.py).  The schema file alone is NOT the reference: XMLreference.rst documents every attribute
with a type and a required/optional status (vf/gen/mjcf_docref.py), and where the two sources differ the schema file has turned
out to be the laxer one (audit B7).  A document is therefore called

* conforming        only if BOTH sources accept it  (mode "any": a rejection by either source disqualifies the document), and
* violating rule R  only if BOTH sources reject it for R (mode "both"); a numeric range counts only where the attribute's
                    XMLreference paragraph states the range (the `min=`/`max=`/`positive` facets alone are not a promise).

`required` is the union of the two sources for generation (either says required -> the attribute is always supplied) and
the intersection for labelling a missing-required violation.

* SchemaModel(repo)      per element kind: attributes (type / arity / enum keywords / required / nodefault / range
                         facets), child cardinalities, presence constraints, variant groups, default-context projections
* validate(root)         reference validator over an ElementTree document -> list of (rule, kind, detail)
* Hosts                  valid host documents: a fixed prelude of referents plus a chain of minimal elements down to
                         the target element kind
* DocGen.valid_value / invalid_value(rule)   attribute values that conform / break exactly one rule; the single-step edits
                         of a host element (conforming enrichment, one violation per rule kind) live in vf/props/c37.py

Rule kinds: unknown-element, unknown-attribute, bad-keyword, too-many, too-few, non-numeric, missing-required,
repeated-child, exclusive, together, requires, oneof, variant (two members of a `variant` group), range (min/max/positive),
pattern.
"""
import importlib.util
import re
import xml.etree.ElementTree as ET

RULES = ("unknown-element", "unknown-attribute", "bad-keyword", "too-many", "too-few", "non-numeric", "missing-required",
         "repeated-child", "exclusive", "together", "requires", "oneof", "variant", "range", "pattern")

NUMERIC = ("double", "float", "int")
_FLOAT_RE = re.compile(r"[+-]?(?:\d+\.?\d*|\.\d+)(?:[eE][+-]?\d+)?$|[+-]?(?:nan|inf)$", re.I)
_INT_RE = re.compile(r"[+-]?\d+$")
BODYLIKE = ("body", "worldbody", "frame", "replicate")


def _load_parser(repo):
    path = str(repo / "doc" / "generate" / "mjcf_schema.py")
    spec = importlib.util.spec_from_file_location("vf_repo_mjcf_schema", path)
    mod = importlib.util.module_from_spec(spec)
    import sys
    sys.modules["vf_repo_mjcf_schema"] = mod          # dataclasses needs the module registered
    spec.loader.exec_module(mod)
    return mod


class AInfo:
    __slots__ = ("name", "type", "target", "lo", "hi", "required", "nodefault", "facets", "default", "keywords",
                 "doc", "req_schema", "req_both", "range_stated")
    # required   : union (schema file OR XMLreference says required)          -> what a conforming document must supply
    # req_schema : the schema file's flag                                      (the only source in <default> context)
    # req_both   : intersection (XMLreference silent counts as agreeing)       -> what a missing-required label needs
    # doc        : mjcf_docref.DocAttr or None;  range_stated: XMLreference states the numeric range of the facet

    def __repr__(self):
        return "A(%s:%s[%s..%s]%s)" % (self.name, self.type, self.lo, self.hi, " req" if self.required else "")


class EInfo:
    __slots__ = ("name", "tag", "attrs", "children", "cons", "variants", "alias")


class SchemaModel:
    def __init__(self, repo, dims):
        """dims: mapping of symbolic arity bounds (mjNREF, ...) to integers (taken from the tree's headers)."""
        self.mod = _load_parser(repo)
        self.S = self.mod.parse_file(str(repo / "src" / "xml" / "mjcf.schema"))
        S, mod = self.S, self.mod
        self.enums = {n: e.keywords() for n, e in S.enums.items()}
        self.el = {}
        for name, e in S.elements.items():
            ei = EInfo()
            ei.name, ei.tag, ei.alias = name, e.xml_name(), e.facets.get("alias")
            ei.attrs = {}
            for a in S.expanded_attrs(e):
                ai = AInfo()
                ai.name, ai.type, ai.target = a.name, a.type, a.target
                ai.lo = a.arity.lo
                hi = a.arity.hi
                ai.hi = dims[hi] if isinstance(hi, str) else hi
                ai.required = ai.req_schema = ai.req_both = bool(a.facets.get("required"))
                ai.doc, ai.range_stated = None, False
                ai.nodefault = bool(a.facets.get("nodefault"))
                ai.facets = dict(a.facets)
                ai.default = a.default
                ai.keywords = self.enums.get(a.target) if a.type in ("enum", "flags") else None
                ei.attrs[a.name] = ai
            ei.children = [(c.name, c.card) for c in e.children()]
            ei.cons, ei.variants = [], []
            for c in e.constraints():
                ei.cons.append((c.kind, [tuple(b) for b in c.bundles]))
            seen, stack = set(), [m.group for m in e.members if isinstance(m, mod.Use)]
            while stack:
                g = stack.pop()
                if g in seen:
                    continue
                seen.add(g)
                grp = S.groups[g]
                if grp.variant:
                    ei.variants.append([m.name for m in grp.members if isinstance(m, mod.Attr)])
                for m in grp.members:
                    if isinstance(m, mod.Constraint):
                        ei.cons.append((m.kind, [tuple(b) for b in m.bundles]))
                    elif isinstance(m, mod.Use):
                        stack.append(m.group)
            self.el[name] = ei
        self.all_tags = sorted({e.tag for e in self.el.values()})
        self.all_attr_names = sorted({a for e in self.el.values() for a in e.attrs})
        self.kinds = self._reach()
        self.default_projections = {cd for cd, _, _, cctx in self.children("default", "normal") if cctx == "default"}
        self._merge_doc(repo)
        self.wrapped = self._wrapped_kinds()

    # ---- the documented language (XMLreference.rst) ------------------------------------------------------------------
    def doc_label(self, decl):
        """XMLreference anchor of the element kind: '<parent tag>-<tag>' or the bare tag"""
        path = self.kinds.get((decl, "normal"))
        if not path:
            return None
        tags = [t for _, _, t in path]
        par = tags[-2] if len(tags) > 1 else None
        if par == "worldbody":
            par = "body"
        for c in ("%s-%s" % (par, tags[-1]), tags[-1]):
            if self.docref.get(c):
                return c
        return None

    def _merge_doc(self, repo):
        from . import mjcf_docref
        self.docref = mjcf_docref.parse(repo)
        self.doc_disagreements = []          # (element label, attribute, what) : reported once in the evidence, outside C37
        for decl, ei in self.el.items():
            lab = self.doc_label(decl)
            if not lab:
                continue
            for n, a in ei.attrs.items():
                d = self.docref[lab].get(n)
                if d is None or d.base is None:
                    continue
                a.doc = d
                known = d.status_known
                a.required = a.req_schema or d.required
                a.req_both = a.req_schema and (d.required or not known)
                if a.required != a.req_both:
                    self.doc_disagreements.append((lab, n, "required: schema=%s XMLreference=%s" % (a.req_schema, d.required)))
                st = mjcf_docref.stated_range(d)
                f = a.facets
                a.range_stated = bool((f.get("positive") and "positive" in st) or
                                      ("min" in f and f["min"] == 0 and ("min0" in st)) or
                                      ("min" in f and f["min"] == 0 and "positive" in st))
                t = self._type_disagreement(a)
                if t:
                    self.doc_disagreements.append((lab, n, t))

    def _type_disagreement(self, a):
        d = a.doc
        sb = {"double": "real", "float": "real", "int": "int", "bool": "enum", "enum": "enum", "flags": "enum"}.get(a.type, "string")
        if d.base != sb:
            return "type: schema=%s XMLreference=%s" % (a.type, d.raw.split(",")[0])
        if d.base in ("int", "real") and d.n is not None and a.hi != d.n:
            return "arity: schema=[%s..%s] XMLreference=(%s)" % (a.lo, a.hi, d.n)
        if d.base == "enum" and a.keywords is not None and set(d.keywords) != set(a.keywords):
            return "keywords: schema-only=%s XMLreference-only=%s" % (sorted(set(a.keywords) - set(d.keywords)), sorted(set(d.keywords) - set(a.keywords)))
        return None

    def is_required(self, decl, a, ctx, mode="any"):
        if ctx == "default" and decl in self.default_projections:
            # direct children of <default> set the attributes of the class's dummy element (XMLreference, default/*: "sets the
            # attributes of the dummy ... element"): only the schema file speaks about presence there
            return a.req_schema
        return a.required if mode == "any" else a.req_both

    # ---- context-dependent views -----------------------------------------------------------------------------------
    def attrs(self, decl, ctx):
        ei = self.el[decl]
        if ctx != "default" or decl.startswith("default_") or decl == "default":
            return ei.attrs
        return {n: a for n, a in ei.attrs.items() if n not in ("name", "class") and not a.nodefault}

    def cons(self, decl, ctx):
        ei = self.el[decl]
        names = self.attrs(decl, ctx)
        return [(k, b) for k, b in ei.cons if all(n in names for bb in b for n in bb)]

    def variants(self, decl, ctx):
        names = self.attrs(decl, ctx)
        return [[n for n in v if n in names] for v in self.el[decl].variants]

    def children(self, decl, ctx, surface="validator"):
        """-> list of (child decl, card, tag, child ctx).
        surface='validator' : what the documented validator admits -- for the three body aliases that is the FULL body
                              surface (mjcf.schema: "The runtime validator admits the full body surface for all three
                              aliases (mjXSchema::NameMatch); the reader enforces the restrictions"), so a body-row child
                              of worldbody/frame/replicate is never labelled an unknown element;
        surface='compilable': the alias's own child list ("the compilable surface"), used to build documents."""
        out = []
        src = decl
        if surface == "validator" and self.el[decl].alias:
            src = self.el[decl].alias
        for cname, card in self.el[src].children:
            if decl == "mujoco" and cname == "body":
                out.append(("worldbody", "*", "worldbody", "normal"))        # alias: level-1 tag of the body row
                continue
            if ctx == "default" and decl != "default" and cname == "plugin":
                continue                                                       # plugin configuration is not per-class
            cctx = ctx
            if decl == "default":
                cctx = "normal" if (cname == "default" or cname.startswith("default_")) else "default"
            out.append((cname, card, self.el[cname].tag, cctx))
        return out

    def _reach(self):
        """all reachable (decl, ctx) kinds with one shortest path [(decl, ctx, tag), ...] from the root"""
        start = ("mujoco", "normal")
        paths = {start: [("mujoco", "normal", "mujoco")]}
        queue = [start]
        while queue:
            k = queue.pop(0)
            for cd, card, tag, cctx in self.children(*k, surface="compilable"):
                ck = (cd, cctx)
                if ck not in paths:
                    paths[ck] = paths[k] + [(cd, cctx, tag)]
                    queue.append(ck)
        return paths

    # ---- body-level element kinds hosted inside <frame> / <replicate> ------------------------------------------------
    WRAP_CHAINS = (("frame",), ("replicate",), ("frame", "replicate"), ("replicate", "frame"), ("frame", "frame"),
                   ("replicate", "replicate"))

    def _wrapped_kinds(self):
        """every element kind of the kinematic tree, hosted below a chain of <frame>/<replicate> meta-elements, in two forms:
        'direct'  worldbody/[body/]W.../X      the element sits directly in the meta-element
        'inbody'  worldbody/W.../body/X        the element sits in an ordinary <body> that is nested in the meta-element
        -> {(decl, ctx, 'chain:form'): path}.  The alias child lists of mjcf.schema (the 'compilable surface') decide which
        direct hosts exist (e.g. no flexcomp directly in replicate)."""
        out = {}
        body = ("body", "normal", "body")
        for (decl, ctx), path in self.kinds.items():
            tags = [t for _, _, t in path]
            if len(path) < 3 or tags[1] != "worldbody" or ctx != "normal":
                continue
            tail = list(path[2:])
            needs_body = tail[0][0] == "body" and len(tail) > 1
            inner = tail[1:] if needs_body else tail
            for chain in self.WRAP_CHAINS:
                w = [(c, "normal", c) for c in chain]
                ok = inner[0][0] in {cd for cd, _, _, _ in self.children(chain[-1], "normal", surface="compilable")}
                if ok:
                    out[(decl, ctx, "+".join(chain) + ":direct")] = list(path[:2]) + ([body] if needs_body else []) + w + inner
                out[(decl, ctx, "+".join(chain) + ":inbody")] = list(path[:2]) + w + [body] + inner
        return out

    @staticmethod
    def kind_name(decl, ctx, wrap=None):
        return (wrap + ">" if wrap else "") + ("default/" if ctx == "default" else "") + decl

    # ---- reference validator ---------------------------------------------------------------------------------------
    def check_value(self, a, v, mode="any"):
        """-> None or the rule kind broken by value text v of attribute a.
        mode 'any' : broken as soon as ONE source (schema file, XMLreference) rejects the value  (conformance test)
        mode 'both': broken only if BOTH sources reject it, for the same rule kind            (violation labelling)"""
        rs = self._check_schema(a, v)
        if rs == "range" and mode == "both" and not a.range_stated:
            rs = None                   # a min=/max=/positive facet that XMLreference does not state is not a promise
        if a.doc is None:
            return rs
        rd = self._check_doc(a, v)
        if mode == "any":
            return rs or rd
        if rs and rd:
            return rs if rs == rd or rs == "range" else None
        if rs == "range" and a.range_stated:
            return rs
        return None

    def _check_doc(self, a, v):
        """value text v against the type XMLreference documents for the attribute"""
        d = a.doc
        if d.base in ("int", "real"):
            toks = v.split()
            rx = _INT_RE if d.base == "int" else _FLOAT_RE
            if any(not rx.match(t) for t in toks):
                return "non-numeric"
            if d.n is not None:
                if a.type in NUMERIC and a.hi == d.n:
                    lo, hi = a.lo, d.n          # "(N)" with a schema range [lo..N]: shorter arrays are 'specified otherwise' in the text
                else:
                    lo = hi = d.n
                if len(toks) > hi:
                    return "too-many"
                if len(toks) < lo:
                    return "too-few"
            return None
        if d.base == "enum":
            toks = v.split() if a.type == "flags" else [v]
            if any(t not in d.keywords for t in toks) or len(set(toks)) != len(toks):
                return "bad-keyword"
            return None
        return None                      # string: "An arbitrary string"

    def _check_schema(self, a, v):
        """value text v against the schema file's declaration"""
        if a.type in NUMERIC:
            toks = v.split()
            rx = _INT_RE if a.type == "int" else _FLOAT_RE
            if any(not rx.match(t) for t in toks):
                return "non-numeric"
            if a.hi is not None and len(toks) > a.hi:
                return "too-many"
            if len(toks) < a.lo:
                return "too-few"
            for t in toks:
                x = float(t)
                if "min" in a.facets and x < a.facets["min"]:
                    return "range"
                if "max" in a.facets and x > a.facets["max"]:
                    return "range"
                if a.facets.get("positive") and not x > 0:
                    return "range"
            return None
        if a.type == "bool":
            return None if v in ("true", "false") else "bad-keyword"
        if a.type == "enum":
            return None if v in a.keywords else "bad-keyword"
        if a.type == "flags":
            toks = v.split()
            if any(t not in a.keywords for t in toks) or len(set(toks)) != len(toks):
                return "bad-keyword"
            return None
        if a.type == "chars":
            if len(v) > a.hi:
                return "too-many"
            if len(v) < a.lo:
                return "too-few"
            if "pattern" in a.facets and not re.fullmatch(a.facets["pattern"], v):
                return "pattern"
            return None
        return None

    def check_element(self, node, decl, ctx, mode="any"):
        """violations local to one element (attributes, constraints, direct children) -> list of (rule, detail)"""
        out = []
        attrs = self.attrs(decl, ctx)
        for n, v in node.attrib.items():
            if n not in attrs:
                out.append(("unknown-attribute", n))
                continue
            r = self.check_value(attrs[n], v, mode)
            if r:
                out.append((r, n))
        for n, a in attrs.items():
            if self.is_required(decl, a, ctx, mode) and n not in node.attrib:
                out.append(("missing-required", n))
        present = set(node.attrib)
        for kind, bundles in self.cons(decl, ctx):
            anyp = [any(n in present for n in b) for b in bundles]
            allp = [all(n in present for n in b) for b in bundles]
            flat = [n for b in bundles for n in b]
            if kind == "exclusive" and sum(anyp) > 1:
                out.append(("exclusive", "|".join(" ".join(b) for b in bundles)))
            elif kind == "together" and 0 < sum(n in present for n in flat) < len(flat):
                out.append(("together", " ".join(flat)))
            elif kind == "requires" and bundles[0][0] in present and bundles[1][0] not in present:
                out.append(("requires", " ".join(flat)))
            elif kind == "oneof" and not any(allp):
                out.append(("oneof", "|".join(" ".join(b) for b in bundles)))
        for v in self.variants(decl, ctx):
            if sum(n in present for n in v) > 1:
                out.append(("variant", " ".join(v)))
        kids = self.children(decl, ctx)
        bytag = {tag: (cd, card, cctx) for cd, card, tag, cctx in kids}
        counts = {}
        for ch in node:
            if ch.tag not in bytag:
                out.append(("unknown-element", ch.tag))
            else:
                counts[ch.tag] = counts.get(ch.tag, 0) + 1
        for tag, n in counts.items():
            if bytag[tag][1] == "?" and n > 1:
                out.append(("repeated-child", tag))
        return out

    def validate(self, root, mode="any"):
        """whole-document reference validation -> list of (rule, kind name, detail); see check_value for the modes"""
        out = []
        if root.tag != "mujoco":
            return [("unknown-element", "", root.tag)]

        def rec(node, decl, ctx):
            for r, d in self.check_element(node, decl, ctx, mode):
                out.append((r, self.kind_name(decl, ctx), d))
            bytag = {tag: (cd, cctx) for cd, card, tag, cctx in self.children(decl, ctx)}
            for ch in node:
                if ch.tag in bytag:
                    rec(ch, *bytag[ch.tag])
        rec(root, "mujoco", "normal")
        return out

    def walk(self, root):
        """-> list of (node, decl, ctx, parent) for every element that the schema can place"""
        out = []

        def rec(node, decl, ctx, parent):
            out.append((node, decl, ctx, parent))
            bytag = {tag: (cd, cctx) for cd, card, tag, cctx in self.children(decl, ctx)}
            for ch in node:
                if ch.tag in bytag:
                    rec(ch, *bytag[ch.tag], node)
        if root.tag == "mujoco":
            rec(root, "mujoco", "normal", None)
        return out


# ------------------------------------------------------------------------------------------------- value generation

PRELUDE = """<mujoco model="vfhost">
  <default><default class="cls1"/></default>
  <asset>
    <texture name="tex1" type="2d" builtin="checker" width="8" height="8" rgb1="1 1 1" rgb2="0 0 0"/>
    <material name="m1"/>
    <hfield name="hf1" nrow="2" ncol="2" size="1 1 1 1"/>
    <mesh name="mesh1" vertex="0 0 0 1 0 0 0 1 0 0 0 1" face="0 2 1 0 1 3 0 3 2 1 2 3"/>
  </asset>
  <worldbody>
    <body name="b1" pos="0 0 1">
      <joint name="j1" type="hinge"/><geom name="g1" size="0.1"/><site name="s1"/><camera name="c1"/><light name="l1"/>
      <body name="b2" pos="0 0 0.5"><joint name="j2" type="ball"/><geom name="g2" size="0.1"/><site name="s2"/></body>
    </body>
    <body name="b3" pos="1 0 1"><joint name="j3" type="slide"/><geom name="g3" size="0.1"/><site name="s3"/></body>
  </worldbody>
  <tendon><fixed name="t1"><joint joint="j1" coef="1"/></fixed></tendon>
  <actuator><motor name="a1" joint="j1"/></actuator>
  <custom><numeric name="n1" data="1"/><text name="x1" data="t"/></custom>
</mujoco>
"""

REFS = {"body": "b1", "joint": "j1", "geom": "g1", "site": "s1", "camera": "c1", "light": "l1", "tendon": "t1",
        "actuator": "a1", "material": "m1", "texture": "tex1", "mesh": "mesh1", "hfield": "hf1", "default": "cls1",
        "numeric": "n1", "text": "x1"}

# (element kind, attribute) -> value that lets the host compile (semantic knowledge, not part of the oracle)
HINTS = {
    ("ballquat", "joint"): "j2", ("ballangvel", "joint"): "j2",
    ("geom", "size"): "0.1", ("composite_geom", "size"): "0.05", ("composite", "type"): "cable", ("inertial", "diaginertia"): "1 1 1",
    ("connect", "body1"): "b1", ("connect", "anchor"): "0 0 0", ("weld", "body1"): "b1",
    ("equality_joint", "joint1"): "j1", ("exclude", "body1"): "b1", ("exclude", "body2"): "b3",
    ("replicate", "count"): "2", ("text", "data"): "abc", ("numeric", "size"): "2",
    ("key", "time"): "0", ("element", "objtype"): "body", ("element", "objname"): "b1",
    ("frame_object", "objtype"): "body",
    ("hfield", "nrow"): "2", ("hfield", "ncol"): "2",
    ("spatial_site", "site"): "s1", ("fixed_joint", "coef"): "1",
    ("bone", "bindpos"): "0 0 0", ("bone", "bindquat"): "1 0 0 0",
    ("layer", "role"): "rgb",
}
# extra attributes/children that make a freshly created element of this kind compilable
EXTRA_ATTR = {
    "geom": {"size": "0.1"}, "inertial": {"diaginertia": "1 1 1"}, "numeric": {"data": "1"},
    "spatial": {}, "texture": {"builtin": "flat", "width": "4", "height": "4", "type": "2d"},
    "hfield": {"nrow": "2", "ncol": "2"}, "mesh": {"vertex": "0 0 0 1 0 0 0 1 0 0 0 1"},
    "fixed_joint": {"coef": "1"}, "flexcomp": {"type": "grid", "count": "2 2 1", "spacing": ".1 .1 .1", "dim": "2"},
    "composite": {"type": "cable", "count": "3 1 1", "curve": "s", "size": "1"},
    "pair": {"geom1": "g1", "geom2": "g3"},
    "jointpos": {}, "rangefinder": {},
}
EXTRA_CHILD = {
    "body": ['<geom size="0.1"/>'],
    "spatial": ['<site site="s1"/>', '<site site="s3"/>'],
    "fixed": ['<joint joint="j1" coef="1"/>'],
    "tuple": [],
    "composite": ['<geom size=".01"/>'],
}
# values for attributes that XMLreference (not the schema file) calls required: semantically valid for the prelude / EXTRA_ATTR hosts
REQUIRED_HINT = {
    "pin": {"id": "0", "range": "0 1", "grid": "0 0", "gridrange": "0 0 1 1"},
    "bone": {"bindpos": "0 0 0", "bindquat": "1 0 0 0", "vertid": "0", "vertweight": "1"},
    "pulley": {"divisor": "2"}, "user": {"dim": "1"}, "layer": {"texture": "tex1"},
    "extension_plugin": {"plugin": "mujoco.elasticity.cable"},
    "adhesion": {"body": "b1"}, "pair": {"geom1": "g1", "geom2": "g3"}, "fixed_joint": {"coef": "1"},
    "composite": {"count": "3 1 1"},
}
# second-chance hosts: attributes that the hand-written reader / compiler insists on although neither the schema file nor
# XMLreference marks them required (a schema-class rejection of the first-chance host is reported by the check; the enriched
# host only restores coverage of the other rules for the element kind)
ENRICH = {
    "attach": {"body": "b3"}, "dcmotor": {"motorconst": "0.1", "resistance": "1", "joint": "j1"},
    "extension_plugin": {"plugin": "mujoco.elasticity.cable"},
    "bone": {"bindpos": "0 0 0", "bindquat": "1 0 0 0", "vertid": "0", "vertweight": "1"},
    "pulley": {"divisor": "2"}, "user": {"dim": "1"}, "layer": {"texture": "tex1"}, "config": {"value": "1"},
    "skin": {"vertex": "0 0 0 1 0 0 0 1 0", "face": "0 1 2"},
    "motor": {"joint": "j1"}, "position": {"joint": "j1"}, "velocity": {"joint": "j1"}, "intvelocity": {"joint": "j1", "actrange": "-1 1"},
    "general": {"joint": "j1"}, "damper": {"joint": "j1", "ctrlrange": "0 1"}, "cylinder": {"joint": "j1"}, "muscle": {"joint": "j1"},
    "adhesion": {"body": "b1", "ctrlrange": "0 1"}, "pid": {"joint": "j1"}, "orientation": {"site": "s1"},
}

OBJNAME_FOR = {"body": "b1", "xbody": "b1", "geom": "g1", "site": "s1", "camera": "c1"}


class DocGen:
    def __init__(self, model, rng):
        self.M = model
        self.rng = rng
        self.uid = 0

    def fresh(self, prefix="vf"):
        self.uid += 1
        return "%s_%d" % (prefix, self.uid)

    # ---- values ----------------------------------------------------------------------------------------------------
    def numbers(self, a, n):
        rng = self.rng
        vals = []
        as_int = a.type == "int" or (a.doc is not None and a.doc.base == "int")      # integers satisfy int and real alike
        for _ in range(n):
            if as_int:
                x = int(rng.integers(1, 4))
                if "max" in a.facets:
                    x = min(x, int(a.facets["max"]))
                vals.append(str(x))
            else:
                vals.append(repr(round(float(rng.uniform(0.1, 0.9)), 3)))
        return " ".join(vals)

    def count_for(self, a, how):
        """how: 'min' | 'max' | 'any' -> a token count that the schema file AND XMLreference accept (None: there is none)"""
        lo = max(a.lo, 1)
        hi = a.hi if a.hi is not None else lo + 3
        d = a.doc
        if d is not None and d.base in ("int", "real") and d.n is not None and a.hi != d.n:
            # the documented length differs from the schema's upper bound: only the documented length satisfies both
            if d.n < lo or (a.hi is not None and d.n > a.hi):
                return None
            return d.n
        if how == "min":
            return lo
        if how == "max":
            return hi
        return int(self.rng.integers(lo, hi + 1))

    def valid_value(self, decl, a, how="any", avoid=None):
        """a value that conforms to the schema file AND to the type XMLreference documents (None when the two leave no
        common value); the result is re-checked against both sources"""
        v = self._valid_value(decl, a, how, avoid)
        if v is not None and self.M.check_value(a, v, "any") is not None:
            hint = HINTS.get((decl, a.name))
            v = hint if hint is not None and self.M.check_value(a, hint, "any") is None else None
        return v

    def _valid_value(self, decl, a, how="any", avoid=None):
        rng = self.rng
        hint = HINTS.get((decl, a.name))
        if hint is not None and how == "any" and avoid is None and rng.random() < 0.85:
            return hint
        d = a.doc
        if a.type in NUMERIC:
            n = self.count_for(a, how)
            return None if n is None else self.numbers(a, n)
        kws = a.keywords
        if kws is not None and d is not None and d.base == "enum":
            kws = [k for k in kws if k in d.keywords]         # keywords that only one source lists are not 'conforming'
            if not kws:
                return None
        if a.type == "bool":
            return ["true", "false"][int(rng.integers(2))]
        if a.type == "enum":
            ks = [k for k in kws if k != avoid] or kws
            return ks[int(rng.integers(len(ks)))]
        if a.type == "flags":
            k = int(rng.integers(1, len(kws) + 1))
            return " ".join(rng.permutation(kws)[:k])
        if d is not None and a.type == "string" and d.base == "enum":
            return d.keywords[int(rng.integers(len(d.keywords)))]
        if d is not None and a.type == "string" and d.base in ("int", "real"):
            return " ".join(["1"] * (d.n or 1))               # numeric text: a string for the schema file, a number for XMLreference
        if a.type == "ref":
            return REFS.get(a.target, "vf_noref")
        if a.type == "id":
            return self.fresh(a.target)
        if a.type == "chars":
            if "pattern" in a.facets:
                m = re.fullmatch(r"\[([^\]]+)\]\{(\d+)\}", a.facets["pattern"])
                if m:
                    cs = m.group(1)
                    return "".join(cs[int(rng.integers(len(cs)))] for _ in range(int(m.group(2))))
            n = a.lo if how == "min" else a.hi if how == "max" else int(rng.integers(max(a.lo, 1), a.hi + 1))
            return "abcdefghijklmnop"[:max(n, 1)]
        if a.type == "file":
            return "vf_nofile.bin"
        if a.name == "objname":
            return "b1"
        return "vfs"

    def invalid_value(self, decl, a, rule):
        """value text that breaks exactly `rule` for attribute a under BOTH sources, or None if the rule does not apply to a
        (or only one of the schema file / XMLreference rejects the value)"""
        v = self._invalid_value(decl, a, rule)
        if v is not None and self.M.check_value(a, v, "both") != rule:
            return None
        return v

    def _invalid_value(self, decl, a, rule):
        rng = self.rng
        if rule == "bad-keyword":
            if a.type == "bool":
                return ["maybe", "True", "1", "yes"][int(rng.integers(4))]
            if a.type == "enum":
                pool = ["vfbad", a.keywords[0] + "x", a.keywords[-1].upper() + "_"]
                dk = a.doc.keywords if a.doc is not None and a.doc.keywords else []
                others = [k for ks in self.M.enums.values() for k in ks if k not in a.keywords and k not in dk]
                if others:
                    pool.append(others[int(rng.integers(len(others)))])
                return pool[int(rng.integers(len(pool)))]
            if a.type == "flags":
                good = a.keywords[int(rng.integers(len(a.keywords)))]
                return [good + " vfbad", "vfbad", good + " " + good][int(rng.integers(3))]
            return None
        if rule == "too-many":
            if a.type in NUMERIC and a.hi is not None:
                return self.numbers(a, a.hi + 1 + int(rng.integers(0, 2)))
            if a.type == "chars":
                return "xyzxyzxyzxyzxyzxyz"[:a.hi + 1] if "pattern" in a.facets else "abcdefghijklmnopqrstu"[:a.hi + 1]
            return None
        if rule == "too-few":
            if a.type in NUMERIC and a.lo >= 2:
                return self.numbers(a, int(rng.integers(1, a.lo)))
            if a.type == "chars" and a.lo >= 2:
                return "xyz"[:a.lo - 1]
            return None
        if rule == "non-numeric":
            if a.type not in NUMERIC:
                return None
            n = self.count_for(a, "any")
            toks = self.numbers(a, n).split()
            bad = ["abc", "1.2.3", "--1", "1e+", "2;", "0.5x", "one"]
            toks[int(rng.integers(n))] = bad[int(rng.integers(len(bad)))]
            return " ".join(toks)
        if rule == "range":
            if a.type not in NUMERIC:
                return None
            n = self.count_for(a, "min")
            if "min" in a.facets:
                x = a.facets["min"] - 1 - int(rng.integers(0, 3))
            elif "max" in a.facets:
                x = a.facets["max"] + 1 + int(rng.integers(0, 3))
            elif a.facets.get("positive"):
                x = [0, -1, -0.5][int(rng.integers(3))]
            else:
                return None
            x = int(x) if a.type == "int" else x
            return " ".join([str(x)] * n)
        if rule == "pattern":
            if a.type == "chars" and "pattern" in a.facets:
                for cand in ("abq", "x1z", "xy ", "XYq"):
                    if len(cand) >= a.lo and len(cand) <= a.hi and not re.fullmatch(a.facets["pattern"], cand):
                        return cand
            return None
        return None

    # ---- elements --------------------------------------------------------------------------------------------------
    enrich = False

    def minimal(self, decl, ctx, tag=None):
        """a fresh minimal conforming element of the kind (required attributes, one complete `oneof` bundle)"""
        M = self.M
        node = ET.Element(tag or M.el[decl].tag)
        attrs = M.attrs(decl, ctx)
        for n, v in REQUIRED_HINT.get(decl, {}).items():
            if n in attrs and M.is_required(decl, attrs[n], ctx):
                node.set(n, v)
        for n, a in attrs.items():
            if M.is_required(decl, a, ctx) and n not in node.attrib:
                v = self.valid_value(decl, a)
                if v is not None:
                    node.set(n, v)
        if ctx != "default":
            for n, v in EXTRA_ATTR.get(decl, {}).items():
                if n in attrs and n not in node.attrib:
                    node.set(n, v)
        if self.enrich:
            for n, v in ENRICH.get(decl, {}).items():
                if n in attrs and n not in node.attrib:
                    node.set(n, v)
        for kind, bundles in M.cons(decl, ctx):
            if kind == "oneof" and not any(all(n in node.attrib for n in b) for b in bundles):
                for n in bundles[0]:
                    node.set(n, self.valid_value(decl, attrs[n]))
        if "objtype" in node.attrib and "objname" in node.attrib and node.get("objtype") in OBJNAME_FOR:
            node.set("objname", OBJNAME_FOR[node.get("objtype")])
        elif "objtype" in node.attrib and "objname" in node.attrib and attrs["objtype"].type == "enum":
            node.set("objtype", "body")
            node.set("objname", "b1")
        if ctx != "default":
            for txt in EXTRA_CHILD.get(decl, []):
                node.append(ET.fromstring(txt))
        return node

    def host(self, kind, enrich=False):
        """-> (root, target node) : prelude + chain of minimal elements down to the kind"""
        M = self.M
        self.enrich = enrich
        root = ET.fromstring(PRELUDE)
        path = M.wrapped[tuple(kind)] if len(kind) == 3 else M.kinds[tuple(kind)]
        node = root
        for decl, ctx, tag in path[1:]:
            ch = self.minimal(decl, ctx, tag)
            if decl == "default" and ctx == "normal" and node.tag == "default":
                ch.set("class", self.fresh("cls"))
            node.append(ch)
            node = ch
        self.enrich = False
        return root, node


def serialize(root):
    return ET.tostring(root, encoding="unicode")


META = ("frame", "replicate")


def unwrap_meta(root, target):
    """copy of the document in which every <frame>/<replicate> ANCESTOR of `target` (an element of `root`) is dissolved: its
    children take its place in the enclosing (world)body; `target` itself and everything else stay as they are.
    -> (copy, number of dissolved elements).  Counterfactual for 'the schema is not enforced inside frame/replicate'."""
    import copy
    target.set("vf__target", "1")
    r = copy.deepcopy(root)
    del target.attrib["vf__target"]

    def chain(node, trail):
        if "vf__target" in node.attrib:
            return trail
        for ch in node:
            t = chain(ch, trail + [node])
            if t is not None:
                return t
        return None
    anc = chain(r, []) or []
    n = 0
    for i in range(len(anc) - 1, 0, -1):            # innermost first; anc[0] is the root
        ch, parent = anc[i], anc[i - 1]
        if ch.tag in META:
            idx = list(parent).index(ch)
            parent.remove(ch)
            for k, g in enumerate(list(ch)):
                parent.insert(idx + k, g)
            anc[i] = parent                           # the children now hang in the parent
            n += 1
    for e in r.iter():
        e.attrib.pop("vf__target", None)
    return r, n


def _selftest():
    """tiny self-test on hand-written schema-independent properties: the validator accepts the prelude; the documented language
    (XMLreference) tightens the schema file where it is laxer; meta-elements dissolve"""
    from .. import build
    from ..mjconst import E
    dims = {k: getattr(E, k) for k in ("mjNREF", "mjNIMP", "mjNEQDATA", "mjNFLUID", "mjNBIAS", "mjNGAIN", "mjNDYN") if hasattr(E, k)}
    M = SchemaModel(build.REPO, dims)
    assert M.validate(ET.fromstring(PRELUDE)) == [], M.validate(ET.fromstring(PRELUDE))
    bad = ET.fromstring(PRELUDE)
    bad.find("worldbody/body/geom").set("size", "1 2 3 4")
    assert [r for r, _, _ in M.validate(bad)] == ["too-many"]
    assert [r for r, _, _ in M.validate(bad, "both")] == ["too-many"]
    # XMLreference: sensor/user dim "int, required"; flexcomp/pin id "int(n), required"
    assert M.el["user"].attrs["dim"].required and not M.el["user"].attrs["dim"].req_both
    pid = M.el["pin"].attrs["id"]
    assert M.check_value(pid, "0.5", "any") == "non-numeric" and M.check_value(pid, "0.5", "both") is None
    assert M.check_value(pid, "abc", "both") == "non-numeric" and M.check_value(pid, "3 4", "any") is None
    nkey = M.el["size"].attrs["nkey"]
    assert M.check_value(nkey, "-4", "any") == "range" and M.check_value(nkey, "-4", "both") is None
    assert M.check_value(M.el["statistic"].attrs["extent"], "-1", "both") == "range"
    doc = ET.fromstring('<mujoco><worldbody><body><frame><geom/><replicate count="2"><site><frame/></site></replicate></frame></body></worldbody></mujoco>')
    u, n = unwrap_meta(doc, doc.find("worldbody/body/frame/replicate/site"))
    assert n == 2 and [c.tag for c in u.find("worldbody/body")] == ["geom", "site"] and len(u.find("worldbody/body/site")) == 1
    u, n = unwrap_meta(doc, doc.find("worldbody/body/frame/replicate"))
    assert n == 1 and [c.tag for c in u.find("worldbody/body")] == ["geom", "replicate"]
    assert "vf__" not in serialize(doc) + serialize(u)
    return len(M.kinds), len(M.wrapped)


if __name__ == "__main__":
    print(_selftest())
