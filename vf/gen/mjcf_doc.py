"""Documents generated from src/xml/mjcf.schema (C37 schema oracle).

The schema language is parsed by the tree's own doc/generate/mjcf_schema.py (imported by path); everything below is an
independent reading of the *documented* semantics of that language (syntax reference at the top of mjcf.schema and the
module docstring of mjcf_schema.py):

* SchemaModel(repo)      per element kind: attributes (type / arity / enum keywords / required / nodefault / range
                         facets), child cardinalities, presence constraints, variant groups, default-context projections
* validate(root)         reference validator over an ElementTree document -> list of (rule, kind, detail)
* Hosts                  valid host documents: a fixed prelude of referents plus a chain of minimal elements down to
                         the target element kind
* DocGen.valid_value / invalid_value(rule)   attribute values that conform / break exactly one rule; the single-step edits
                         of a host element (conforming enrichment, one violation per rule kind) live in vf/props/c37.py

Rule kinds: unknown-element, unknown-attribute, bad-keyword, too-many, too-few, non-numeric, missing-required,
repeated-child, exclusive, together, requires, oneof, variant (two members of a `variant` group), range (min/max/positive),
pattern.
"""
import importlib.util
import re
import xml.etree.ElementTree as ET

RULES = ("unknown-element", "unknown-attribute", "bad-keyword", "too-many", "too-few", "non-numeric", "missing-required",
         "repeated-child", "exclusive", "together", "requires", "oneof", "variant", "range", "pattern")

NUMERIC = ("double", "float", "int")
_FLOAT_RE = re.compile(r"[+-]?(?:\d+\.?\d*|\.\d+)(?:[eE][+-]?\d+)?$|[+-]?(?:nan|inf)$", re.I)
_INT_RE = re.compile(r"[+-]?\d+$")
BODYLIKE = ("body", "worldbody", "frame", "replicate")


def _load_parser(repo):
    path = str(repo / "doc" / "generate" / "mjcf_schema.py")
    spec = importlib.util.spec_from_file_location("vf_repo_mjcf_schema", path)
    mod = importlib.util.module_from_spec(spec)
    import sys
    sys.modules["vf_repo_mjcf_schema"] = mod          # dataclasses needs the module registered
    spec.loader.exec_module(mod)
    return mod


class AInfo:
    __slots__ = ("name", "type", "target", "lo", "hi", "required", "nodefault", "facets", "default", "keywords")

    def __repr__(self):
        return "A(%s:%s[%s..%s]%s)" % (self.name, self.type, self.lo, self.hi, " req" if self.required else "")


class EInfo:
    __slots__ = ("name", "tag", "attrs", "children", "cons", "variants", "alias")


class SchemaModel:
    def __init__(self, repo, dims):
        """dims: mapping of symbolic arity bounds (mjNREF, ...) to integers (taken from the tree's headers)."""
        self.mod = _load_parser(repo)
        self.S = self.mod.parse_file(str(repo / "src" / "xml" / "mjcf.schema"))
        S, mod = self.S, self.mod
        self.enums = {n: e.keywords() for n, e in S.enums.items()}
        self.el = {}
        for name, e in S.elements.items():
            ei = EInfo()
            ei.name, ei.tag, ei.alias = name, e.xml_name(), e.facets.get("alias")
            ei.attrs = {}
            for a in S.expanded_attrs(e):
                ai = AInfo()
                ai.name, ai.type, ai.target = a.name, a.type, a.target
                ai.lo = a.arity.lo
                hi = a.arity.hi
                ai.hi = dims[hi] if isinstance(hi, str) else hi
                ai.required = bool(a.facets.get("required"))
                ai.nodefault = bool(a.facets.get("nodefault"))
                ai.facets = dict(a.facets)
                ai.default = a.default
                ai.keywords = self.enums.get(a.target) if a.type in ("enum", "flags") else None
                ei.attrs[a.name] = ai
            ei.children = [(c.name, c.card) for c in e.children()]
            ei.cons, ei.variants = [], []
            for c in e.constraints():
                ei.cons.append((c.kind, [tuple(b) for b in c.bundles]))
            seen, stack = set(), [m.group for m in e.members if isinstance(m, mod.Use)]
            while stack:
                g = stack.pop()
                if g in seen:
                    continue
                seen.add(g)
                grp = S.groups[g]
                if grp.variant:
                    ei.variants.append([m.name for m in grp.members if isinstance(m, mod.Attr)])
                for m in grp.members:
                    if isinstance(m, mod.Constraint):
                        ei.cons.append((m.kind, [tuple(b) for b in m.bundles]))
                    elif isinstance(m, mod.Use):
                        stack.append(m.group)
            self.el[name] = ei
        self.all_tags = sorted({e.tag for e in self.el.values()})
        self.all_attr_names = sorted({a for e in self.el.values() for a in e.attrs})
        self.kinds = self._reach()

    # ---- context-dependent views -----------------------------------------------------------------------------------
    def attrs(self, decl, ctx):
        ei = self.el[decl]
        if ctx != "default" or decl.startswith("default_") or decl == "default":
            return ei.attrs
        return {n: a for n, a in ei.attrs.items() if n not in ("name", "class") and not a.nodefault}

    def cons(self, decl, ctx):
        ei = self.el[decl]
        names = self.attrs(decl, ctx)
        return [(k, b) for k, b in ei.cons if all(n in names for bb in b for n in bb)]

    def variants(self, decl, ctx):
        names = self.attrs(decl, ctx)
        return [[n for n in v if n in names] for v in self.el[decl].variants]

    def children(self, decl, ctx):
        """-> list of (child decl, card, tag, child ctx)"""
        out = []
        for cname, card in self.el[decl].children:
            if decl == "mujoco" and cname == "body":
                out.append(("worldbody", "*", "worldbody", "normal"))        # alias: level-1 tag of the body row
                continue
            if ctx == "default" and decl != "default" and cname == "plugin":
                continue                                                       # plugin configuration is not per-class
            cctx = ctx
            if decl == "default":
                cctx = "normal" if (cname == "default" or cname.startswith("default_")) else "default"
            out.append((cname, card, self.el[cname].tag, cctx))
        return out

    def _reach(self):
        """all reachable (decl, ctx) kinds with one shortest path [(decl, ctx, tag), ...] from the root"""
        start = ("mujoco", "normal")
        paths = {start: [("mujoco", "normal", "mujoco")]}
        queue = [start]
        while queue:
            k = queue.pop(0)
            for cd, card, tag, cctx in self.children(*k):
                ck = (cd, cctx)
                if ck not in paths:
                    paths[ck] = paths[k] + [(cd, cctx, tag)]
                    queue.append(ck)
        return paths

    @staticmethod
    def kind_name(decl, ctx):
        return ("default/" if ctx == "default" else "") + decl

    # ---- reference validator ---------------------------------------------------------------------------------------
    def check_value(self, a, v):
        """-> None or rule kind broken by value text v for attribute a"""
        if a.type in NUMERIC:
            toks = v.split()
            rx = _INT_RE if a.type == "int" else _FLOAT_RE
            if any(not rx.match(t) for t in toks):
                return "non-numeric"
            if a.hi is not None and len(toks) > a.hi:
                return "too-many"
            if len(toks) < a.lo:
                return "too-few"
            for t in toks:
                x = float(t)
                if "min" in a.facets and x < a.facets["min"]:
                    return "range"
                if "max" in a.facets and x > a.facets["max"]:
                    return "range"
                if a.facets.get("positive") and not x > 0:
                    return "range"
            return None
        if a.type == "bool":
            return None if v in ("true", "false") else "bad-keyword"
        if a.type == "enum":
            return None if v in a.keywords else "bad-keyword"
        if a.type == "flags":
            toks = v.split()
            if any(t not in a.keywords for t in toks) or len(set(toks)) != len(toks):
                return "bad-keyword"
            return None
        if a.type == "chars":
            if len(v) > a.hi:
                return "too-many"
            if len(v) < a.lo:
                return "too-few"
            if "pattern" in a.facets and not re.fullmatch(a.facets["pattern"], v):
                return "pattern"
            return None
        return None

    def check_element(self, node, decl, ctx):
        """violations local to one element (attributes, constraints, direct children) -> list of (rule, detail)"""
        out = []
        attrs = self.attrs(decl, ctx)
        for n, v in node.attrib.items():
            if n not in attrs:
                out.append(("unknown-attribute", n))
                continue
            r = self.check_value(attrs[n], v)
            if r:
                out.append((r, n))
        for n, a in attrs.items():
            if a.required and n not in node.attrib:
                out.append(("missing-required", n))
        present = set(node.attrib)
        for kind, bundles in self.cons(decl, ctx):
            anyp = [any(n in present for n in b) for b in bundles]
            allp = [all(n in present for n in b) for b in bundles]
            flat = [n for b in bundles for n in b]
            if kind == "exclusive" and sum(anyp) > 1:
                out.append(("exclusive", "|".join(" ".join(b) for b in bundles)))
            elif kind == "together" and 0 < sum(n in present for n in flat) < len(flat):
                out.append(("together", " ".join(flat)))
            elif kind == "requires" and bundles[0][0] in present and bundles[1][0] not in present:
                out.append(("requires", " ".join(flat)))
            elif kind == "oneof" and not any(allp):
                out.append(("oneof", "|".join(" ".join(b) for b in bundles)))
        for v in self.variants(decl, ctx):
            if sum(n in present for n in v) > 1:
                out.append(("variant", " ".join(v)))
        kids = self.children(decl, ctx)
        bytag = {tag: (cd, card, cctx) for cd, card, tag, cctx in kids}
        counts = {}
        for ch in node:
            if ch.tag not in bytag:
                out.append(("unknown-element", ch.tag))
            else:
                counts[ch.tag] = counts.get(ch.tag, 0) + 1
        for tag, n in counts.items():
            if bytag[tag][1] == "?" and n > 1:
                out.append(("repeated-child", tag))
        return out

    def validate(self, root):
        """whole-document reference validation -> list of (rule, kind name, detail)"""
        out = []
        if root.tag != "mujoco":
            return [("unknown-element", "", root.tag)]

        def rec(node, decl, ctx):
            for r, d in self.check_element(node, decl, ctx):
                out.append((r, self.kind_name(decl, ctx), d))
            bytag = {tag: (cd, cctx) for cd, card, tag, cctx in self.children(decl, ctx)}
            for ch in node:
                if ch.tag in bytag:
                    rec(ch, *bytag[ch.tag])
        rec(root, "mujoco", "normal")
        return out

    def walk(self, root):
        """-> list of (node, decl, ctx, parent) for every element that the schema can place"""
        out = []

        def rec(node, decl, ctx, parent):
            out.append((node, decl, ctx, parent))
            bytag = {tag: (cd, cctx) for cd, card, tag, cctx in self.children(decl, ctx)}
            for ch in node:
                if ch.tag in bytag:
                    rec(ch, *bytag[ch.tag], node)
        if root.tag == "mujoco":
            rec(root, "mujoco", "normal", None)
        return out


# ------------------------------------------------------------------------------------------------- value generation

PRELUDE = """<mujoco model="vfhost">
  <default><default class="cls1"/></default>
  <asset>
    <texture name="tex1" type="2d" builtin="checker" width="8" height="8" rgb1="1 1 1" rgb2="0 0 0"/>
    <material name="m1"/>
    <hfield name="hf1" nrow="2" ncol="2" size="1 1 1 1"/>
    <mesh name="mesh1" vertex="0 0 0 1 0 0 0 1 0 0 0 1" face="0 2 1 0 1 3 0 3 2 1 2 3"/>
  </asset>
  <worldbody>
    <body name="b1" pos="0 0 1">
      <joint name="j1" type="hinge"/><geom name="g1" size="0.1"/><site name="s1"/><camera name="c1"/><light name="l1"/>
      <body name="b2" pos="0 0 0.5"><joint name="j2" type="ball"/><geom name="g2" size="0.1"/><site name="s2"/></body>
    </body>
    <body name="b3" pos="1 0 1"><joint name="j3" type="slide"/><geom name="g3" size="0.1"/><site name="s3"/></body>
  </worldbody>
  <tendon><fixed name="t1"><joint joint="j1" coef="1"/></fixed></tendon>
  <actuator><motor name="a1" joint="j1"/></actuator>
  <custom><numeric name="n1" data="1"/><text name="x1" data="t"/></custom>
</mujoco>
"""

REFS = {"body": "b1", "joint": "j1", "geom": "g1", "site": "s1", "camera": "c1", "light": "l1", "tendon": "t1",
        "actuator": "a1", "material": "m1", "texture": "tex1", "mesh": "mesh1", "hfield": "hf1", "default": "cls1",
        "numeric": "n1", "text": "x1"}

# (element kind, attribute) -> value that lets the host compile (semantic knowledge, not part of the oracle)
HINTS = {
    ("ballquat", "joint"): "j2", ("ballangvel", "joint"): "j2",
    ("geom", "size"): "0.1", ("composite_geom", "size"): "0.05", ("composite", "type"): "cable", ("inertial", "diaginertia"): "1 1 1",
    ("connect", "body1"): "b1", ("connect", "anchor"): "0 0 0", ("weld", "body1"): "b1",
    ("equality_joint", "joint1"): "j1", ("exclude", "body1"): "b1", ("exclude", "body2"): "b3",
    ("replicate", "count"): "2", ("text", "data"): "abc", ("numeric", "size"): "2",
    ("key", "time"): "0", ("element", "objtype"): "body", ("element", "objname"): "b1",
    ("frame_object", "objtype"): "body",
    ("hfield", "nrow"): "2", ("hfield", "ncol"): "2",
    ("spatial_site", "site"): "s1", ("fixed_joint", "coef"): "1",
    ("bone", "bindpos"): "0 0 0", ("bone", "bindquat"): "1 0 0 0",
}
# extra attributes/children that make a freshly created element of this kind compilable
EXTRA_ATTR = {
    "geom": {"size": "0.1"}, "inertial": {"diaginertia": "1 1 1"}, "numeric": {"data": "1 2"},
    "spatial": {}, "texture": {"builtin": "flat", "width": "4", "height": "4", "type": "2d"},
    "hfield": {"nrow": "2", "ncol": "2"}, "mesh": {"vertex": "0 0 0 1 0 0 0 1 0 0 0 1"},
    "fixed_joint": {"coef": "1"}, "flexcomp": {"type": "grid", "count": "2 2 1", "spacing": ".1 .1 .1", "dim": "2"},
    "composite": {"type": "cable", "count": "3 1 1", "curve": "s", "size": "1"},
    "pair": {"geom1": "g1", "geom2": "g3"},
    "jointpos": {}, "rangefinder": {},
}
EXTRA_CHILD = {
    "body": ['<geom size="0.1"/>'],
    "spatial": ['<site site="s1"/>', '<site site="s3"/>'],
    "fixed": ['<joint joint="j1" coef="1"/>'],
    "tuple": [],
    "composite": ['<geom size=".01"/>'],
}
# second-chance hosts: attributes that the hand-written reader insists on although the schema does not mark them required
# (each of these disagreements is reported by the check on the first-chance host; the enriched host only restores coverage
# of the other rules for the element kind)
ENRICH = {
    "attach": {"body": "b3"}, "dcmotor": {"motorconst": "0.1", "resistance": "1", "joint": "j1"},
    "extension_plugin": {"plugin": "mujoco.elasticity.cable"},
    "bone": {"bindpos": "0 0 0", "bindquat": "1 0 0 0", "vertid": "0", "vertweight": "1"},
    "pulley": {"divisor": "2"}, "user": {"dim": "1"}, "layer": {"texture": "tex1"}, "config": {"value": "1"},
    "skin": {"vertex": "0 0 0 1 0 0 0 1 0", "face": "0 1 2"},
    "motor": {"joint": "j1"}, "position": {"joint": "j1"}, "velocity": {"joint": "j1"}, "intvelocity": {"joint": "j1", "actrange": "-1 1"},
    "general": {"joint": "j1"}, "damper": {"joint": "j1", "ctrlrange": "0 1"}, "cylinder": {"joint": "j1"}, "muscle": {"joint": "j1"},
    "adhesion": {"body": "b1", "ctrlrange": "0 1"}, "pid": {"joint": "j1"}, "orientation": {"site": "s1"},
}

OBJNAME_FOR = {"body": "b1", "xbody": "b1", "geom": "g1", "site": "s1", "camera": "c1"}


class DocGen:
    def __init__(self, model, rng):
        self.M = model
        self.rng = rng
        self.uid = 0

    def fresh(self, prefix="vf"):
        self.uid += 1
        return "%s_%d" % (prefix, self.uid)

    # ---- values ----------------------------------------------------------------------------------------------------
    def numbers(self, a, n):
        rng = self.rng
        vals = []
        for _ in range(n):
            if a.type == "int":
                x = int(rng.integers(1, 4))
                if "max" in a.facets:
                    x = min(x, int(a.facets["max"]))
                vals.append(str(x))
            else:
                vals.append(repr(round(float(rng.uniform(0.1, 0.9)), 3)))
        return " ".join(vals)

    def count_for(self, a, how):
        """how: 'min' | 'max' | 'any' -> a conforming token count"""
        lo = max(a.lo, 1)
        hi = a.hi if a.hi is not None else lo + 3
        if how == "min":
            return lo
        if how == "max":
            return hi
        return int(self.rng.integers(lo, hi + 1))

    def valid_value(self, decl, a, how="any", avoid=None):
        rng = self.rng
        hint = HINTS.get((decl, a.name))
        if hint is not None and how == "any" and avoid is None and rng.random() < 0.85:
            return hint
        if a.type in NUMERIC:
            return self.numbers(a, self.count_for(a, how))
        if a.type == "bool":
            return ["true", "false"][int(rng.integers(2))]
        if a.type == "enum":
            ks = [k for k in a.keywords if k != avoid] or a.keywords
            return ks[int(rng.integers(len(ks)))]
        if a.type == "flags":
            k = int(rng.integers(1, len(a.keywords) + 1))
            return " ".join(rng.permutation(a.keywords)[:k])
        if a.type == "ref":
            return REFS.get(a.target, "vf_noref")
        if a.type == "id":
            return self.fresh(a.target)
        if a.type == "chars":
            if "pattern" in a.facets:
                m = re.fullmatch(r"\[([^\]]+)\]\{(\d+)\}", a.facets["pattern"])
                if m:
                    cs = m.group(1)
                    return "".join(cs[int(rng.integers(len(cs)))] for _ in range(int(m.group(2))))
            n = a.lo if how == "min" else a.hi if how == "max" else int(rng.integers(max(a.lo, 1), a.hi + 1))
            return "abcdefghijklmnop"[:max(n, 1)]
        if a.type == "file":
            return "vf_nofile.bin"
        if a.name == "objname":
            return "b1"
        return "vfs"

    def invalid_value(self, decl, a, rule):
        """value text that breaks exactly `rule` for attribute a, or None if the rule does not apply to a"""
        rng = self.rng
        if rule == "bad-keyword":
            if a.type == "bool":
                return ["maybe", "True", "1", "yes"][int(rng.integers(4))]
            if a.type == "enum":
                pool = ["vfbad", a.keywords[0] + "x", a.keywords[-1].upper() + "_"]
                others = [k for ks in self.M.enums.values() for k in ks if k not in a.keywords]
                if others:
                    pool.append(others[int(rng.integers(len(others)))])
                return pool[int(rng.integers(len(pool)))]
            if a.type == "flags":
                good = a.keywords[int(rng.integers(len(a.keywords)))]
                return [good + " vfbad", "vfbad", good + " " + good][int(rng.integers(3))]
            return None
        if rule == "too-many":
            if a.type in NUMERIC and a.hi is not None:
                return self.numbers(a, a.hi + 1 + int(rng.integers(0, 2)))
            if a.type == "chars":
                return "xyzxyzxyzxyzxyzxyz"[:a.hi + 1] if "pattern" in a.facets else "abcdefghijklmnopqrstu"[:a.hi + 1]
            return None
        if rule == "too-few":
            if a.type in NUMERIC and a.lo >= 2:
                return self.numbers(a, int(rng.integers(1, a.lo)))
            if a.type == "chars" and a.lo >= 2:
                return "xyz"[:a.lo - 1]
            return None
        if rule == "non-numeric":
            if a.type not in NUMERIC:
                return None
            n = self.count_for(a, "any")
            toks = self.numbers(a, n).split()
            bad = ["abc", "1.2.3", "--1", "1e+", "2;", "0.5x", "one"]
            toks[int(rng.integers(n))] = bad[int(rng.integers(len(bad)))]
            return " ".join(toks)
        if rule == "range":
            if a.type not in NUMERIC:
                return None
            n = self.count_for(a, "min")
            if "min" in a.facets:
                x = a.facets["min"] - 1 - int(rng.integers(0, 3))
            elif "max" in a.facets:
                x = a.facets["max"] + 1 + int(rng.integers(0, 3))
            elif a.facets.get("positive"):
                x = [0, -1, -0.5][int(rng.integers(3))]
            else:
                return None
            x = int(x) if a.type == "int" else x
            return " ".join([str(x)] * n)
        if rule == "pattern":
            if a.type == "chars" and "pattern" in a.facets:
                for cand in ("abq", "x1z", "xy ", "XYq"):
                    if len(cand) >= a.lo and len(cand) <= a.hi and not re.fullmatch(a.facets["pattern"], cand):
                        return cand
            return None
        return None

    # ---- elements --------------------------------------------------------------------------------------------------
    enrich = False

    def minimal(self, decl, ctx, tag=None):
        """a fresh minimal conforming element of the kind (required attributes, one complete `oneof` bundle)"""
        M = self.M
        node = ET.Element(tag or M.el[decl].tag)
        attrs = M.attrs(decl, ctx)
        for n, a in attrs.items():
            if a.required:
                node.set(n, self.valid_value(decl, a))
        if ctx != "default":
            for n, v in EXTRA_ATTR.get(decl, {}).items():
                if n in attrs and n not in node.attrib:
                    node.set(n, v)
        if self.enrich:
            for n, v in ENRICH.get(decl, {}).items():
                if n in attrs and n not in node.attrib:
                    node.set(n, v)
        for kind, bundles in M.cons(decl, ctx):
            if kind == "oneof" and not any(all(n in node.attrib for n in b) for b in bundles):
                for n in bundles[0]:
                    node.set(n, self.valid_value(decl, attrs[n]))
        if "objtype" in node.attrib and "objname" in node.attrib and node.get("objtype") in OBJNAME_FOR:
            node.set("objname", OBJNAME_FOR[node.get("objtype")])
        elif "objtype" in node.attrib and "objname" in node.attrib and attrs["objtype"].type == "enum":
            node.set("objtype", "body")
            node.set("objname", "b1")
        if ctx != "default":
            for txt in EXTRA_CHILD.get(decl, []):
                node.append(ET.fromstring(txt))
        return node

    def host(self, kind, enrich=False):
        """-> (root, target node) : prelude + chain of minimal elements down to the kind"""
        M = self.M
        self.enrich = enrich
        root = ET.fromstring(PRELUDE)
        path = M.kinds[kind]
        node = root
        for decl, ctx, tag in path[1:]:
            ch = self.minimal(decl, ctx, tag)
            if decl == "default" and ctx == "normal" and node.tag == "default":
                ch.set("class", self.fresh("cls"))
            node.append(ch)
            node = ch
        self.enrich = False
        return root, node


def serialize(root):
    return ET.tostring(root, encoding="unicode")


def _selftest():
    """tiny self-test on a hand-written schema-independent property: the validator accepts the prelude"""
    from .. import build
    from ..mjconst import E
    dims = {k: getattr(E, k) for k in ("mjNREF", "mjNIMP", "mjNEQDATA", "mjNFLUID", "mjNBIAS", "mjNGAIN", "mjNDYN") if hasattr(E, k)}
    M = SchemaModel(build.REPO, dims)
    assert M.validate(ET.fromstring(PRELUDE)) == [], M.validate(ET.fromstring(PRELUDE))
    bad = ET.fromstring(PRELUDE)
    bad.find("worldbody/body/geom").set("size", "1 2 3 4")
    assert [r for r, _, _ in M.validate(bad)] == ["too-many"]
    return len(M.kinds)


if __name__ == "__main__":
    print(_selftest())
