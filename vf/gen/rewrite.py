"""Semantics-preserving rewrites of MJCF models on the XML tree (metamorphic pairs for C36).

Every rewrite takes an ElementTree root (as produced by vf/gen/model.py) and returns a dict {application-kind: count};
the rewritten tree describes the same physical model according to the documentation (modeling.rst "Frame orientations",
XMLreference compiler/angle, compiler/eulerseq, default, frame, replicate).  Conversions between orientation spellings
go through rotation matrices of vf/ref/inertia_geom.py / vf/ref/so3.py (matrix exponential), never through the compiler.
"""
import copy
import math
import xml.etree.ElementTree as ET

import numpy as np

from ..ref import inertia_geom as ig
from ..ref import so3

ORIENT = ("quat", "axisangle", "euler", "xyaxes", "zaxis")
POSED = ("body", "geom", "site", "camera", "frame", "inertial")
SEQS = ["xyz", "XYZ", "zyx", "ZYX", "xYz", "zxz", "yXz", "ZxY", "XYX", "yzx", "Zyx", "xzX"]


def f(x):
    if isinstance(x, (list, tuple, np.ndarray)):
        return " ".join(f(v) for v in x)
    return repr(float(x))


def vec(s):
    return np.array([float(v) for v in s.split()])


def parse(xml):
    return ET.fromstring(xml)


def tostring(root):
    return ET.tostring(root, encoding="unicode")


def compiler(root):
    c = root.find("compiler")
    if c is None:
        c = ET.Element("compiler")
        root.insert(0, c)
    return c


def settings(root):
    c = compiler(root)
    return c.get("angle", "degree") == "degree", c.get("eulerseq", "xyz")


def parent_map(root):
    return {ch: p for p in root.iter() for ch in p}


# ---- orientation ------------------------------------------------------------------------------------------------

def get_orient(el, degree, seq):
    """(kind|None, R) of an element's orientation attribute"""
    for k in ORIENT:
        if k in el.attrib:
            return k, ig.orient_mat(k, vec(el.get(k)), degree, seq)
    return None, np.eye(3)


def zaxis_representable(R):
    return R[2, 2] > -0.999 and np.abs(ig.orient_mat("zaxis", R[:, 2]) - R).max() < 1e-13


def set_orient(el, kind, R, degree, seq, rng):
    """spell R as `kind` on el (replacing any other spelling); False when not representable"""
    u = 180.0 / math.pi if degree else 1.0
    if kind == "quat":
        val = ig.mat_to_quat(R) * float(rng.uniform(0.5, 2.0)) * (1 if rng.random() < 0.5 else -1)
    elif kind == "axisangle":
        ax, ang = ig.mat_to_axisangle(R)
        if rng.random() < 0.5:
            ax, ang = -ax, -ang
        val = list(ax * float(rng.uniform(0.3, 3.0))) + [ang * u]
    elif kind == "euler":
        e = ig.mat_to_euler(R, seq)
        if e is None:
            return False
        val = e * u
    elif kind == "xyaxes":
        x = R[:, 0] * float(rng.uniform(0.3, 3.0))
        y = R[:, 1] * float(rng.uniform(0.3, 3.0)) + R[:, 0] * float(rng.uniform(-1, 1))
        val = list(x) + list(y)
    elif kind == "zaxis":
        if not zaxis_representable(R):
            return False
        val = R[:, 2] * float(rng.uniform(0.3, 3.0))
    else:
        raise ValueError(kind)
    for k in ORIENT:
        el.attrib.pop(k, None)
    el.set(kind, f(val))
    return True


def oriented_elements(root):
    wb = root.find("worldbody")
    out = []
    for el in wb.iter():
        if el.tag in POSED and "fromto" not in el.attrib and "fullinertia" not in el.attrib:
            out.append(el)
    return out


def rewrite_orient(root, rng, p=0.8):
    degree, seq = settings(root)
    n = {}
    for el in oriented_elements(root):
        k0, R = get_orient(el, degree, seq)
        if k0 is None or rng.random() > p:
            continue
        cands = [k for k in ORIENT if k != k0]
        rng.shuffle(cands)
        if "zaxis" in cands and zaxis_representable(R):      # rare, take it when possible
            cands.remove("zaxis")
            cands.insert(0, "zaxis")
        for k in cands:
            if set_orient(el, k, R, degree, seq, rng):
                n["orient:%s->%s" % (k0, k)] = n.get("orient:%s->%s" % (k0, k), 0) + 1
                break
    return n


def rewrite_eulerseq(root, rng):
    degree, seq = settings(root)
    cands = [s for s in SEQS if s != seq and ig.euler_seq_complete(s)]
    new = cands[int(rng.integers(0, len(cands)))]
    n = 0
    for el in root.iter():
        if "euler" in el.attrib and el.tag != "replicate":
            R = ig.orient_mat("euler", vec(el.get("euler")), degree, seq)
            if set_orient(el, "euler", R, degree, new, rng):
                n += 1
            else:
                set_orient(el, "quat", R, degree, new, rng)
        elif "euler" in el.attrib:
            R = ig.orient_mat("euler", vec(el.get("euler")), degree, seq)
            e = ig.mat_to_euler(R, new)
            if e is None:
                return {}
            el.set("euler", f(e * (180.0 / math.pi if degree else 1.0)))
            n += 1
    compiler(root).set("eulerseq", new)
    return {"eulerseq:%s" % ("intrinsic" if new.islower() else "extrinsic" if new.isupper() else "mixed"): n} if n else {}


def rewrite_angle(root, rng):
    degree, seq = settings(root)
    k = math.pi / 180.0 if degree else 180.0 / math.pi
    n = {}

    def bump(key):
        n[key] = n.get(key, 0) + 1
    for el in root.iter():
        if "euler" in el.attrib:
            el.set("euler", f(vec(el.get("euler")) * k))
            bump("angle:euler")
        if "axisangle" in el.attrib:
            v = vec(el.get("axisangle"))
            v[3] *= k
            el.set("axisangle", f(v))
            bump("angle:axisangle")
        if el.tag == "joint" and el.get("type", "hinge") in ("hinge", "ball"):
            if "range" in el.attrib:
                el.set("range", f(vec(el.get("range")) * k))
                bump("angle:joint-range")
            if el.get("type", "hinge") == "hinge":
                for a in ("ref", "springref"):
                    if a in el.attrib:
                        el.set(a, f(float(el.get(a)) * k))
                        bump("angle:joint-" + a)
    compiler(root).set("angle", "radian" if degree else "degree")
    return n


# ---- defaults ---------------------------------------------------------------------------------------------------

DEFAULTABLE = {
    "geom": ["type", "size", "density", "mass", "friction", "margin", "gap", "solref", "solimp", "condim", "contype",
             "conaffinity", "group", "priority", "solmix", "pos", "fromto"] + list(ORIENT),
    "joint": ["type", "pos", "axis", "range", "limited", "stiffness", "springref", "ref", "armature", "damping", "frictionloss",
              "margin", "solreflimit", "actuatorfrcrange", "actuatorgravcomp"],
    "site": ["pos", "size"] + list(ORIENT),
    "camera": ["pos"] + list(ORIENT),
    "fixed": ["range", "limited", "stiffness", "damping", "frictionloss", "springlength"],
    "spatial": ["range", "limited", "stiffness", "damping", "frictionloss", "springlength"],
    "motor": ["ctrlrange", "ctrllimited", "forcerange", "forcelimited", "gear", "group"],
    "position": ["ctrlrange", "ctrllimited", "forcerange", "forcelimited", "gear", "group", "kp", "kv"],
    "velocity": ["ctrlrange", "ctrllimited", "forcerange", "forcelimited", "gear", "group", "kv"],
    "general": ["ctrlrange", "ctrllimited", "forcerange", "forcelimited", "gear", "group", "gainprm", "biasprm", "dynprm",
                "dyntype", "gaintype", "biastype", "actrange", "actlimited", "actearly"],
}
DEFAULT_TAG = {"fixed": "tendon", "spatial": "tendon"}


def rewrite_defaults(root, rng, p=0.6):
    """move explicit attribute values of individual elements into a private chain of three nested default classes
    (grandparent / parent / leaf), with decoy values in the grandparent that the parent overrides"""
    dflt = root.find("default")
    if dflt is None:
        dflt = ET.Element("default")
        root.insert(1, dflt)
    n = {}
    idx = 0
    by_tag = {}
    for el in root.iter():
        if el.tag in DEFAULTABLE:
            by_tag.setdefault(el.tag, []).append(el)
    for tag, els in by_tag.items():
        in_default = set(id(e) for e in dflt.iter())
        for el in els:
            if id(el) in in_default or "class" in el.attrib or rng.random() > p:
                continue
            elig = [a for a in DEFAULTABLE[tag] if a in el.attrib]
            if not elig:
                continue
            rng.shuffle(elig)
            groups = [[], [], []]
            for a in elig:
                r = rng.random()
                if r < 0.8:
                    groups[int(rng.integers(0, 3))].append(a)
            if not any(groups):
                continue
            dtag = DEFAULT_TAG.get(tag, tag)
            names = ["dc%d%s" % (idx, s) for s in "ABC"]
            idx += 1
            cls = []
            par = dflt
            for nm in names:
                par = ET.SubElement(par, "default", {"class": nm})
                cls.append(par)
            # grandparent: its own attributes + decoys for the parent's attributes (values borrowed from siblings)
            ga = {a: el.get(a) for a in groups[0]}
            for a in groups[1]:
                if a in ORIENT or a in ("fromto", "type"):
                    continue
                for other in els:
                    if other is not el and a in other.attrib and other.get(a) != el.get(a) and \
                            len(other.get(a).split()) == len(el.get(a).split()):
                        ga[a] = other.get(a)
                        n["defaults:decoy-overridden"] = n.get("defaults:decoy-overridden", 0) + 1
                        break
            for c, attrs in zip(cls, [ga, {a: el.get(a) for a in groups[1]}, {a: el.get(a) for a in groups[2]}]):
                if attrs:
                    ET.SubElement(c, dtag, attrs)
            for g in groups:
                for a in g:
                    del el.attrib[a]
            el.set("class", names[2])
            for lvl, g in zip(("grandparent", "parent", "leaf"), groups):
                if g:
                    n["defaults:%s-%s" % (dtag, lvl)] = n.get("defaults:%s-%s" % (dtag, lvl), 0) + 1
    # ET puts <default> before ET.Element ordering problems: the section must precede its users only logically
    return n


# ---- frames -----------------------------------------------------------------------------------------------------

def rand_pose(rng, scale=0.3):
    return rng.normal(size=3) * scale, so3.quat_to_mat(rng.normal(size=4))


def rewrite_frame(root, rng, p=0.35):
    degree, seq = settings(root)
    wb = root.find("worldbody")
    pm = parent_map(wb)
    targets = [el for el in wb.iter() if el is not wb and el.tag in ("body", "geom", "site", "camera", "joint") and
               "fromto" not in el.attrib and rng.random() < p]
    n = {}
    for el in targets:
        par = pm[el]
        pF, RF = rand_pose(rng)
        nested = rng.random() < 0.25
        if nested:
            p2, R2 = rand_pose(rng)
            pT, RT = pF + RF @ p2, RF @ R2           # total = F o F2
        else:
            pT, RT = pF, RF
        if el.tag == "joint":
            if el.get("type", "hinge") == "free":
                continue
            pos = vec(el.get("pos", "0 0 0"))
            el.set("pos", f(RT.T @ (pos - pT)))
            if el.get("type", "hinge") in ("hinge", "slide"):
                ax = vec(el.get("axis", "0 0 1"))
                el.set("axis", f(RT.T @ ax))
        else:
            k0, R = get_orient(el, degree, seq)
            pos = vec(el.get("pos", "0 0 0"))
            el.set("pos", f(RT.T @ (pos - pT)))
            set_orient(el, "quat", RT.T @ R, degree, seq, rng)
        i = list(par).index(el)
        par.remove(el)
        fr = ET.Element("frame", {"pos": f(pF)})
        kinds = [k for k in ORIENT if k != "zaxis"]
        while not set_orient(fr, kinds[int(rng.integers(0, len(kinds)))], RF, degree, seq, rng):
            pass
        inner = fr
        if nested:
            inner = ET.SubElement(fr, "frame", {"pos": f(p2)})
            set_orient(inner, "quat", R2, degree, seq, rng)
        inner.append(el)
        par.insert(i, fr)
        pm[el] = inner
        pm[fr] = par
        key = "frame:%s%s" % (el.tag, "-nested" if nested else "")
        n[key] = n.get(key, 0) + 1
    return n


# ---- replicate --------------------------------------------------------------------------------------------------

def _suffix_names(el, suf, refs=("joint", "site", "body", "geom", "tendon", "objname")):
    for e in el.iter():
        if "name" in e.attrib:
            e.set("name", e.get("name") + suf)


def make_replicate_pair(root, rng):
    """insert a small articulated subtree n times: A uses <replicate>, B writes the copies out inside frames whose poses follow
    the DOCUMENTED recursion (XMLreference replicate/euler "rotation ... between two subsequent replicas ... with respect to the
    frame of the previous replica, so total rotation is cumulative", replicate/offset): T_i = T^i with T = (offset, R(euler)).
    -> (rootA, rootB, counts, info); info = dict(multi, suffixes, count, mech).  For multi-axis pairs (>= 2 non-zero Euler
    angles and count > 2, where the known finding C36-replicate-multi-axis-euler applies) info["mech"] is a third written-out
    tree whose frame poses follow the finding's MECHANISM instead (replica i rotated by euler(i*e), positions accumulated
    with those rotations): C36 uses it only as the counterfactual that confirms the mechanism, never as the oracle."""
    degree, seq = settings(root)
    u = 180.0 / math.pi if degree else 1.0
    count = int(rng.integers(2, 13))
    sep = ["", "-", "_r"][int(rng.integers(0, 3))]
    off = rng.normal(size=3) * 0.3
    has_rot = rng.random() < 0.8
    e = rng.uniform(-1.0, 1.0, size=3) if has_rot else np.zeros(3)
    single_axis = has_rot and rng.random() < 0.6
    if single_axis:
        keep = int(rng.integers(0, 3))
        e = np.array([e[i] if i == keep else 0.0 for i in range(3)])
    R1 = so3.euler_mat(e, seq)
    # subtree
    sub = ET.Element("body", {"name": "rb", "pos": f(rng.normal(size=3) * 0.2)})
    set_orient(sub, "quat", so3.quat_to_mat(rng.normal(size=4)), degree, seq, rng)
    ET.SubElement(sub, "joint", {"name": "rj", "type": "hinge", "axis": f(rng.normal(size=3)), "damping": "0.3",
                                 "pos": f(rng.normal(size=3) * 0.05)})
    ET.SubElement(sub, "geom", {"name": "rg", "type": "capsule", "size": "0.03 0.1", "pos": f(rng.normal(size=3) * 0.1),
                                "contype": "0", "conaffinity": "0", "euler": f(rng.uniform(-1, 1, size=3) * u)})
    ET.SubElement(sub, "site", {"name": "rs", "pos": f(rng.normal(size=3) * 0.1)})
    ch = ET.SubElement(sub, "body", {"name": "rc", "pos": f(rng.normal(size=3) * 0.2)})
    ET.SubElement(ch, "joint", {"name": "rcj", "type": "slide", "axis": "1 0 0", "stiffness": "20", "damping": "1"})
    ET.SubElement(ch, "geom", {"name": "rcg", "type": "box", "size": "0.03 0.04 0.05", "contype": "0", "conaffinity": "0"})
    loose = ET.Element("geom", {"name": "rl", "type": "sphere", "size": "0.02", "pos": f(rng.normal(size=3) * 0.1),
                                "contype": "0", "conaffinity": "0"})
    # documented: "the minimum number of digits required to represent the total element count"
    width = len(str(count))
    multi = bool(has_rot and not single_axis and count > 2)
    A, B = copy.deepcopy(root), copy.deepcopy(root)
    M = copy.deepcopy(root) if multi else None
    rngM = np.random.default_rng(7)          # spelling noise of the counterfactual tree: private stream
    # host: worldbody or a random body (same one in both)
    bodiesA = [b for b in A.find("worldbody").iter("body")]
    bodiesB = [b for b in B.find("worldbody").iter("body")]
    hi = int(rng.integers(-1, len(bodiesA)))
    hostA = A.find("worldbody") if hi < 0 else bodiesA[hi]
    hostB = B.find("worldbody") if hi < 0 else bodiesB[hi]
    hostM = None
    if multi:
        hostM = M.find("worldbody") if hi < 0 else [b for b in M.find("worldbody").iter("body")][hi]
    ra = {"count": str(count)}
    if sep:
        ra["sep"] = sep
    if rng.random() < 0.9:
        ra["offset"] = f(off)
    else:
        off = np.zeros(3)
    if has_rot:
        ra["euler"] = f(e * u)
    rep = ET.SubElement(hostA, "replicate", ra)
    rep.append(copy.deepcopy(sub))
    if hi >= 0:
        rep.append(copy.deepcopy(loose))
    p, R = np.zeros(3), np.eye(3)
    pm = np.zeros(3)
    sufs = []
    for i in range(count):
        suf = sep + str(i).zfill(width)
        sufs.append(suf)
        trees = [(hostB, p, R, rng)]
        if multi:
            Rm = so3.euler_mat(i * e, seq)           # the reader: "overwrite orientation" with the scaled Euler angles
            trees.append((hostM, pm, Rm, rngM))
            pm = pm + Rm @ off                       # ... and accumulate the position with that orientation
        for host_, p_, R_, rng_ in trees:
            fr = ET.SubElement(host_, "frame", {"pos": f(p_)})
            set_orient(fr, "quat", R_, degree, seq, rng_)
            s = copy.deepcopy(sub)
            _suffix_names(s, suf)
            fr.append(s)
            if hi >= 0:
                l2 = copy.deepcopy(loose)
                _suffix_names(l2, suf)
                fr.append(l2)
        p, R = p + R @ off, R @ R1
    # referencing elements: an actuator on the joint and a sensor on the site are replicated automatically
    for T, repl in ((A, False), (B, True)) + (((M, True),) if multi else ()):
        act = T.find("actuator")
        if act is None:
            act = ET.SubElement(T, "actuator")
        sen = T.find("sensor")
        if sen is None:
            sen = ET.SubElement(T, "sensor")
        sufs = [sep + str(i).zfill(width) for i in range(count)] if repl else [""]
        for suf in sufs:
            ET.SubElement(act, "motor", {"name": "ra" + suf, "joint": "rj" + suf, "gear": "0.7"})
            ET.SubElement(sen, "framepos", {"name": "rx" + suf, "objtype": "site", "objname": "rs" + suf})
    key = "replicate:%s%s%s" % ("world" if hi < 0 else "body", ("-rot1" if single_axis else "-rot3") if has_rot else "",
                                "-sep" if sep else "")
    return A, B, {key: 1, "replicate:copies": count}, {"multi": multi, "mech": M, "suffixes": sufs, "count": count,
                                                        "host_is_body": hi >= 0}


# ---- attach -----------------------------------------------------------------------------------------------------

REFS = ("joint", "joint1", "joint2", "tendon", "tendon1", "tendon2", "site", "site1", "site2", "body", "body1", "body2", "geom",
        "geom1", "geom2", "objname", "refname", "cranksite", "slidersite", "refsite", "actuator", "jointinparent", "target")


def prefix_names(root, prefix):
    for e in root.iter():
        if "name" in e.attrib:
            e.set("name", prefix + e.get("name"))
        for a in REFS:
            if a in e.attrib:
                e.set(a, prefix + e.get(a))


def make_attach_pair(parent_root, child_root, rng, prefix="c_", host_world=True):
    """-> (inline_root, parent_with_frame_root, child_root, counts): the inline model holds the child's world content inside
    <frame name='att'> with every child name prefixed; the other two are attached at runtime with mjs_attach"""
    degree, seq = settings(parent_root)
    P = copy.deepcopy(parent_root)
    wbP = P.find("worldbody")
    bodies = list(wbP.iter("body"))
    hi = -1 if (host_world or not bodies) else int(rng.integers(0, len(bodies)))
    host = wbP if hi < 0 else bodies[hi]
    pF, RF = rand_pose(rng, 0.5)
    fr = ET.SubElement(host, "frame", {"name": "att", "pos": f(pF)})
    set_orient(fr, ["quat", "axisangle", "xyaxes"][int(rng.integers(0, 3))], RF, degree, seq, rng)
    inline = copy.deepcopy(P)
    C = copy.deepcopy(child_root)
    Cp = copy.deepcopy(child_root)
    prefix_names(Cp, prefix)
    fri = [e for e in inline.iter("frame") if e.get("name") == "att"][0]
    for ch in list(Cp.find("worldbody")):
        fri.append(ch)
    for sec in ("tendon", "equality", "actuator", "sensor", "contact"):
        src = Cp.find(sec)
        if src is None:
            continue
        dst = inline.find(sec)
        if dst is None:
            dst = ET.SubElement(inline, sec)
        for ch in list(src):
            dst.append(ch)
    return inline, P, C, {"attach:%s" % ("world" if hi < 0 else "body"): 1}


# ---- compiler switches ------------------------------------------------------------------------------------------

def set_compiler(root, **kw):
    c = compiler(root)
    for k, v in kw.items():
        c.set(k, v)


KINDS = ["orient", "eulerseq", "angle", "defaults", "frame", "replicate", "attach", "fusestatic", "discardvisual", "setconst"]


def selftest():
    from . import model
    rng = np.random.default_rng(0)
    tot = {}
    for i in range(30):
        xml, _ = model.gen_profile(np.random.default_rng(i), "smooth")
        for fn in (rewrite_orient, rewrite_eulerseq, rewrite_angle, rewrite_defaults, rewrite_frame):
            r = parse(xml)
            for k, v in fn(r, rng).items():
                tot[k.split(":")[0]] = tot.get(k.split(":")[0], 0) + v
            parse(tostring(r))
        A, B, n, info = make_replicate_pair(parse(xml), rng)
        parse(tostring(A)), parse(tostring(B))
        assert (info["mech"] is not None) == info["multi"] and len(info["suffixes"]) == info["count"]
        if info["multi"]:
            parse(tostring(info["mech"]))
    assert all(tot.get(k, 0) > 0 for k in ("orient", "eulerseq", "angle", "defaults", "frame")), tot
    return True


if __name__ == "__main__":
    print("selftest", selftest())
