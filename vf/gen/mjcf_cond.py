"""MJCF generators aimed at the XML writer's CONDITIONAL attributes (used by C32).

gen_tristate(rng) -> (xml, tags, counts)
    every element kind that has auto/true/false attributes (joint limited / actuatorfrclimited on hinge, slide, ball; tendon
    limited / actuatorfrclimited on fixed and spatial tendons; actuator ctrllimited / forcelimited / actlimited) gets an
    explicit true / false or nothing, with or without the corresponding range, directly on the element and through a chain of
    default classes (main -> t0 -> t1, main -> t2; class= and childclass=) whose values the element inherits or overrides,
    under compiler autolimits true / false and angle radian / degree. Combinations the compiler rejects are repaired, never
    emitted: explicit true needs a valid effective range; with autolimits=false an effective range needs an effective
    true/false.

gen_typecond(rng) -> (xml, tags, counts)
    one model holding, for every attribute the writer emits depending on the element's TYPE, elements on both sides of the
    condition: joints of all four types with pos/axis/ref/springref/range/limited/actuatorfrcrange, geoms and sites of every
    primitive type with size vs fromto, mass vs density, shellinertia; cameras with fovy vs sensorsize + focal/focalpixel/
    principal/principalpixel; every light type; bodies with mocap / gravcomp / sleep / explicit inertial; every actuator
    shortcut on every transmission it supports (gear of length 1..6, cranklength, refsite, kp/kv/dampratio/timeconst/
    inheritrange); every equality kind on bodies and on sites; fixed and spatial tendons (springlength with one and two
    values, wraps, pulleys, material).

counts: {counter name: n} describing what was generated (merged into the evidence by the caller).
All numbers are written with repr(float) (17 significant digits) and angles are in radians unless the degree variant is drawn,
so printed precision plays no role beyond what C32's classes already handle.
"""
import numpy as np


def _f(x):
    if isinstance(x, (list, tuple, np.ndarray)):
        return " ".join(_f(v) for v in x)
    if isinstance(x, (int, np.integer)):
        return str(int(x))
    return repr(float(x))


def _attrs(d):
    return "".join(' %s="%s"' % (k, v) for k, v in d.items() if v is not None)


class _R:
    def __init__(self, rng):
        self.rng = rng
        self.counts = {}
        self.tags = set()

    def U(self, lo, hi):
        return float(self.rng.uniform(lo, hi))

    def P(self, p):
        return bool(self.rng.random() < p)

    def pick(self, seq, p=None):
        return seq[int(self.rng.choice(len(seq), p=p))]

    def count(self, k, n=1):
        self.counts[k] = self.counts.get(k, 0) + n

    def quat(self):
        q = self.rng.normal(size=4)
        return q / np.linalg.norm(q)

    def unit(self):
        a = self.rng.normal(size=3)
        return a / np.linalg.norm(a)


# ------------------------------------------------------------------------------------------------ tri-state attributes

TRI = ("absent", "true", "false")
CHAIN = {"main": ["main"], "t0": ["main", "t0"], "t1": ["main", "t0", "t1"], "t2": ["main", "t2"]}


def _resolve(chain_vals, own):
    """last defined value along main -> ... -> class -> element"""
    v = None
    for x in chain_vals + [own]:
        if x is not None:
            v = x
    return v


class _Tri:
    """one tri-state attribute (lim) with its range attribute (rng) for one element family; class-level settings are drawn once
    per model, element-level settings per element, then repaired to what the compiler accepts"""

    def __init__(self, R, fam, lim, rng_attr, mkrange, autolimits):
        self.R, self.fam, self.lim, self.rng_attr, self.mkrange, self.autolimits = R, fam, lim, rng_attr, mkrange, autolimits
        self.cls = {}
        for c in ("main", "t0", "t1", "t2"):
            pl = 0.25 if c == "main" else 0.55
            self.cls[c] = {"lim": R.pick(["true", "false"]) if R.P(pl) else None, "rng": None}
        # a class-level range is drawn later per element kind (ranges differ between hinge/ball/slide): see class_attrs

    def class_attrs(self, c, kind, allow_range=True):
        """attributes this class contributes to the default element of `kind`; keeps the class chain compilable on its own
        (a default class is not compiled, only elements are), so nothing to repair here"""
        out = {}
        st = self.cls[c]
        if st["lim"] is not None:
            out[self.lim] = st["lim"]
        if allow_range and st.get("want_rng") is None:
            st["want_rng"] = self.R.P(0.35 if c != "main" else 0.15)
        if allow_range and st["want_rng"]:
            st["rng"] = self.mkrange(kind)
            out[self.rng_attr] = _f(st["rng"])
        return out

    def element(self, cname, kind, etype):
        """-> attribute dict for one element of class cname (None = main only)"""
        R = self.R
        chain = CHAIN[cname or "main"]
        inh_lim = _resolve([self.cls[c]["lim"] for c in chain], None)
        inh_rng = _resolve([self.cls[c]["rng"] for c in chain], None)
        own_lim = R.pick([None, "true", "false"], p=[0.3, 0.35, 0.35])
        own_rng = self.mkrange(kind) if R.P(0.55) else None
        eff_lim, eff_rng = _resolve([inh_lim], own_lim), _resolve([inh_rng], own_rng)
        # ---- repairs (the compiler rejects these)
        if eff_lim == "true" and eff_rng is None:
            own_rng = eff_rng = self.mkrange(kind)
        if eff_lim is None and eff_rng is not None and not self.autolimits:
            own_lim = eff_lim = R.pick(["true", "false"])
        if kind == "ball" and eff_rng is not None and inh_rng is not None and own_rng is None and inh_rng[0] != 0 and eff_lim != "false":
            own_rng = eff_rng = self.mkrange(kind)      # inherited hinge-style range on a ball joint: range[0] must be 0
        out = {}
        if own_lim is not None:
            out[self.lim] = own_lim
        if own_rng is not None:
            out[self.rng_attr] = _f(own_rng)
        # ---- bookkeeping (actuator shortcuts are pooled: the attribute is the same field of mjsActuator)
        name = "%s.%s" % (etype.split("_")[0] if etype.startswith("actuator") else etype, self.lim)
        if own_lim is not None:
            inferred = "true" if eff_rng is not None else "false"
            R.count("tristate:%s:explicit_%s_%s_with_range" % (name, own_lim, "agrees" if own_lim == inferred else "DISAGREES"))
            if inh_lim is not None:
                R.count("tristate:%s:element_%s_class_value" % (name, "repeats" if inh_lim == own_lim else "OVERRIDES"))
        elif inh_lim is not None:
            R.count("tristate:%s:inherited_from_class" % name)
        else:
            R.count("tristate:%s:auto" % name)
        return out


def gen_tristate(rng):
    R = _R(rng)
    autolimits = R.P(0.5)
    degree = R.P(0.3)
    ang = (lambda x: x * 180.0 / np.pi) if degree else (lambda x: x)
    R.count("tristate_models:autolimits_%s" % ("true" if autolimits else "false"))
    R.count("tristate_models:angle_%s" % ("degree" if degree else "radian"))
    R.tags.update({"tristate", "autolimits_" + ("true" if autolimits else "false"), "angle_" + ("degree" if degree else "radian")})

    def jrange(kind):
        if kind == "ball":
            return [0.0, ang(R.U(0.3, 1.2))]
        if kind == "slide":
            return [-R.U(0.1, 0.5), R.U(0.1, 0.5)]
        return [ang(-R.U(0.2, 1.0)), ang(R.U(0.2, 1.0))]

    def frange(kind):
        return [-R.U(0.5, 20), R.U(0.5, 20)]

    def trange(kind):
        return [-R.U(0.2, 1.0), R.U(0.5, 2.0)] if kind == "fixed" else [R.U(0.01, 0.1), R.U(1.5, 3.0)]

    def crange(kind):
        return [-R.U(0.2, 2), R.U(0.2, 2)]

    def arange(kind):
        return [-R.U(0.2, 1.5), R.U(0.2, 1.5)]

    T = {
        "jl": _Tri(R, "joint", "limited", "range", jrange, autolimits),
        "jf": _Tri(R, "joint", "actuatorfrclimited", "actuatorfrcrange", frange, autolimits),
        "tl": _Tri(R, "tendon", "limited", "range", trange, autolimits),
        "tf": _Tri(R, "tendon", "actuatorfrclimited", "actuatorfrcrange", frange, autolimits),
        "ac": _Tri(R, "actuator", "ctrllimited", "ctrlrange", crange, autolimits),
        "af": _Tri(R, "actuator", "forcelimited", "forcerange", frange, autolimits),
        "aa": _Tri(R, "actuator", "actlimited", "actrange", arange, autolimits),
    }
    # class-level joint ranges are hinge-style (a default joint is a hinge); class-level tendon ranges fixed-style
    acttag = {c: R.pick(["general", "motor", "position", "velocity"]) for c in CHAIN}

    def default_block(c):
        j = {}
        j.update(T["jl"].class_attrs(c, "hinge"))
        j.update(T["jf"].class_attrs(c, "hinge"))
        t = {}
        # a class-level tendon range would have to suit both fixed and spatial tendons: spatial lengths are positive, so
        # the class range is [small, large] which also contains the fixed tendons' rest length only sometimes -> no class range
        t.update(T["tl"].class_attrs(c, "fixed", allow_range=False))
        # (the schema of <default><tendon> has no actuatorfrclimited / actuatorfrcrange: element level only)
        T["tf"].cls[c]["lim"] = None
        a = {}
        a.update(T["ac"].class_attrs(c, "x"))
        if acttag[c] != "velocity" or True:
            a.update(T["af"].class_attrs(c, "x"))
        if acttag[c] == "general":
            a.update(T["aa"].class_attrs(c, "x", allow_range=False))
            if "actlimited" in a and a["actlimited"] == "true":
                # class-level actlimited=true would make every stateless actuator of the class invalid: keep it on stateful only
                a.pop("actlimited")
                T["aa"].cls[c]["lim"] = None
        else:
            T["aa"].cls[c]["lim"] = None
        if acttag[c] == "position" and R.P(0.5):
            a["kp"] = _f(R.U(1, 20))
        if acttag[c] == "velocity" and R.P(0.5):
            a["kv"] = _f(R.U(0.1, 2))
        s = ""
        if j:
            s += "<joint%s/>" % _attrs(j)
        if t:
            s += "<tendon%s/>" % _attrs(t)
        if a:
            s += "<%s%s/>" % (acttag[c], _attrs(a))
        return s

    d_main = default_block("main")
    d_t0, d_t1, d_t2 = default_block("t0"), default_block("t1"), default_block("t2")
    defaults = ('<default>%s<default class="t0">%s<default class="t1">%s</default></default><default class="t2">%s</default></default>'
                % (d_main, d_t0, d_t1, d_t2))

    # ---- bodies: a few chains, each body one joint
    kinds = ["hinge", "slide", "ball"]
    njoint = int(rng.integers(6, 13))
    jnames, jkind, body_xml = [], {}, []
    open_bodies = 0
    sites = []
    cur_cc = None          # childclass in force inside the current chain (set by an ancestor body)
    for i in range(njoint):
        kind = kinds[i % 3] if i < 6 else R.pick(kinds)
        cname = R.pick([None, "t0", "t1", "t2"])
        new_chain = open_bodies == 0 or R.P(0.35)
        if new_chain:
            cur_cc = None
        childclass = None
        if cname is not None and R.P(0.4):
            childclass, use_class = cname, None      # the class arrives through the body's childclass
            cur_cc = cname
        elif cname is None and cur_cc is not None:
            cname, use_class = cur_cc, None          # ... or through the childclass of an ancestor body
            R.count("tristate_via:childclass_of_ancestor")
        else:
            use_class = cname
        a = {"name": "j%d" % i, "type": kind}
        if use_class:
            a["class"] = use_class
        if kind != "ball":
            a["axis"] = _f(R.unit())
        a.update(T["jl"].element(cname, kind, "joint_" + kind))
        if kind != "ball":
            a.update(T["jf"].element(cname, kind, "joint_" + kind))
        elif R.P(0.3):
            # explicit actuatorfrclimited on a ball joint: the compiler forces it to false and the writer never writes it
            a["actuatorfrclimited"] = "false"
            R.count("tristate:joint_ball.actuatorfrclimited:explicit_false_forced_by_type")
        R.count("tristate_via:%s" % ("childclass" if childclass else ("class" if use_class else "no_class")))
        if new_chain and open_bodies:
            body_xml.append("</body>" * open_bodies)
            open_bodies = 0
        b = {"name": "b%d" % i, "pos": _f([0.4 * (i % 4), 0.5 * (i // 4), 0.3] if new_chain else [0.0, 0.0, 0.25])}
        if childclass:
            b["childclass"] = childclass
        body_xml.append('<body%s><joint%s/><geom type="capsule" size="0.03" fromto="0 0 0 0 0 0.2"/><site name="s%d" pos="0.05 0 0.1"/>'
                        % (_attrs(b), _attrs(a), i))
        sites.append("s%d" % i)
        open_bodies += 1
        jnames.append(a["name"])
        jkind[a["name"]] = kind
    body_xml.append("</body>" * open_bodies)
    scalar = [j for j in jnames if jkind[j] != "ball"]

    # ---- tendons
    tend = []
    ntend = int(rng.integers(3, 7))
    tnames = []
    for i in range(ntend):
        fixed = (i % 2 == 0) and len(scalar) >= 1
        cname = R.pick([None, "t0", "t1", "t2"])
        a = {"name": "ten%d" % i}
        if cname:
            a["class"] = cname
        kind = "fixed" if fixed else "spatial"
        a.update(T["tl"].element(cname, kind, "tendon_" + kind))
        a.update(T["tf"].element(cname, kind, "tendon_" + kind))
        if fixed:
            js = [R.pick(scalar) for _ in range(int(rng.integers(1, 3)))]
            js = list(dict.fromkeys(js))
            inner = "".join('<joint joint="%s" coef="%s"/>' % (j, _f(R.U(0.5, 2))) for j in js)
            tend.append("<fixed%s>%s</fixed>" % (_attrs(a), inner))
        else:
            s1, s2 = [sites[int(k)] for k in rng.choice(len(sites), size=2, replace=False)]
            tend.append('<spatial%s><site site="%s"/><site site="%s"/></spatial>' % (_attrs(a), s1, s2))
        tnames.append(a["name"])

    # ---- actuators
    acts = []
    nact = int(rng.integers(5, 11))
    for i in range(nact):
        cname = R.pick([None, "t0", "t1", "t2"])
        tag = R.pick(["general", "motor", "position", "velocity", "intvelocity", "general_stateful"], p=[0.2, 0.2, 0.15, 0.1, 0.15, 0.2])
        a = {"name": "a%d" % i}
        if cname:
            a["class"] = cname
        if R.P(0.8) or not tnames:
            a["joint"] = R.pick(scalar) if scalar else None
        else:
            a["tendon"] = R.pick(tnames)
        if a.get("joint") is None and "tendon" not in a:
            continue
        et = "actuator_" + tag
        a.update(T["ac"].element(cname, "x", et))
        if tag != "adhesion":
            a.update(T["af"].element(cname, "x", et))
        stateful = tag in ("intvelocity", "general_stateful")
        if stateful:
            a.update(T["aa"].element(cname, "x", et))
            if tag == "intvelocity" and "actrange" not in a and a.get("actlimited") != "false":
                a["actrange"] = _f(arange("x"))          # the intvelocity shortcut limits act by default
                if "actlimited" not in a and not autolimits:
                    a["actlimited"] = "true"
        xmltag = "general" if tag.startswith("general") else tag
        if tag == "general_stateful":
            a["dyntype"] = R.pick(["integrator", "filter", "filterexact"])
            if a["dyntype"] != "integrator":
                a["dynprm"] = _f(R.U(0.05, 0.5))
        if tag == "position":
            a["kp"] = _f(R.U(1, 20))
            if R.P(0.5):
                a["kv"] = _f(R.U(0.1, 2))
        if tag == "velocity":
            a["kv"] = _f(R.U(0.1, 2))
        if tag == "intvelocity":
            a["kp"] = _f(R.U(1, 20))
        acts.append("<%s%s/>" % (xmltag, _attrs(a)))

    xml = ('<mujoco model="tristate"><compiler angle="%s" autolimits="%s"/>%s<worldbody>%s</worldbody><tendon>%s</tendon>'
           '<actuator>%s</actuator></mujoco>'
           % ("degree" if degree else "radian", "true" if autolimits else "false", defaults, "".join(body_xml), "".join(tend), "".join(acts)))
    return xml, R.tags, R.counts


# ------------------------------------------------------------------------------------------------ type-conditional attributes

def gen_typecond(rng):
    R = _R(rng)
    degree = R.P(0.25)
    autolimits = R.P(0.7)
    ang = (lambda x: x * 180.0 / np.pi) if degree else (lambda x: x)
    R.tags.update({"typecond", "angle_" + ("degree" if degree else "radian")})
    c = R.count

    def orient():
        """one of the orientation spellings (None = identity)"""
        k = R.pick(["none", "quat", "euler", "axisangle", "xyaxes", "zaxis"])
        if k == "none":
            return {}
        if k == "quat":
            return {"quat": _f(R.quat())}
        if k == "euler":
            return {"euler": _f([ang(v) for v in rng.uniform(-1.5, 1.5, size=3)])}
        if k == "axisangle":
            return {"axisangle": _f(list(R.unit()) + [ang(R.U(-2, 2))])}
        if k == "xyaxes":
            x = R.unit()
            y = np.cross(R.unit(), x)
            return {"xyaxes": _f(list(x) + list(y / np.linalg.norm(y)))}
        return {"zaxis": _f(R.unit())}

    assets = ['<texture name="tx" type="2d" builtin="checker" width="8" height="8" rgb1="0.1 0.2 0.3" rgb2="0.9 0.8 0.7"/>',
              '<material name="mt" texture="tx" rgba="0.5 0.6 0.7 1"/>', '<material name="mp" rgba="0.2 0.9 0.4 0.8"/>']

    # ---- geoms / sites of every primitive type, size vs fromto
    def geom(name, gtype=None, collide=False):
        gtype = gtype or R.pick(["sphere", "capsule", "ellipsoid", "cylinder", "box"])
        a = {"name": name, "type": gtype}
        use_fromto = gtype in ("capsule", "ellipsoid", "cylinder", "box") and R.P(0.45)
        if use_fromto:
            a["fromto"] = _f(list(rng.normal(size=3) * 0.1) + list(rng.normal(size=3) * 0.1 + np.array([0, 0, 0.25])))
            a["size"] = _f(R.U(0.02, 0.06)) if gtype in ("capsule", "cylinder") else _f([R.U(0.02, 0.06), R.U(0.02, 0.06)])
            c("typecond:geom_%s:fromto" % gtype)
        else:
            n = {"sphere": 1, "capsule": 2, "ellipsoid": 3, "cylinder": 2, "box": 3}[gtype]
            a["size"] = _f([R.U(0.03, 0.12) for _ in range(n)])
            if R.P(0.7):
                a["pos"] = _f(rng.normal(size=3) * 0.1)
            a.update(orient())
            c("typecond:geom_%s:size_pos_orientation" % gtype)
        if R.P(0.4):
            a["mass"] = _f(R.U(0.1, 3))
            c("typecond:geom:mass")
        elif R.P(0.5):
            a["density"] = _f(R.U(200, 3000))
            c("typecond:geom:density")
        if R.P(0.25):
            a["shellinertia"] = "true"
            c("typecond:geom_%s:shellinertia" % gtype)
        if gtype == "ellipsoid" and R.P(0.4):
            a["fluidshape"] = "ellipsoid"
            a["fluidcoef"] = _f([R.U(0.1, 1) for _ in range(5)])
            c("typecond:geom:fluidshape_ellipsoid")
        if R.P(0.3):
            a["material"] = R.pick(["mt", "mp"])
        if not collide:
            a["contype"], a["conaffinity"] = "0", "0"
        return "<geom%s/>" % _attrs(a)

    def site(name):
        stype = R.pick(["sphere", "capsule", "ellipsoid", "cylinder", "box"])
        a = {"name": name, "type": stype}
        if stype in ("capsule", "cylinder", "box", "ellipsoid") and R.P(0.4):
            a["fromto"] = _f(list(rng.normal(size=3) * 0.05) + list(rng.normal(size=3) * 0.05 + np.array([0.1, 0, 0])))
            a["size"] = _f(R.U(0.005, 0.02))
            c("typecond:site_%s:fromto" % stype)
        else:
            n = {"sphere": 1, "capsule": 2, "ellipsoid": 3, "cylinder": 2, "box": 3}[stype]
            a["size"] = _f([R.U(0.005, 0.03) for _ in range(n)])
            a["pos"] = _f(rng.normal(size=3) * 0.05)
            a.update(orient())
            c("typecond:site_%s:size_pos_orientation" % stype)
        if R.P(0.2):
            a["material"] = "mp"
        return "<site%s/>" % _attrs(a)

    def camera(name):
        a = {"name": name, "pos": _f(rng.normal(size=3) * 0.2)}
        a.update(orient())
        k = R.pick(["fovy", "default", "focal", "focalpixel", "principal", "principalpixel"])
        if k == "fovy":
            a["fovy"] = _f(R.U(20, 100))
        elif k != "default":
            a["sensorsize"] = _f([R.U(0.001, 0.01), R.U(0.001, 0.01)])
            a["resolution"] = "%d %d" % (int(rng.integers(16, 640)), int(rng.integers(16, 480)))
            if k in ("focal", "principal"):
                a["focal"] = _f([R.U(0.001, 0.01), R.U(0.001, 0.01)])
            else:
                a["focalpixel"] = _f([R.U(10, 400), R.U(10, 400)])
            if k == "principal":
                a["principal"] = _f([R.U(-0.001, 0.001), R.U(-0.001, 0.001)])
            if k == "principalpixel":
                a["principalpixel"] = _f([R.U(-10, 10), R.U(-10, 10)])
        c("typecond:camera:" + k)
        if R.P(0.3):
            a["mode"] = R.pick(["fixed", "track", "trackcom", "targetbody", "targetbodycom"])
            if a["mode"].startswith("target"):
                a["target"] = "tb0"
        if R.P(0.3):
            a["ipd"] = _f(R.U(0.03, 0.1))
        if R.P(0.2):
            a["projection"] = "orthographic"
            c("typecond:camera:orthographic")
        return "<camera%s/>" % _attrs(a)

    def light(name):
        a = {"name": name, "pos": _f(rng.normal(size=3)), "dir": _f(R.unit())}
        t = R.pick(["default", "spot", "directional", "point", "image"])
        if t != "default":
            a["type"] = t
        c("typecond:light:" + t)
        if t == "image":
            a["texture"] = "tx"
        if R.P(0.4):
            a["attenuation"] = _f([R.U(0.5, 1), R.U(0, 0.2), R.U(0, 0.05)])
            a["cutoff"] = _f(R.U(10, 80))
            a["exponent"] = _f(R.U(1, 20))
        if R.P(0.3):
            a["castshadow"] = "false"
        if R.P(0.3):
            a["bulbradius"] = _f(R.U(0.01, 0.1))
            a["intensity"] = _f(R.U(0.1, 10))
            a["range"] = _f(R.U(1, 20))
        if R.P(0.3):
            a["mode"] = R.pick(["fixed", "track", "targetbody"])
            if a["mode"] == "targetbody":
                a["target"] = "tb0"
        if R.P(0.2):
            a["active"] = "false"
        return "<light%s/>" % _attrs(a)

    # ---- joints of all four types with every per-type attribute
    jinfo = []

    def joint(name, jt):
        a = {"name": name, "type": jt}
        if jt != "free":
            if R.P(0.6):
                a["pos"] = _f(rng.normal(size=3) * 0.05)
            if R.P(0.5):
                a["stiffness"] = _f(R.U(0.1, 10))
            if R.P(0.5):
                a["frictionloss"] = _f(R.U(0.01, 0.3))
        if jt in ("hinge", "slide"):
            a["axis"] = _f(R.unit())
            if R.P(0.5):
                a["ref"] = _f(ang(R.U(-0.3, 0.3)) if jt == "hinge" else R.U(-0.1, 0.1))
                c("typecond:joint_%s:ref" % jt)
            if R.P(0.5):
                a["springref"] = _f(ang(R.U(-0.3, 0.3)) if jt == "hinge" else R.U(-0.1, 0.1))
                c("typecond:joint_%s:springref" % jt)
            if R.P(0.4):
                a["range"] = _f([ang(-R.U(0.2, 1)), ang(R.U(0.2, 1))] if jt == "hinge" else [-R.U(0.1, 0.4), R.U(0.1, 0.4)])
                a["limited"] = R.pick(["true", "false"])
            if R.P(0.3):
                a["actuatorfrcrange"] = _f([-R.U(1, 20), R.U(1, 20)])
                a["actuatorfrclimited"] = R.pick(["true", "false"])
            if R.P(0.2) and "stiffness" not in a:
                a["springdamper"] = _f([R.U(0.05, 0.5), R.U(0.3, 1.2)])
                c("typecond:joint_%s:springdamper" % jt)
        if jt == "ball":
            if R.P(0.5):
                a["range"] = _f([0.0, ang(R.U(0.3, 1.2))])
                a["limited"] = R.pick(["true", "false"])
                c("typecond:joint_ball:range_limited_" + a["limited"])
        if jt in ("ball", "free") and R.P(0.4):
            # attributes that mean nothing for this joint type (the compiler ignores them, the writer skips them by type)
            if jt == "ball":
                a["axis"] = _f(R.unit())
            else:
                a["pos"] = _f(rng.normal(size=3) * 0.05)
                if R.P(0.5):
                    a["range"], a["limited"] = "-1 1", R.pick(["true", "false"])
            a["ref"], a["springref"] = _f(R.U(-0.3, 0.3)), _f(R.U(-0.3, 0.3))
            a["actuatorfrcrange"], a["actuatorfrclimited"] = _f([-R.U(1, 5), R.U(1, 5)]), R.pick(["true", "false"])
            c("typecond:joint_%s:attributes_irrelevant_for_type" % jt)
        if R.P(0.5):
            a["damping"] = _f(R.U(0.01, 1))
        if R.P(0.4):
            a["armature"] = _f(R.U(0.001, 0.1))
        if jt == "free" and R.P(0.3):
            a["actuatorgravcomp"] = "true" if False else None
        c("typecond:joint_" + jt)
        jinfo.append((name, jt))
        if jt == "free" and len([k for k in a if a[k] is not None]) == 2 and R.P(0.5):
            return '<freejoint name="%s"/>' % name
        return "<joint%s/>" % _attrs(a)

    # ---- bodies
    bodies = []
    sites, geoms_named, bnames = [], [], []
    # mocap / target body
    bodies.append('<body name="tb0" pos="1 1 1" mocap="true"%s><geom name="g_tb0" type="box" size="0.05 0.05 0.05" contype="0" conaffinity="0"/>'
                  '<site name="s_tb0"/></body>' % _attrs(orient()))
    c("typecond:body:mocap")
    sites.append("s_tb0")
    bnames.append("tb0")
    sleep_flag = R.P(0.4)
    order = ["free", "ball", "hinge", "slide"]
    rng.shuffle(order)
    nroot = int(rng.integers(2, 5))
    for r in range(nroot):
        depth = int(rng.integers(1, 4))
        s = ""
        for d in range(depth):
            i = len(bnames)
            bn = "b%d" % i
            jt = order[(r + d) % 4] if d > 0 or order[(r + d) % 4] != "free" or True else "hinge"
            if d > 0 and jt == "free":
                jt = "hinge"
            a = {"name": bn, "pos": _f([0.6 * r, 0.0, 0.5] if d == 0 else list(rng.normal(size=3) * 0.05 + np.array([0, 0, 0.3])))}
            a.update(orient())
            if R.P(0.3):
                a["gravcomp"] = _f(R.U(0.1, 1))
                c("typecond:body:gravcomp")
            if d == 0 and sleep_flag and R.P(0.5):
                a["sleep"] = "never"
                c("typecond:body:sleep_never")
            s += "<body%s>" % _attrs(a)
            if R.P(0.35):
                ia = {"pos": _f(rng.normal(size=3) * 0.02), "mass": _f(R.U(0.2, 3))}
                if R.P(0.5):
                    ex = [R.U(0.05, 0.3) for _ in range(3)]      # box half-extents: principal moments obey the triangle inequality
                    ia["diaginertia"] = _f([ex[1] ** 2 + ex[2] ** 2, ex[0] ** 2 + ex[2] ** 2, ex[0] ** 2 + ex[1] ** 2])
                    ia.update({k: v for k, v in orient().items()})
                    c("typecond:body:inertial_diag")
                else:
                    ex = [R.U(0.05, 0.3) for _ in range(3)]
                    q = R.quat()
                    w, x, y, z = q
                    Rm = np.array([[1 - 2 * (y * y + z * z), 2 * (x * y - w * z), 2 * (x * z + w * y)],
                                   [2 * (x * y + w * z), 1 - 2 * (x * x + z * z), 2 * (y * z - w * x)],
                                   [2 * (x * z - w * y), 2 * (y * z + w * x), 1 - 2 * (x * x + y * y)]])
                    M = Rm @ np.diag([ex[1] ** 2 + ex[2] ** 2, ex[0] ** 2 + ex[2] ** 2, ex[0] ** 2 + ex[1] ** 2]) @ Rm.T
                    ia["fullinertia"] = _f([M[0, 0], M[1, 1], M[2, 2], M[0, 1], M[0, 2], M[1, 2]])
                    c("typecond:body:inertial_full")
                s += "<inertial%s/>" % _attrs(ia)
            s += joint("j%d" % i, jt)
            if jt == "slide" and R.P(0.3):
                s += joint("j%db" % i, "hinge")
            for g in range(int(rng.integers(1, 3))):
                gn = "g%d_%d" % (i, g)
                s += geom(gn)
                geoms_named.append((gn, bn))
            s += site("s%d" % i)
            sites.append("s%d" % i)
            if R.P(0.4):
                s += camera("c%d" % i)
            if R.P(0.4):
                s += light("l%d" % i)
            bnames.append(bn)
        s += "</body>" * depth
        bodies.append(s)
    if sleep_flag:
        # 'allowed' / 'init' only on an isolated tree: a tree tied to tendons, equalities or actuators may not be put to sleep
        k = R.pick(["allowed", "init"])
        bodies.append('<body name="slp" pos="-2 -2 1" sleep="%s"><freejoint name="j_slp"/><geom name="g_slp" size="0.1"/></body>' % k)
        c("typecond:body:sleep_" + k)
    # wrapping geoms on the world + extra world cameras/lights so every spelling appears often
    world = ['<geom name="wsph" type="sphere" size="0.07" pos="0.3 0.3 0.6" contype="0" conaffinity="0"/>',
             '<geom name="wcyl" type="cylinder" size="0.05 0.2" pos="0.9 0.3 0.6" contype="0" conaffinity="0"/>',
             '<site name="sside" pos="0.3 0.45 0.6"/>', camera("cw0"), camera("cw1"), light("lw0"), light("lw1")]
    if R.P(0.5):
        world.append('<geom name="floor" type="plane" size="3 3 0.1" pos="0 0 -1"/>')
        c("typecond:geom_plane")

    scalar = [n for n, t in jinfo if t in ("hinge", "slide")]
    balls = [n for n, t in jinfo if t == "ball"]

    # ---- tendons
    tend, tnames = [], []
    if len(scalar) >= 1:
        for i in range(int(rng.integers(1, 3))):
            a = {"name": "tf%d" % i}
            k = R.pick(["none", "one", "two"])
            if k == "one":
                a["springlength"] = _f(R.U(0.0, 0.5))
            elif k == "two":
                a["springlength"] = _f([R.U(0.0, 0.2), R.U(0.3, 0.6)])
            c("typecond:tendon_fixed:springlength_" + k)
            if R.P(0.5):
                a["stiffness"] = _f(R.U(0.1, 5))
                a["damping"] = _f(R.U(0.01, 0.5))
            if R.P(0.3):
                a["frictionloss"] = _f(R.U(0.01, 0.2))
            js = list(dict.fromkeys(R.pick(scalar) for _ in range(2)))
            tend.append("<fixed%s>%s</fixed>" % (_attrs(a), "".join('<joint joint="%s" coef="%s"/>' % (j, _f(R.U(-2, 2) or 1.0)) for j in js)))
            tnames.append(a["name"])
    for i in range(int(rng.integers(1, 3))):
        a = {"name": "ts%d" % i}
        k = R.pick(["none", "one", "two"])
        if k == "one":
            a["springlength"] = _f(R.U(0.1, 0.5))
        elif k == "two":
            a["springlength"] = _f([R.U(0.1, 0.2), R.U(0.3, 0.6)])
        c("typecond:tendon_spatial:springlength_" + k)
        if R.P(0.5):
            a["width"] = _f(R.U(0.002, 0.02))
            a["rgba"] = _f(rng.random(4))
        if R.P(0.4):
            a["material"] = "mp"
            c("typecond:tendon_spatial:material")
        if R.P(0.4):
            a["stiffness"] = _f(R.U(0.1, 5))
        ss = [sites[int(k)] for k in rng.choice(len(sites), size=min(3, len(sites)), replace=False)]
        inner = '<site site="%s"/>' % ss[0]
        w = R.pick(["none", "sphere", "cylinder", "pulley"])
        if w == "sphere":
            inner += '<geom geom="wsph"%s/>' % (' sidesite="sside"' if R.P(0.5) else "")
        elif w == "cylinder":
            inner += '<geom geom="wcyl"/>'
        elif w == "pulley" and len(ss) >= 3:
            inner += '<site site="%s"/><pulley divisor="%s"/><site site="%s"/>' % (ss[1], _f(R.U(1, 3)), ss[0])
        c("typecond:tendon_spatial:wrap_" + w)
        inner += '<site site="%s"/>' % ss[-1]
        tend.append("<spatial%s>%s</spatial>" % (_attrs(a), inner))
        tnames.append(a["name"])

    # ---- actuators: every shortcut on every transmission it supports
    acts = []
    shortcuts = ["general", "motor", "position", "velocity", "intvelocity", "damper", "cylinder", "muscle", "adhesion"]
    an = 0

    def transmission(tag):
        """-> attribute dict or None"""
        opts = []
        if scalar:
            opts += ["joint", "jointinparent"]
        if balls and tag in ("general", "motor"):
            opts += ["balljoint"]
        if tnames:
            opts += ["tendon"]
        if len(sites) >= 2:
            opts += ["slidercrank"]
            if tag != "muscle":
                opts += ["site", "site_refsite"]
        if tag in ("general",):
            opts += ["body"]
        if tag == "adhesion":
            opts = ["body"]
        if not opts:
            return None
        k = R.pick(opts)
        c("typecond:actuator_%s:trn_%s" % (tag, k))
        a = {}
        if k == "joint":
            a["joint"] = R.pick(scalar)
            if R.P(0.5):
                a["gear"] = _f(R.U(0.5, 5))
        elif k == "jointinparent":
            a["jointinparent"] = R.pick(scalar)
        elif k == "balljoint":
            a["joint"] = R.pick(balls)
            a["gear"] = _f([R.U(-1, 1), R.U(-1, 1), R.U(-1, 1)])
            c("typecond:actuator:gear_len3")
        elif k == "tendon":
            a["tendon"] = R.pick(tnames)
        elif k == "slidercrank":
            s1, s2 = [sites[int(i)] for i in rng.choice(len(sites), size=2, replace=False)]
            a["cranksite"], a["slidersite"], a["cranklength"] = s1, s2, _f(R.U(0.1, 0.5))
        elif k in ("site", "site_refsite"):
            s1, s2 = [sites[int(i)] for i in rng.choice(len(sites), size=2, replace=False)]
            a["site"] = s1
            if k == "site_refsite":
                a["refsite"] = s2
            a["gear"] = _f(rng.normal(size=6))
            c("typecond:actuator:gear_len6")
        elif k == "body":
            a["body"] = R.pick([b for b in bnames if b != "tb0"] or bnames)
        return a

    for tag in shortcuts:
        for rep in range(2 if tag in ("general", "position", "motor") else 1):
            if not R.P(0.8):
                continue
            a = transmission(tag)
            if a is None:
                continue
            a["name"] = "a%d" % an
            an += 1
            if tag == "general":
                g = R.pick(["fixed", "affine"])
                b = R.pick(["none", "affine"])
                a["gaintype"], a["biastype"] = g, b
                a["gainprm"] = _f([R.U(0.5, 5)] + ([R.U(-1, 1), R.U(-1, 1)] if g == "affine" else []))
                if b == "affine":
                    a["biasprm"] = _f([R.U(-1, 1), -R.U(0.5, 5), -R.U(0.05, 0.5)])
                d = R.pick(["none", "integrator", "filter", "filterexact"])
                if d != "none" and "body" not in a:
                    a["dyntype"] = d
                    a["dynprm"] = _f(R.U(0.05, 0.5))
                    if R.P(0.4):
                        a["actearly"] = "true"
                c("typecond:actuator_general:gain_%s_bias_%s_dyn_%s" % (g, b, a.get("dyntype", "none")))
            elif tag == "position":
                a["kp"] = _f(R.U(1, 30))
                k = R.pick(["none", "kv", "dampratio"])
                if k == "kv":
                    a["kv"] = _f(R.U(0.1, 3))
                elif k == "dampratio":
                    a["dampratio"] = _f(R.U(0.3, 1.5))
                if R.P(0.3):
                    a["timeconst"] = _f(R.U(0.01, 0.2))
                    c("typecond:actuator_position:timeconst")
                c("typecond:actuator_position:damping_" + k)
            elif tag == "velocity":
                a["kv"] = _f(R.U(0.1, 3))
            elif tag == "intvelocity":
                a["kp"] = _f(R.U(1, 30))
                a["actrange"] = _f([-R.U(0.3, 1), R.U(0.3, 1)])
                if not autolimits or R.P(0.3):
                    a["actlimited"] = "true"
                if R.P(0.4):
                    a["dampratio"] = _f(R.U(0.3, 1.5))
            elif tag == "damper":
                a["kv"] = _f(R.U(0.1, 3))
                a["ctrlrange"] = _f([0.0, R.U(0.5, 2)])
            elif tag == "cylinder":
                a["timeconst"] = _f(R.U(0.05, 0.5))
                if R.P(0.5):
                    a["area"] = _f(R.U(0.5, 2))
                else:
                    a["diameter"] = _f(R.U(0.5, 2))
                a["bias"] = _f([R.U(-1, 1), R.U(-1, 0), R.U(-0.5, 0)])
            elif tag == "muscle":
                a["lengthrange"] = _f([R.U(0.1, 0.3), R.U(0.6, 1.2)])
                if R.P(0.5):
                    a["force"] = _f(R.U(10, 200))
                else:
                    a["scale"] = _f(R.U(100, 400))
                if R.P(0.5):
                    a["timeconst"] = _f([R.U(0.005, 0.02), R.U(0.02, 0.06)])
                    a["tausmooth"] = _f(R.U(0, 0.2))
                if R.P(0.5):
                    a["range"] = _f([R.U(0.6, 0.8), R.U(1.0, 1.2)])
                    a["lmin"], a["lmax"] = _f(R.U(0.3, 0.6)), _f(R.U(1.4, 1.8))
            elif tag == "adhesion":
                a["gain"] = _f(R.U(0.5, 5))
                a["ctrlrange"] = _f([0.0, R.U(0.5, 2)])
            if tag in ("general", "motor", "position", "velocity", "cylinder") and R.P(0.4) and "ctrlrange" not in a:
                a["ctrlrange"] = _f([-R.U(0.3, 2), R.U(0.3, 2)])
                a["ctrllimited"] = R.pick(["true", "false"])
            if tag != "adhesion" and R.P(0.3):
                a["forcerange"] = _f([-R.U(1, 50), R.U(1, 50)])
                a["forcelimited"] = R.pick(["true", "false"])
            acts.append("<%s%s/>" % (tag, _attrs(a)))

    # ---- equalities of every kind, on bodies and on sites
    eqs = []
    dyn_bodies = [b for b in bnames if b != "tb0"]
    if len(dyn_bodies) >= 2:
        b1, b2 = [dyn_bodies[int(i)] for i in rng.choice(len(dyn_bodies), size=2, replace=False)]
        if R.P(0.6):
            a = {"name": "e_cb", "body1": b1, "body2": b2, "anchor": _f(rng.normal(size=3) * 0.1)}
            if R.P(0.3):
                a["active"] = "false"
            eqs.append("<connect%s/>" % _attrs(a))
            c("typecond:equality:connect_body")
        if R.P(0.6):
            a = {"name": "e_wb", "body1": b1}
            if R.P(0.7):
                a["body2"] = b2
            k = R.pick(["none", "anchor", "relpose", "both"])
            if k in ("anchor", "both"):
                a["anchor"] = _f(rng.normal(size=3) * 0.1)
            if k in ("relpose", "both"):
                a["relpose"] = _f(list(rng.normal(size=3) * 0.2) + list(R.quat()))
            if R.P(0.5):
                a["torquescale"] = _f(R.U(0.2, 3))
            if R.P(0.4):
                a["solref"] = _f([R.U(0.005, 0.05), R.U(0.5, 1.5)])
            eqs.append("<weld%s/>" % _attrs(a))
            c("typecond:equality:weld_body_" + k)
    if len(sites) >= 3:
        s1, s2, s3 = [sites[int(i)] for i in rng.choice(len(sites), size=3, replace=False)]
        if R.P(0.5):
            eqs.append('<connect name="e_cs" site1="%s" site2="%s"/>' % (s1, s2))
            c("typecond:equality:connect_site")
        if R.P(0.5):
            a = {"name": "e_ws", "site1": s2, "site2": s3}
            if R.P(0.5):
                a["torquescale"] = _f(R.U(0.2, 3))
            eqs.append("<weld%s/>" % _attrs(a))
            c("typecond:equality:weld_site")
    if len(scalar) >= 2 and R.P(0.7):
        j1, j2 = [scalar[int(i)] for i in rng.choice(len(scalar), size=2, replace=False)]
        a = {"name": "e_j", "joint1": j1}
        if R.P(0.7):
            a["joint2"] = j2
        if R.P(0.7):
            a["polycoef"] = _f([R.U(-0.1, 0.1), R.U(0.5, 1.5), R.U(-0.2, 0.2), 0.0, 0.0][:int(rng.integers(1, 6))])
        eqs.append("<joint%s/>" % _attrs(a))
        c("typecond:equality:joint_%s" % ("two" if "joint2" in a else "one"))
    if len(tnames) >= 2 and R.P(0.6) and not sleep_flag:     # "tendon equality does not yet support sleeping"
        a = {"name": "e_t", "tendon1": tnames[0], "tendon2": tnames[1], "polycoef": _f([0.0, R.U(0.5, 1.5), R.U(-0.2, 0.2)])}
        eqs.append("<tendon%s/>" % _attrs(a))
        c("typecond:equality:tendon")

    flags = ' <flag sleep="enable"/>' if sleep_flag else ""
    xml = ('<mujoco model="typecond"><compiler angle="%s" autolimits="%s"/><option>%s</option><asset>%s</asset><worldbody>%s%s</worldbody>'
           '%s%s%s</mujoco>'
           % ("degree" if degree else "radian", "true" if autolimits else "false", flags, "".join(assets), "".join(world), "".join(bodies),
              ("<tendon>%s</tendon>" % "".join(tend)) if tend else "", ("<actuator>%s</actuator>" % "".join(acts)) if acts else "",
              ("<equality>%s</equality>" % "".join(eqs)) if eqs else ""))
    return xml, R.tags, R.counts
