def safe_load(*a,**k): raise NotImplementedError
def safe_dump(*a,**k): raise NotImplementedError
def dump(*a,**k): raise NotImplementedError
def load(*a,**k): raise NotImplementedError
