def tabulate(rows, *a, **k): return '\n'.join(str(r) for r in rows)
