class Trimesh:
    def __init__(self,*a,**k): raise NotImplementedError("trimesh stub")
