class _C:
    def __getattr__(self, n): return ''
Fore=_C(); Style=_C(); Back=_C()
def init(*a,**k): pass
