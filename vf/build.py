"""Flavoured builds of the repository's C/C++ library, straight from the working tree.

Every check calls ensure(flavour) first.  Objects are cached per translation unit under
/verif/.build/obj keyed by (TU content, hash of every header in the source set, flags), so
an unchanged tree costs one hash pass and a one-file edit costs one compile + one link.
"""
import fcntl
import hashlib
import os
import shutil
import subprocess
import sys
import time
from pathlib import Path

VERIF = Path(__file__).resolve().parent.parent
REPO = Path(os.environ.get("VERIF_REPO", "/repo")).resolve()
BUILD = Path(os.environ.get("VERIF_BUILD", str(VERIF / ".build")))
NATIVE = VERIF / "native"
SHIM = NATIVE / "shim"
NPROC = int(os.environ.get("VERIF_JOBS", "16"))

CC = "clang"
CXX = "clang++"

COMMON_DEFS = [
    "-D_GNU_SOURCE", "-DCCD_STATIC_DEFINE", "-DMUJOCO_DLL_EXPORTS", "-DMC_IMPLEM_ENABLE",
    "-DMUJOCO_VERIF_HOOKS=1",
]
WARN = ["-w"]

FLAVOURS = {
    "rel": dict(opt=["-O2", "-g0", "-mavx", "-ffp-contract=off"], defs=["-DmjUSEPLATFORMSIMD"],
                link=[]),
    "scalar": dict(opt=["-O2", "-g0", "-ffp-contract=off"], defs=[], link=[]),
    "asan": dict(opt=["-O1", "-g", "-fno-omit-frame-pointer", "-fsanitize=address,undefined",
                      "-fno-sanitize=vptr,nonnull-attribute,pointer-overflow", "-fno-sanitize-recover=all"],
                 defs=[], link=["-fsanitize=address,undefined", "-shared-libasan"]),
    "tsan": dict(opt=["-O1", "-g", "-fno-omit-frame-pointer", "-fsanitize=thread"],
                 defs=[], link=["-fsanitize=thread"]),
    "tsan0": dict(opt=["-O0", "-g", "-fno-omit-frame-pointer", "-fsanitize=thread"],
                  defs=[], link=["-fsanitize=thread"]),
    "fuzz": dict(opt=["-O1", "-g", "-fno-omit-frame-pointer", "-fsanitize=address,undefined",
                      "-fsanitize=fuzzer-no-link",
                      "-fno-sanitize=vptr,nonnull-attribute,pointer-overflow", "-fno-sanitize-recover=all"],
                 defs=[], link=["-fsanitize=address,undefined"]),
}


def repo_sources():
    srcs = []
    for d, pats in (("src/engine", ("*.c", "*.cc")), ("src/user", ("*.c", "*.cc")),
                    ("src/xml", ("*.cc",)),
                    ("plugin/actuator", ("*.cc",)), ("plugin/elasticity", ("*.cc",)),
                    ("plugin/sensor", ("*.cc",)), ("plugin/stl_decoder", ("*.cc",))):
        for p in pats:
            srcs += sorted((REPO / d).glob(p))
    return srcs


def native_lib_sources():
    return [SHIM / "tinyxml2.cc", SHIM / "stubs.cc", NATIVE / "vfdrv.c", NATIVE / "vfmem.c"]


def _sha(b):
    return hashlib.sha256(b).hexdigest()[:20]


_hdr_hash_cache = {}


def header_hash():
    key = str(REPO)
    if key in _hdr_hash_cache:
        return _hdr_hash_cache[key]
    h = hashlib.sha256()
    roots = [REPO / "include", REPO / "src", REPO / "plugin", SHIM, NATIVE]
    for r in roots:
        for p in sorted(r.rglob("*")):
            if p.suffix in (".h", ".inc", ".hh", ".hpp") and p.is_file():
                h.update(str(p.relative_to(r)).encode())
                h.update(p.read_bytes())
    _hdr_hash_cache[key] = h.hexdigest()[:20]
    return _hdr_hash_cache[key]


def includes():
    return ["-I" + str(REPO / "include"), "-I" + str(REPO / "include" / "mujoco"),
            "-I" + str(REPO / "src"), "-I" + str(REPO), "-I" + str(REPO / "plugin"),
            "-I" + str(SHIM), "-I" + str(NATIVE)]


def flags_for(flavour, src, extra=()):
    f = FLAVOURS[flavour]
    is_c = str(src).endswith(".c")
    std = ["-std=gnu11"] if is_c else ["-std=c++20"]
    return ([CC if is_c else CXX] + std + ["-fPIC", "-fvisibility=default"] + f["opt"] + COMMON_DEFS
            + f["defs"] + WARN + includes() + list(extra))


def _obj_key(flavour, src, extra=()):
    cmd = flags_for(flavour, src, extra)
    h = hashlib.sha256()
    h.update(" ".join(cmd).replace(str(REPO), "$REPO").encode())
    h.update(header_hash().encode())
    h.update(Path(src).read_bytes())
    h.update(Path(src).name.encode())
    return h.hexdigest()[:24]


def _compile_many(jobs):
    """jobs: list of (cmd, out). Run up to NPROC at a time."""
    procs = []
    errs = []
    pending = list(jobs)
    running = []
    while pending or running:
        while pending and len(running) < NPROC:
            cmd, out = pending.pop()
            tmp = str(out) + ".tmp%d" % os.getpid()
            p = subprocess.Popen(cmd + ["-c", "-o", tmp], stdout=subprocess.PIPE, stderr=subprocess.STDOUT)
            running.append((p, cmd, out, tmp))
        still = []
        for p, cmd, out, tmp in running:
            rc = p.poll()
            if rc is None:
                still.append((p, cmd, out, tmp))
                continue
            o = p.stdout.read().decode(errors="replace")
            if rc != 0:
                errs.append((cmd, o))
                try:
                    os.unlink(tmp)
                except OSError:
                    pass
            else:
                os.replace(tmp, out)
        running = still
        if running:
            time.sleep(0.02)
    if errs:
        msg = "\n".join("%s\n%s" % (" ".join(c), o[-3000:]) for c, o in errs[:3])
        raise BuildError("compile failed:\n" + msg)


class BuildError(Exception):
    pass


class _Lock:
    def __init__(self, name):
        BUILD.mkdir(parents=True, exist_ok=True)
        self.f = open(BUILD / (name + ".lock"), "w")

    def __enter__(self):
        fcntl.flock(self.f, fcntl.LOCK_EX)
        return self

    def __exit__(self, *a):
        fcntl.flock(self.f, fcntl.LOCK_UN)
        self.f.close()


def objects(flavour, sources, extra=()):
    objdir = BUILD / "obj"
    objdir.mkdir(parents=True, exist_ok=True)
    jobs, objs = [], []
    for s in sources:
        k = _obj_key(flavour, s, extra)
        o = objdir / ("%s-%s-%s.o" % (flavour, Path(s).stem, k))
        objs.append(o)
        if not o.exists():
            jobs.append((flags_for(flavour, s, extra) + [str(s)], o))
    if jobs:
        _compile_many(jobs)
    for o in objs:
        try:
            os.utime(o)
        except OSError:
            pass
    return objs


def ensure(flavour="rel"):
    """Build (or reuse) libmujoco_vf.so for the flavour; returns its path."""
    with _Lock("build-" + flavour):
        objs = objects(flavour, repo_sources() + native_lib_sources())
        key = _sha(("\n".join(o.name for o in objs)).encode())
        libdir = BUILD / "lib" / flavour / key
        lib = libdir / "libmujoco_vf.so"
        if not lib.exists():
            libdir.mkdir(parents=True, exist_ok=True)
            tmp = str(lib) + ".tmp%d" % os.getpid()
            cmd = [CXX, "-shared", "-o", tmp] + [str(o) for o in objs] + FLAVOURS[flavour]["link"] + ["-lpthread", "-ldl", "-lm"]
            r = subprocess.run(cmd, stdout=subprocess.PIPE, stderr=subprocess.STDOUT)
            if r.returncode != 0:
                raise BuildError("link failed:\n" + r.stdout.decode(errors="replace")[-3000:])
            os.replace(tmp, lib)
            _gc(BUILD / "lib" / flavour)
            _gc_objs()
        else:
            os.utime(lib)
        return lib


def exe(flavour, name, srcs, extra=(), link_lib=True, extra_repo_srcs=(), ldflags=(), repo_extra=None):
    """Build a native harness executable from /verif/native/<srcs> (+ optional repo TUs compiled
    with `extra` flags, e.g. -include shim.h).  Linked against the flavour's library by rpath."""
    lib = ensure(flavour) if link_lib else None
    with _Lock("exe-" + flavour + "-" + name):
        srcs = [NATIVE / s if not os.path.isabs(str(s)) else Path(s) for s in srcs]
        objs = objects(flavour, list(srcs), extra)
        if extra_repo_srcs:
            objs += objects(flavour, [REPO / s for s in extra_repo_srcs], extra if repo_extra is None else repo_extra)
        key = _sha(("\n".join(o.name for o in objs) + str(lib) + " ".join(ldflags)).encode())
        d = BUILD / "exe" / flavour / name / key
        out = d / name
        if not out.exists():
            d.mkdir(parents=True, exist_ok=True)
            tmp = str(out) + ".tmp%d" % os.getpid()
            cmd = [CXX, "-o", tmp] + [str(o) for o in objs]
            if lib:
                # private copy (hard link) of the library next to the executable: garbage collection of the
                # library cache can then never break an executable that a long run is still launching
                own = d / "libmujoco_vf.so"
                if not own.exists():
                    try:
                        os.link(lib, own)
                    except OSError:
                        shutil.copy2(lib, own)
                cmd += ["-L" + str(d), "-lmujoco_vf", "-Wl,-rpath," + str(d)]
            cmd += [x for x in FLAVOURS[flavour]["link"] if x != "-shared-libasan"] + list(ldflags) + ["-lpthread", "-ldl", "-lm"]
            if flavour in ("asan", "fuzz") and lib:
                cmd += ["-shared-libasan", "-Wl,-rpath," + asan_rt_dir()]
            r = subprocess.run(cmd, stdout=subprocess.PIPE, stderr=subprocess.STDOUT)
            if r.returncode != 0:
                raise BuildError("link failed:\n" + r.stdout.decode(errors="replace")[-3000:])
            os.replace(tmp, out)
            _gc(BUILD / "exe" / flavour / name, keep=4)
        return out


def asan_rt_dir():
    r = subprocess.run([CC, "-print-file-name=libclang_rt.asan-x86_64.so"], stdout=subprocess.PIPE)
    return str(Path(r.stdout.decode().strip()).parent)


def asan_rt():
    r = subprocess.run([CC, "-print-file-name=libclang_rt.asan-x86_64.so"], stdout=subprocess.PIPE)
    return r.stdout.decode().strip()


def _gc(d, keep=12, min_age_s=6 * 3600):
    """Remove old build directories: keep the `keep` newest, and never remove one used in the last 90 min
    (other checks / mutant runs may still be executing against it)."""
    try:
        subs = sorted([p for p in d.iterdir() if p.is_dir()], key=lambda p: p.stat().st_mtime, reverse=True)
    except FileNotFoundError:
        return
    now = time.time()
    for p in subs[keep:]:
        try:
            if now - p.stat().st_mtime > min_age_s:
                shutil.rmtree(p, ignore_errors=True)
        except OSError:
            pass


def _gc_objs(max_age_s=6 * 3600, max_bytes=6 << 30):
    objdir = BUILD / "obj"
    files = sorted(objdir.glob("*.o"), key=lambda p: p.stat().st_mtime)
    total = sum(p.stat().st_size for p in files)
    now = time.time()
    for p in files:
        if total <= max_bytes:
            break
        if now - p.stat().st_mtime > 600:
            total -= p.stat().st_size
            p.unlink(missing_ok=True)


if __name__ == "__main__":
    t = time.time()
    for fl in sys.argv[1:] or ["rel"]:
        print(fl, ensure(fl), "%.1fs" % (time.time() - t))
