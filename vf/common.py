"""Shared helpers: canonical 'outputs' of an mjData for bitwise comparison, option sweeps, state sampling."""
import numpy as np

from . import drv
from .mjconst import E

# island-local solver scratch (gathered/used only while an island solver runs; stale otherwise)
ISLAND_SCRATCH = {"ifrc_smooth", "iacc_smooth", "iacc", "iefc_aref", "iefc_state", "iefc_force", "ifrc_constraint"}
DIAG_SCALARS = {"timer", "maxuse_stack", "maxuse_arena", "maxuse_con", "maxuse_efc", "threadpool", "pstack", "pbase",
                "parena", "narena", "nbuffer", "warning", "solver_fwdinv"}


# arrays written only by particular calls/options; stale otherwise
CONDITIONAL = {"qfrc_inverse", "qH", "qHDiagInv", "qDeriv", "qLU"}


def outputs(d, with_diag=False, include=()):
    """Canonical dict name -> ndarray copy of every deterministic output of the last call(s).

    Memory that the engine allocates but does not define (struct padding, unused tails of over-allocated
    arena arrays, stale solver-statistics slots, island-solver scratch, raw pointers) is excluded;
    everything else is included bit for bit.
    """
    m, L = d.m, d.L
    out = {}
    for k in d.fields():
        if k == "plugin_data" or k == "plugin":
            continue
        if k in CONDITIONAL and k not in include:
            continue
        out[k] = d[k].copy()
    # tendon wrap arrays: only the slots in use
    if "wrap_obj" in out and m.n("ntendon"):
        adr, num = d["ten_wrapadr"], d["ten_wrapnum"]
        npt = out["wrap_obj"].size          # capacity in wrap points (2 per wrap object)
        used = np.zeros(npt, dtype=bool)
        for a, n in zip(adr, num):
            used[a:a + n] = True
        wo = out["wrap_obj"].copy().ravel()
        wo[~used] = 0
        out["wrap_obj"] = wo
        wx = out["wrap_xpos"].copy().reshape(-1, 3)
        wx[~used] = 0
        out["wrap_xpos"] = wx
    # sparse actuator moment: only the entries addressed by the row structure
    if "moment_colind" in out and m.n("nu"):
        used = np.zeros(out["moment_colind"].size, dtype=bool)
        for a, n in zip(d["moment_rowadr"], d["moment_rownnz"]):
            used[a:a + n] = True
        for k in ("moment_colind", "actuator_moment"):
            v = out[k].copy().ravel()
            v[~used[:v.size]] = 0
            out[k] = v
    # scalars
    for k in L._scalars:
        if k in DIAG_SCALARS and not with_diag:
            continue
        if k in ("solver", "solver_nnz"):
            continue
        out["s." + k] = d.sv(k).copy()
    nisl = min(max(1, d.s("nisland")), L.offsetof("mjNISLAND"))
    niter = d.sv("solver_niter").copy()
    nsol = L.offsetof("mjNSOLVER")
    sol = d.sv("solver")
    for i in range(nisl):
        n = min(int(niter[i]), nsol)
        for f in sol.dtype.names:
            out["s.solver[%d].%s" % (i, f)] = sol[i, :n][f].copy()
    if d.s("nefc") > 0:
        out["s.solver_nnz"] = d.sv("solver_nnz")[:nisl].copy()
    # arena
    af = d.arena_fields()
    nefc, nv = d.s("nefc"), m.n("nv")
    sparse = bool(L.call("mj_isSparse", m))
    for k in af:
        if k in ISLAND_SCRATCH:
            continue
        if k == "contact":
            c = d.arena(k, af)
            for f in c.dtype.names:
                out["contact." + f] = c[f].copy()
            continue
        if k in ("efc_J_rownnz", "efc_J_rowadr", "efc_J_rowsuper", "efc_J_colind") and not sparse:
            continue
        v = d.arena(k, af)
        if k == "efc_J" and not sparse:
            v = v[:nefc * nv]
        out["arena." + k] = v.copy()
    return out


def diff(o1, o2, skip=()):
    return drv.diff_snapshots(o1, o2, skip=skip)


def first_diff(o1, o2, skip=()):
    dd = diff(o1, o2, skip)
    if not dd:
        return None
    k, i, a, b = dd[0]
    return {"field": k, "index": i, "a": a, "b": b, "nfields": len(dd), "fields": [x[0] for x in dd[:12]]}


# ---- options -----------------------------------------------------------------------------------

INTEGRATORS = ["mjINT_EULER", "mjINT_RK4", "mjINT_IMPLICIT", "mjINT_IMPLICITFAST"]
SOLVERS = ["mjSOL_PGS", "mjSOL_CG", "mjSOL_NEWTON"]
CONES = ["mjCONE_PYRAMIDAL", "mjCONE_ELLIPTIC"]
JACOBIANS = ["mjJAC_DENSE", "mjJAC_SPARSE", "mjJAC_AUTO"]


def random_options(rng, m, integrators=None, sleep=False, islands=True):
    """Pick and apply a random option vector; returns a dict describing it."""
    o = {}
    o["integrator"] = str(rng.choice(integrators or INTEGRATORS))
    o["solver"] = str(rng.choice(SOLVERS))
    o["cone"] = str(rng.choice(CONES))
    o["jacobian"] = str(rng.choice(JACOBIANS))
    dis, en = 0, 0
    o["flags"] = []
    if rng.random() < 0.25:
        dis |= E.mjDSBL_WARMSTART
        o["flags"].append("nowarmstart")
    if islands and rng.random() < 0.4:
        dis |= E.mjDSBL_ISLAND
        o["flags"].append("noisland")
    if rng.random() < 0.15:
        dis |= E.mjDSBL_MULTICCD
        o["flags"].append("nomulticcd")
    if rng.random() < 0.1:
        en |= E.mjENBL_DIAGEXACT
        o["flags"].append("diagexact")
    if rng.random() < 0.1:
        dis |= E.mjDSBL_EULERDAMP
        o["flags"].append("noeulerdamp")
    if rng.random() < 0.15:
        en |= E.mjENBL_ENERGY
        o["flags"].append("energy")
    if sleep and rng.random() < 0.5:
        en |= E.mjENBL_SLEEP
        o["flags"].append("sleep")
    if rng.random() < 0.15:
        o["noslip"] = int(rng.integers(1, 4))
    if rng.random() < 0.2:
        o["impratio"] = float(np.exp(rng.uniform(np.log(0.3), np.log(30))))
    apply_options(m, o, dis, en)
    return o


def apply_options(m, o, dis=None, en=None):
    opt = m.opt
    for k in ("integrator", "solver", "cone", "jacobian"):
        if k in o:
            opt[k] = getattr(E, o[k])
    if dis is None:
        dis = 0
        en = 0
        for fl in o.get("flags", []):
            dis |= {"nowarmstart": E.mjDSBL_WARMSTART, "noisland": E.mjDSBL_ISLAND, "nomulticcd": E.mjDSBL_MULTICCD,
                    "noeulerdamp": E.mjDSBL_EULERDAMP}.get(fl, 0)
            en |= {"diagexact": E.mjENBL_DIAGEXACT, "energy": E.mjENBL_ENERGY, "sleep": E.mjENBL_SLEEP}.get(fl, 0)
    opt["disableflags"] = int(opt["disableflags"]) | dis
    opt["enableflags"] = int(opt["enableflags"]) | en
    if "noslip" in o:
        opt["noslip_iterations"] = o["noslip"]
    if "impratio" in o:
        opt["impratio"] = o["impratio"]


def random_controls(rng, m, d, scale=1.0):
    """Randomise ctrl / applied forces / mocap / eq_active in place (user inputs of the state)."""
    nu, nv, nb = m.n("nu"), m.n("nv"), m.n("nbody")
    if nu:
        d["ctrl"][:] = rng.normal(size=nu) * scale
    if nv and rng.random() < 0.5:
        d["qfrc_applied"][:] = rng.normal(size=nv) * scale * 0.3 * (rng.random(nv) < 0.3)
    if nb > 1 and rng.random() < 0.4:
        x = d["xfrc_applied"]
        x[:] = 0
        b = int(rng.integers(1, nb))
        x[b] = rng.normal(size=6) * scale
    nm = m.n("nmocap")
    if nm and rng.random() < 0.5:
        d["mocap_pos"][:] += rng.normal(size=(nm, 3)) * 0.02
        q = d["mocap_quat"] + rng.normal(size=(nm, 4)) * 0.05
        d["mocap_quat"][:] = q / np.linalg.norm(q, axis=1, keepdims=True)
    if m.n("neq") and rng.random() < 0.2:
        d["eq_active"][:] = rng.integers(0, 2, size=m.n("neq"))


def random_state(rng, m, d, vel_scale=1.0):
    """Randomise qpos (respecting joint structure) and qvel in place."""
    nq, nv = m.n("nq"), m.n("nv")
    q = d["qpos"]
    q[:] = m["qpos0"]
    jt, qa = m["jnt_type"], m["jnt_qposadr"]
    rngs, lim = m["jnt_range"], m["jnt_limited"]
    for j in range(m.n("njnt")):
        a = qa[j]
        t = jt[j]
        if t == E.mjJNT_FREE:
            q[a:a + 3] += rng.normal(size=3) * 0.3
            x = rng.normal(size=4)
            q[a + 3:a + 7] = x / np.linalg.norm(x)
        elif t == E.mjJNT_BALL:
            x = rng.normal(size=4)
            q[a:a + 4] = x / np.linalg.norm(x)
        else:
            if lim[j]:
                lo, hi = rngs[j]
                w = hi - lo
                q[a] = rng.uniform(lo - 0.1 * w, hi + 0.1 * w)
            else:
                q[a] += rng.normal() * (1.0 if t == E.mjJNT_HINGE else 0.2)
    d["qvel"][:] = rng.normal(size=nv) * vel_scale
    if m.n("na"):
        d["act"][:] = rng.uniform(-0.5, 0.5, size=m.n("na"))
