"""Check context: verdict discipline, evidence, replays, known findings."""
import hashlib
import json
import os
import sys
import time
import traceback
from pathlib import Path

import numpy as np

VERIF = Path(__file__).resolve().parent.parent
EVID = VERIF / "evidence"
OUT = VERIF / "out"
KNOWN = VERIF / "known_findings.json"


def _jsonable(x):
    if isinstance(x, dict):
        return {str(k): _jsonable(v) for k, v in x.items()}
    if isinstance(x, (list, tuple, set)):
        return [_jsonable(v) for v in x]
    if isinstance(x, np.ndarray):
        return _jsonable(x.tolist())
    if isinstance(x, (np.integer,)):
        return int(x)
    if isinstance(x, (np.floating,)):
        return _jsonable(float(x))
    if isinstance(x, float):
        if x != x:
            return "nan"
        if x in (float("inf"), float("-inf")):
            return "inf" if x > 0 else "-inf"
        return x
    if isinstance(x, (np.bool_,)):
        return bool(x)
    if isinstance(x, bytes):
        return x.decode(errors="replace")
    if isinstance(x, Path):
        return str(x)
    return x


def stable_hash(*parts):
    h = hashlib.sha256()
    for p in parts:
        h.update(repr(p).encode())
        h.update(b"|")
    return int.from_bytes(h.digest()[:8], "little")


class Inconclusive(Exception):
    pass


class Ctx:
    def __init__(self, pid, tier="quick", seed=0, level="exploration", replay=None):
        self.pid = pid
        self.tier = tier
        self.seed = int(seed)
        self.level = level
        self.replay = replay
        self.t0 = time.time()
        self.rng = np.random.Generator(np.random.PCG64(stable_hash(pid, self.seed)))
        self.evaluations = 0
        self.distinct = set()
        self.samples = []
        self.max_samples = 4
        self.counters = {}
        self.violations = []
        self.known_hits = {}
        self.known_full = {}   # entry signature -> {full emitted signature: count} (shows how much a '*' entry really absorbed)
        self.assumptions = []
        self.rule = ""
        self.min_nontrivial = 2
        self.inconclusive_reason = None
        self.extra = {}
        self.exhaustive = None
        self.explanation = None
        self._known = self._load_known()
        (OUT / "replay" / pid).mkdir(parents=True, exist_ok=True)
        if replay is None:
            for old in (OUT / "replay" / pid).glob("%s-seed%d-*.json" % (tier, self.seed)):
                try:
                    old.unlink()
                except OSError:
                    pass

    # ---- tiers -------------------------------------------------------------------------------
    @property
    def quick(self):
        return self.tier == "quick"

    def pick(self, quick, thorough):
        return quick if self.quick else thorough

    def subrng(self, *key):
        return np.random.Generator(np.random.PCG64(stable_hash(self.pid, self.seed, *key)))

    # ---- accounting --------------------------------------------------------------------------
    def case(self, key=None, nontrivial=True, sample=None, n=1):
        """Record n evaluated cases; `key` identifies the distinct non-trivial class."""
        self.evaluations += n
        if nontrivial and key is not None:
            self.distinct.add(key if isinstance(key, str) else repr(key))
        if sample is not None and len(self.samples) < self.max_samples:
            self.samples.append(_jsonable(sample))

    def count(self, name, inc=1):
        self.counters[name] = self.counters.get(name, 0) + inc

    def note_max(self, name, v):
        v = float(v)
        if v == v and v > self.counters.get(name, float("-inf")):
            self.counters[name] = v

    def merge(self, part):
        """Merge a worker's partial result dict produced by Part.result()."""
        self.evaluations += part.get("evaluations", 0)
        for k in part.get("distinct", []):
            self.distinct.add(k)
        for s in part.get("samples", []):
            if len(self.samples) < self.max_samples:
                self.samples.append(s)
        for k, v in part.get("counters", {}).items():
            if k.startswith("max:"):
                self.note_max(k, v)
            else:
                self.count(k, v)
        for v in part.get("violations", []):
            self.violation(v["signature"], v["detail"])

    # ---- known findings ------------------------------------------------------------------------
    def _load_known(self):
        try:
            data = json.loads(KNOWN.read_text())
        except FileNotFoundError:
            return []
        return [e for e in data.get("findings", []) if e.get("property") == self.pid and e.get("status") == "open"]

    def _match_known(self, signature):
        for e in self._known:
            sig = e.get("signature")
            if sig == signature or (sig.endswith("*") and signature.startswith(sig[:-1])):
                return e
        return None

    def violation(self, signature, detail):
        """signature: mechanism-level key (no seeds / random values)."""
        e = self._match_known(signature)
        if e is not None:
            self.known_hits.setdefault(e["signature"], [e, 0])[1] += 1
            full = self.known_full.setdefault(e["signature"], {})
            if signature in full or len(full) < 40:
                full[signature] = full.get(signature, 0) + 1
            return
        detail = _jsonable(detail)
        idx = len(self.violations)
        path = OUT / "replay" / self.pid / ("%s-seed%d-%d.json" % (self.tier, self.seed, idx))
        rec = {"property": self.pid, "signature": signature, "seed": self.seed, "tier": self.tier, "detail": detail}
        nsame = sum(1 for sg, _ in self.violations if sg == signature)
        if idx < 20 or nsame < 2:
            path.write_text(json.dumps(rec, indent=1))
        self.violations.append((signature, str(path)))

    def inconclusive(self, reason):
        if self.inconclusive_reason is None:
            self.inconclusive_reason = reason

    # ---- finish ------------------------------------------------------------------------------
    def finish(self):
        wall = time.time() - self.t0
        nd = len(self.distinct)
        cov = {
            "evaluations": int(self.evaluations),
            "distinct_nontrivial": int(nd),
            "rule": self.rule,
            "samples": self.samples if self.samples else [],
            "counters": _jsonable(self.counters),
        }
        if self.exhaustive is not None:
            cov["exhaustive"] = bool(self.exhaustive)
        if self.explanation:
            cov["explanation"] = self.explanation
        cov.update(_jsonable(self.extra))
        known_lines = []
        for sig, (e, n) in self.known_hits.items():
            known_lines.append("KNOWN-FINDING: property=%s %s (observed %d times; signature=%s)" % (self.pid, e.get("what", ""), n, sig))
        cov["known_findings_observed"] = {sig: n for sig, (e, n) in self.known_hits.items()}
        cov["known_findings_full_signatures"] = self.known_full
        if not self.violations and self.inconclusive_reason is None and self.counters.get("violations_dropped_over_400"):
            self.inconclusive_reason = "a worker reported more than 400 distinct violation records; the excess was not classified"
        if not self.violations and self.inconclusive_reason is None:
            if nd < self.min_nontrivial:
                self.inconclusive_reason = "only %d distinct non-trivial cases (minimum %d)" % (nd, self.min_nontrivial)
            elif not self.samples:
                self.inconclusive_reason = "no sample recorded"
        verdict = "violated" if self.violations else ("inconclusive" if self.inconclusive_reason else "held")
        cov["verdict"] = verdict
        if self.inconclusive_reason:
            cov["inconclusive_reason"] = self.inconclusive_reason
        ev = {
            "property_id": self.pid,
            "tier": self.tier,
            "seed": self.seed,
            "level": self.level,
            "coverage": cov,
            "assumptions": self.assumptions,
            "wall_s": round(wall, 2),
            "violations": len(self.violations),
        }
        if self.replay is None and not os.environ.get("VERIF_REPO") and not os.environ.get("VERIF_NO_EVIDENCE"):
            EVID.mkdir(exist_ok=True)
            tmp = EVID / (self.pid + ".json.tmp%d" % os.getpid())
            tmp.write_text(json.dumps(ev, indent=1, sort_keys=False))
            os.replace(tmp, EVID / (self.pid + ".json"))
        for l in known_lines:
            print(l)
        print("%s %s tier=%s seed=%d evaluations=%d distinct_nontrivial=%d wall=%.1fs counters=%s" % (
            self.pid, verdict.upper(), self.tier, self.seed, self.evaluations, nd, wall,
            json.dumps(_jsonable(self.counters), sort_keys=True)[:1500]))
        if self.violations:
            seen = set()
            for sig, path in self.violations:
                if sig in seen or len(seen) >= 12:
                    continue
                seen.add(sig)
                print("VIOLATION property=%s replay=%s  # %s" % (self.pid, path, sig))
            return 1
        if self.inconclusive_reason:
            print("INCONCLUSIVE property=%s reason=%s" % (self.pid, self.inconclusive_reason))
            return 2
        return 0


class Part:
    """Accumulator used inside worker processes; merged into Ctx by Ctx.merge()."""

    def __init__(self):
        self.evaluations = 0
        self.distinct = set()
        self.samples = []
        self.counters = {}
        self.violations = []
        self._nsig = {}

    def case(self, key=None, nontrivial=True, sample=None, n=1):
        self.evaluations += n
        if nontrivial and key is not None:
            self.distinct.add(key if isinstance(key, str) else repr(key))
        if sample is not None and len(self.samples) < 2:
            self.samples.append(_jsonable(sample))

    def count(self, name, inc=1):
        self.counters[name] = self.counters.get(name, 0) + inc

    def note_max(self, name, v):
        name = name if name.startswith("max:") else "max:" + name
        v = float(v)
        if v == v and v > self.counters.get(name, float("-inf")):
            self.counters[name] = v

    def violation(self, signature, detail):
        # keep the first occurrences of EVERY distinct signature (a worker cannot tell known findings from new ones, so a cap on the
        # total would let many hits of a known finding hide a later new violation); only repeats of a signature are dropped
        n = self._nsig.get(signature, 0)
        self._nsig[signature] = n + 1
        if n < 3 and len(self.violations) < 400:
            self.violations.append({"signature": signature, "detail": _jsonable(detail)})
        else:
            self.count("violation_repeats_not_stored" if n >= 3 else "violations_dropped_over_400")

    def result(self):
        return {"evaluations": self.evaluations, "distinct": sorted(self.distinct),
                "samples": self.samples, "counters": _jsonable(self.counters), "violations": self.violations}
