#!/bin/sh
# Offline setup: harness deps into /verif/.deps, pre-build the common flavours from /repo's working tree.
set -e
cd "$(dirname "$0")"
export PYTHONHASHSEED=0 PIP_NO_INDEX=1
export PYTHONPATH="$PWD:$PWD/.deps${PYTHONPATH:+:$PYTHONPATH}"
mkdir -p out evidence .build
/venv/bin/python -c "from vf import setup_env; setup_env.ensure_deps()"
/venv/bin/python -m vf.build rel asan tsan scalar
/venv/bin/python -c "from vf.gen import corpus; print('corpus models loadable:', len(corpus.loadable()))"
echo "setup ok"
